# Side observation probe: iter_received_packets(timeout=0) / a timed-out recv_packet() issued before wait_connected()
# kills the client for good: later receives never deliver the packets the peer sent.
import asyncio, socket
from easynetwork.clients.async_tcp import AsyncTCPNetworkClient
from easynetwork.protocol import StreamProtocol
from easynetwork.serializers.line import StringLineSerializer

async def main():
    srv = socket.socket(); srv.bind(("127.0.0.1", 0)); srv.listen()
    client = AsyncTCPNetworkClient(srv.getsockname(), StreamProtocol(StringLineSerializer()))
    try:
        first = [p async for p in client.iter_received_packets(timeout=0)]
        print("first iteration:", first)
        try:
            conn = None
            srv.settimeout(1)
            conn, _ = srv.accept()
            conn.sendall(b"p1\n")
        except Exception as exc:
            print("accept:", repr(exc))
        try:
            async with asyncio.timeout(3):
                print("recv_packet ->", await client.recv_packet())
        except Exception as exc:
            print("recv_packet raised", type(exc).__name__, exc)
    finally:
        await client.aclose()
asyncio.run(main())
