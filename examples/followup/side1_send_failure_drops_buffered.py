# Side observation probe: packets fully received (buffered by the asyncio transport) before the peer closed are lost
# if a send_packet() fails (peer fully closed -> RST) before they are read.
import asyncio, socket
from easynetwork.clients.async_tcp import AsyncTCPNetworkClient
from easynetwork.protocol import StreamProtocol
from easynetwork.serializers.line import StringLineSerializer

async def main():
    srv = socket.socket(); srv.bind(("127.0.0.1", 0)); srv.listen()
    async with AsyncTCPNetworkClient(srv.getsockname(), StreamProtocol(StringLineSerializer())) as client:
        await client.wait_connected()
        conn, _ = srv.accept()
        conn.sendall(b"p1\np2\np3\n")
        conn.close()  # clean close: FIN (nothing unread on the peer side)
        await asyncio.sleep(0.2)  # bytes + FIN read by the loop, nobody is receiving
        got = []
        for i in range(3):
            try:
                await client.send_packet("x")
            except OSError as exc:
                got.append(f"send#{i}:{type(exc).__name__}")
            await asyncio.sleep(0.1)
        try:
            async with asyncio.timeout(3):
                while True:
                    got.append(await client.recv_packet())
        except Exception as exc:
            got.append(f"recv:{type(exc).__name__}:{exc}")
        print(got)
asyncio.run(main())
