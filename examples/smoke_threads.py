import sys, threading
sys.path.insert(0,'/verif')
import logging, warnings
warnings.simplefilter("ignore"); logging.disable(logging.CRITICAL)
from vsim.world import World
from vsim.sock import SimNet, Delivery
from vsim.loop import SimEventLoop
from vsim.backend import SimAsyncIOBackend, sim_sockets
from vsim.harness import sync_engine
from vsim.threads import Scheduler
from easynetwork.servers.standalone_tcp import StandaloneTCPNetworkServer
from easynetwork.clients.tcp import TCPNetworkClient
from easynetwork.servers.handlers import AsyncStreamRequestHandler
from easynetwork.protocol import StreamProtocol
from easynetwork.serializers.line import StringLineSerializer

class H(AsyncStreamRequestHandler):
    async def handle(self, client):
        req = yield
        await client.send_packet(req.upper())

def main(seed):
    w = World(seed)
    net = SimNet(w)
    backend = SimAsyncIOBackend(net)
    sched = Scheduler(w)
    w.sched = sched
    out=[]
    with sim_sockets(net), sync_engine(w), sched:
        proto = StreamProtocol(StringLineSerializer())
        srv = StandaloneTCPNetworkServer("127.0.0.1", 5000, proto, H(), backend=backend, runner_options={"loop_factory": lambda: SimEventLoop(w)})
        t = threading.Thread(target=srv.serve_forever, name="srv")
        t.start()
        # wait until listening
        import time
        for _ in range(100):
            if ("127.0.0.1",5000) in net.listeners: break
            time.sleep(0.01)
        lst = net.listeners[("127.0.0.1",5000)]
        csock = net.connect_to_listener(lst, label="cli")
        c = TCPNetworkClient(csock, proto)
        c.send_packet("hello"); out.append(c.recv_packet(timeout=5))
        c.send_packet("world"); out.append(c.recv_packet(timeout=5))
        c.close()
        srv.shutdown(); srv.server_close(); t.join()
    print(out, w.now, w.digest()[:12], len(w.trace), dict(w.counters), dict(w.stats))
main(1); main(1); main(2)
