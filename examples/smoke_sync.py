import sys
sys.path.insert(0,'/verif')
from vsim.world import World
from vsim.sock import SimNet, Delivery
from vsim.harness import sync_engine, Peer, CallFaults
from easynetwork.clients.tcp import TCPNetworkClient
from easynetwork.protocol import StreamProtocol
from easynetwork.serializers.line import StringLineSerializer

def main(seed):
    w = World(seed)
    net = SimNet(w)
    lib, psock = net.socketpair(delivery_ab=Delivery(frag=2,size=3,delays=(1,)), delivery_ba=Delivery(frag=1, delays=(0,1,2)))
    peer = Peer(w, psock)
    lib.fault_plan = CallFaults(w, eagain_den=4, eintr_den=4)
    with sync_engine(w):
        c = TCPNetworkClient(lib, StreamProtocol(StringLineSerializer()))
        peer.write_at(0.5, b"hello\nwor")
        peer.write_at(2.0, b"ld\n")
        peer.fin_at(3.0)
        c.send_packet("ping")
        print(c.recv_packet(timeout=1.0), w.now)
        try: print(c.recv_packet(timeout=0.5), w.now)
        except TimeoutError as e: print("timeout", w.now)
        print(c.recv_packet(timeout=None), w.now)
        try: c.recv_packet()
        except ConnectionAbortedError as e: print("EOF", w.now)
        c.close()
    print(bytes(peer.received), peer.saw_fin, w.digest()[:12], dict(w.stats))
main(3); main(3)
