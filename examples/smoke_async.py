import asyncio, sys
sys.path.insert(0,'/verif')
from vsim.world import World
from vsim.sock import SimNet, Delivery
from vsim.loop import run_async
from vsim.backend import SimAsyncIOBackend, sim_sockets
from easynetwork.servers.async_tcp import AsyncTCPNetworkServer
from easynetwork.clients.async_tcp import AsyncTCPNetworkClient
from easynetwork.servers.handlers import AsyncStreamRequestHandler
from easynetwork.protocol import StreamProtocol
from easynetwork.serializers.line import StringLineSerializer

class H(AsyncStreamRequestHandler):
    async def handle(self, client):
        req = yield
        await client.send_packet(req.upper())

def main(seed):
    w = World(seed)
    net = SimNet(w)
    net.default_delivery = lambda name: Delivery(frag=1, delays=(0,1,2))
    backend = SimAsyncIOBackend(net)
    async def amain():
        proto = StreamProtocol(StringLineSerializer())
        async with AsyncTCPNetworkServer("127.0.0.1", 5000, proto, H(), backend=backend) as srv:
            async with asyncio.TaskGroup() as tg:
                t = tg.create_task(srv.serve_forever())
                await asyncio.sleep(0.1)
                async with AsyncTCPNetworkClient(("127.0.0.1", 5000), proto, backend=backend) as c:
                    await c.send_packet("hello")
                    r = await c.recv_packet()
                    print("got", r, "t=", w.now)
                    await c.send_packet("world")
                    print("got", await c.recv_packet(), "t=", w.now)
                await srv.shutdown()
        return "done"
    with sim_sockets(net):
        print(run_async(w, amain))
    print(w.digest()[:16], len(w.trace), w.counters, [s for s in w.sockets if not s.sim_closed])
main(1); main(1)
