"""Shared harness helpers: engines' context managers, scripted peers, swarm fault configuration."""
from __future__ import annotations

import contextlib
import errno
import selectors
from typing import Any, Callable

from .sock import Delivery, HalfPipe, SimNet, SimSelector, SimSocket, patched_clock
from .world import World


# ------------------------------------------------------------------------------------------------ sync engine
@contextlib.contextmanager
def sync_engine(world: World, **selector_opts: Any):
    """Blocking API under simulation: virtual perf_counter + SimSelector as selectors.PollSelector.

    High-level sync clients have no selector_factory parameter; they look `selectors.PollSelector` up when the
    transport is constructed, so it is patched for the duration of the run.  Low-level transports can also be
    given ``selector_factory=make_selector`` explicitly (yielded value)."""

    def make_selector() -> SimSelector:
        s = SimSelector(world)
        for k, v in selector_opts.items():
            setattr(s, k, v)
        return s

    saved = selectors.PollSelector
    selectors.PollSelector = make_selector  # type: ignore[misc,assignment]
    try:
        with patched_clock(world):
            yield make_selector
    finally:
        selectors.PollSelector = saved  # type: ignore[misc]


# ------------------------------------------------------------------------------------------------ peers
class Peer:
    """A scripted remote end of a stream connection, driven by world events (works for sync and async engines).

    It owns the peer SimSocket.  By default it consumes everything that becomes visible (``received``), so the
    link capacity only bounds bytes in flight; ``pause_reading()`` makes it stop (backpressure)."""

    def __init__(self, world: World, sock: SimSocket):
        self.world = world
        self.sock = sock
        self.received = bytearray()
        self.recv_log: list[tuple[float, int]] = []  # (time, cumulative bytes)
        self.reading = True
        self.read_limit: int | None = None  # bytes per visible event when set
        self.saw_fin = False
        self.saw_rst = False
        self.on_data: Callable[[bytes], None] | None = None
        assert sock.rx_pipe is not None
        sock.rx_pipe.on_visible = self._on_visible

    # ---- reading
    def _on_visible(self) -> None:
        if self.reading:
            self.pull()

    def pull(self, n: int | None = None) -> bytes:
        p = self.sock.rx_pipe
        assert p is not None
        if p.rst:
            self.saw_rst = True
            return b""
        k = len(p.rx) if n is None else min(n, len(p.rx))
        if self.read_limit is not None:
            k = min(k, self.read_limit)
        data = p.read(k) if k else b""
        if data:
            self.received += data
            self.recv_log.append((self.world.now, len(self.received)))
            self.world.log("peer_read", self.sock.label, len(data))
            if self.on_data is not None:
                self.on_data(data)
        if p.fin_visible and not p.rx:
            self.saw_fin = True
        return data

    def pause_reading(self) -> None:
        self.reading = False
        self.world.fault("peer_stops_reading")

    def resume_reading(self) -> None:
        self.reading = True
        self.pull()

    # ---- writing (towards the library)
    def write(self, data: bytes) -> None:
        p = self.sock.tx_pipe
        assert p is not None
        p.write(data)
        self.world.log("peer_write", self.sock.label, len(data))

    def write_at(self, t: float, data: bytes) -> None:
        self.world.at(t, lambda: self.write(data))

    def fin(self) -> None:
        assert self.sock.tx_pipe is not None
        self.sock.tx_pipe.write_fin()

    def fin_at(self, t: float) -> None:
        self.world.at(t, self.fin)

    def reset(self) -> None:
        """abortive close: the library's next read sees ECONNRESET, its writes EPIPE/ECONNRESET"""
        assert self.sock.tx_pipe is not None and self.sock.rx_pipe is not None
        self.sock.tx_pipe.reset()
        self.sock.rx_pipe.reader_closed = True
        self.world.log("peer_reset", self.sock.label)

    def close(self) -> None:
        self.sock.close()


# ------------------------------------------------------------------------------------------------ fault plans
class CallFaults:
    """Per-socket-call fault plan: spurious EAGAIN / EINTR on recv/send/accept with swarm-chosen rates, and
    "error from call n on".  Install with ``sock.fault_plan = CallFaults(world, ...)`` or ``net.fault_plan``."""

    def __init__(self, world: World, eagain_den: int = 0, eintr_den: int = 0, ops: tuple[str, ...] = ("recv", "send", "recvfrom", "sendto")):
        self.world = world
        self.eagain_den = eagain_den
        self.eintr_den = eintr_den
        self.ops = ops
        self.fail_from: dict[str, tuple[int, int]] = {}  # op -> (call index, errno)
        self.counts: dict[str, int] = {}
        self.consecutive = 0

    def __call__(self, sock: SimSocket, op: str):
        n = self.counts.get(op, 0)
        self.counts[op] = n + 1
        if op in self.fail_from and n >= self.fail_from[op][0]:
            code = self.fail_from[op][1]
            self.world.fault("errno_" + errno.errorcode.get(code, str(code)).lower())
            cls = {errno.ECONNRESET: ConnectionResetError, errno.EPIPE: BrokenPipeError, errno.ECONNREFUSED: ConnectionRefusedError, errno.ECONNABORTED: ConnectionAbortedError}.get(code, OSError)
            import os

            return cls(code, os.strerror(code))
        if op not in self.ops:
            return None
        if self.consecutive >= 3:  # bounded: never starve the call forever
            self.consecutive = 0
            return None
        if self.eagain_den and self.world.chance("eagain", 1, self.eagain_den):
            self.world.fault("eagain")
            self.consecutive += 1
            return BlockingIOError(errno.EAGAIN, "injected EAGAIN")
        if self.eintr_den and self.world.chance("eintr", 1, self.eintr_den):
            self.world.fault("eintr")
            self.consecutive += 1
            return InterruptedError(errno.EINTR, "injected EINTR")
        self.consecutive = 0
        return None


def draw_rate(world: World, tag: str, options: tuple[int, ...] = (0, 0, 16, 4)) -> int:
    """swarm: a fault kind is off (0) or has a denominator; index 0 (replay default) = off"""
    return options[world.choose(tag, len(options))]


def swarm_selector(world: World, sel: SimSelector) -> None:
    sel.hold_den = draw_rate(world, "sw.hold", (0, 0, 8, 3))
    sel.spurious_den = draw_rate(world, "sw.spurious", (0, 0, 0, 12))
    sel.reorder = bool(world.choose("sw.reorder", 2))
