"""Shared harness helpers: engines' context managers, scripted peers, swarm fault configuration."""
from __future__ import annotations

import contextlib
import errno
import selectors
from typing import Any, Callable

from .sock import Delivery, HalfPipe, SimNet, SimSelector, SimSocket, patched_clock
from .world import World


# ------------------------------------------------------------------------------------------------ sync engine
@contextlib.contextmanager
def sync_engine(world: World, selector_cls: type[SimSelector] = SimSelector, **selector_opts: Any):
    """Blocking API under simulation: virtual perf_counter + SimSelector as selectors.PollSelector.

    High-level sync clients have no selector_factory parameter; they look `selectors.PollSelector` up when the
    transport is constructed, so it is patched for the duration of the run.  Low-level transports can also be
    given ``selector_factory=make_selector`` explicitly (yielded value).
    ``selector_cls`` (a SimSelector subclass taking ``world``) lets a harness observe/perturb select() calls."""

    def make_selector() -> SimSelector:
        s = selector_cls(world)
        for k, v in selector_opts.items():
            setattr(s, k, v)
        return s

    saved = selectors.PollSelector
    selectors.PollSelector = make_selector  # type: ignore[misc,assignment]
    try:
        with patched_clock(world):
            yield make_selector
    finally:
        selectors.PollSelector = saved  # type: ignore[misc]


class ProbeSelector(SimSelector):
    """SimSelector that reports every select() call to ``world.select_probe(timeout)`` (if that attribute is set)
    before waiting.  Used by oracles of the kind "this call must not wait" / "budget overrun" (C03, C11).
    Pass as ``sync_engine(world, selector_cls=ProbeSelector)``."""

    def select(self, timeout: float | None = None):
        probe = getattr(self.world, "select_probe", None)
        if probe is not None:
            probe(timeout)
        return super().select(timeout)


def vsleep(world: World, dt: float) -> None:
    """sync engine: the *caller thread* lets ``dt`` virtual seconds pass (world events run meanwhile);
    ``dt == 0`` just runs the events that are already due."""
    target = world.now + dt
    world.run_due()
    while world.now < target:
        world.advance(target - world.now)


# ------------------------------------------------------------------------------------------------ peers
class Peer:
    """A scripted remote end of a stream connection, driven by world events (works for sync and async engines).

    It owns the peer SimSocket.  By default it consumes everything that becomes visible (``received``), so the
    link capacity only bounds bytes in flight; ``pause_reading()`` makes it stop (backpressure)."""

    def __init__(self, world: World, sock: SimSocket):
        self.world = world
        self.sock = sock
        self.received = bytearray()
        self.recv_log: list[tuple[float, int]] = []  # (time, cumulative bytes)
        self.reading = True
        self.read_limit: int | None = None  # bytes per visible event when set
        self.saw_fin = False
        self.saw_rst = False
        self.on_data: Callable[[bytes], None] | None = None
        assert sock.rx_pipe is not None
        sock.rx_pipe.on_visible = self._on_visible

    # ---- reading
    def _on_visible(self) -> None:
        if self.reading:
            self.pull()

    def pull(self, n: int | None = None) -> bytes:
        p = self.sock.rx_pipe
        assert p is not None
        if p.rst:
            self.saw_rst = True
            return b""
        k = len(p.rx) if n is None else min(n, len(p.rx))
        if self.read_limit is not None:
            k = min(k, self.read_limit)
        data = p.read(k) if k else b""
        if data:
            self.received += data
            self.recv_log.append((self.world.now, len(self.received)))
            self.world.log("peer_read", self.sock.label, len(data))
            if self.on_data is not None:
                self.on_data(data)
        if p.fin_visible and not p.rx:
            self.saw_fin = True
        return data

    def pause_reading(self) -> None:
        self.reading = False
        self.world.fault("peer_stops_reading")

    def resume_reading(self) -> None:
        self.reading = True
        self.pull()

    # ---- writing (towards the library)
    def write(self, data: bytes) -> None:
        p = self.sock.tx_pipe
        assert p is not None
        p.write(data)
        self.world.log("peer_write", self.sock.label, len(data))

    def write_at(self, t: float, data: bytes) -> None:
        self.world.at(t, lambda: self.write(data))

    def fin(self) -> None:
        assert self.sock.tx_pipe is not None
        self.sock.tx_pipe.write_fin()

    def fin_at(self, t: float) -> None:
        self.world.at(t, self.fin)

    def reset(self) -> None:
        """abortive close: the library's next read sees ECONNRESET, its writes EPIPE/ECONNRESET"""
        assert self.sock.tx_pipe is not None and self.sock.rx_pipe is not None
        self.sock.tx_pipe.reset()
        self.sock.rx_pipe.reader_closed = True
        self.world.log("peer_reset", self.sock.label)

    def close(self) -> None:
        self.sock.close()


# ------------------------------------------------------------------------------------------------ fault plans
class CallFaults:
    """Per-socket-call fault plan: spurious EAGAIN / EINTR on recv/send/accept with swarm-chosen rates, and
    "error from call n on".  Install with ``sock.fault_plan = CallFaults(world, ...)`` or ``net.fault_plan``."""

    def __init__(self, world: World, eagain_den: int = 0, eintr_den: int = 0, ops: tuple[str, ...] = ("recv", "send", "recvfrom", "sendto")):
        self.world = world
        self.eagain_den = eagain_den
        self.eintr_den = eintr_den
        self.ops = ops
        self.fail_from: dict[str, tuple[int, int]] = {}  # op -> (call index, errno)
        self.counts: dict[str, int] = {}
        self.consecutive = 0

    def __call__(self, sock: SimSocket, op: str):
        n = self.counts.get(op, 0)
        self.counts[op] = n + 1
        if op in self.fail_from and n >= self.fail_from[op][0]:
            code = self.fail_from[op][1]
            self.world.fault("errno_" + errno.errorcode.get(code, str(code)).lower())
            cls = {errno.ECONNRESET: ConnectionResetError, errno.EPIPE: BrokenPipeError, errno.ECONNREFUSED: ConnectionRefusedError, errno.ECONNABORTED: ConnectionAbortedError}.get(code, OSError)
            import os

            return cls(code, os.strerror(code))
        if op not in self.ops:
            return None
        if self.consecutive >= 3:  # bounded: never starve the call forever
            self.consecutive = 0
            return None
        if self.eagain_den and self.world.chance("eagain", 1, self.eagain_den):
            self.world.fault("eagain")
            self.consecutive += 1
            return BlockingIOError(errno.EAGAIN, "injected EAGAIN")
        if self.eintr_den and self.world.chance("eintr", 1, self.eintr_den):
            self.world.fault("eintr")
            self.consecutive += 1
            return InterruptedError(errno.EINTR, "injected EINTR")
        self.consecutive = 0
        return None


def draw_rate(world: World, tag: str, options: tuple[int, ...] = (0, 0, 16, 4)) -> int:
    """swarm: a fault kind is off (0) or has a denominator; index 0 (replay default) = off"""
    return options[world.choose(tag, len(options))]


def swarm_selector(world: World, sel: SimSelector) -> None:
    sel.hold_den = draw_rate(world, "sw.hold", (0, 0, 8, 3))
    sel.spurious_den = draw_rate(world, "sw.spurious", (0, 0, 0, 12))
    sel.reorder = bool(world.choose("sw.reorder", 2))


# ------------------------------------------------------------------------------------------------ coincidence bias
class AlignedFeed:
    """Scripted byte feed towards the library whose visibility can be re-timed onto the waiter's next timer
    (coincidence bias, DESIGN §2.3 item 4).  Owns ``peer_sock.tx_pipe``, which must be in manual delivery mode
    (``Delivery(frag=5)``).

    ``plan(t, data, defer)``: `data` becomes visible to the library's socket at virtual time `t`, `defer` loop
    iterations later: 0 = by the world event itself, i.e. inside the ``select()`` call that reaches `t` (a timer due at
    `t` then runs in the SAME loop iteration, after the read callback); 1 = at the start of the following ``select()``
    call (= right after the timers of that iteration ran, before the tasks they woke are stepped); 2 = one more.
    A deferred chunk is flushed as soon as the loop would block instead.  Chunks become visible strictly in plan order
    (a chunk planned earlier than its predecessor's actual time follows it immediately).  ``plan_fin`` = FIN.

    ``on_wait`` is a ``SimSelector.align`` hook: when the selector is about to block for `timeout` (loop: distance to
    its next timer) and the head chunk is still pending, then with probability 1/align_den (once per chunk) the chunk
    is re-timed to exactly ``now + timeout`` with a drawn `defer` from `offsets`; counted as fault ``coincide_timer``.
    Deterministic: all draws go through the world.  ``log`` = [(time, loop_iteration, cumulative bytes | -1 for FIN)]."""

    def __init__(self, world: World, peer_sock: SimSocket, *, align_den: int = 0, offsets: tuple[int, ...] = (0, 1, 2), name: str = "feed"):
        from collections import deque

        pipe = peer_sock.tx_pipe
        assert pipe is not None and pipe.delivery.frag == 5, "AlignedFeed needs a manual-mode pipe (Delivery(frag=5))"
        self.world = world
        self.pipe: HalfPipe = pipe
        self.name = name
        self.align_den = align_den
        self.offsets = offsets
        self.queue: Any = deque()  # [t, data | None (FIN), defer, already_aligned]
        self.gen = 0
        self.armed = False
        self.countdown: int | None = None
        self.total = 0
        self.fin_done = False
        self.log: list[tuple[float, int, int]] = []
        world.iteration_hooks.append(self._tick)

    # ---- plan
    def plan(self, t: float, data: bytes, defer: int = 0) -> None:
        self.queue.append([t, bytes(data), defer, False])
        self._arm()

    def plan_fin(self, t: float, defer: int = 0) -> None:
        self.queue.append([t, None, defer, False])
        self._arm()

    def idle(self) -> bool:
        return not self.queue

    # ---- machinery
    def _arm(self) -> None:
        if self.armed or self.countdown is not None or not self.queue:
            return
        self.gen += 1
        self.armed = True
        g = self.gen
        self.world.at(max(self.queue[0][0], self.world.now), lambda: self._fire(g))

    def _fire(self, g: int) -> None:
        if g != self.gen or not self.armed:
            return  # stale (re-timed)
        self.armed = False
        if self.queue[0][2] <= 0:
            self._deliver()
        else:
            self.countdown = self.queue[0][2]

    def _tick(self) -> None:
        if self.countdown is not None:
            self.countdown -= 1
            if self.countdown <= 0:
                self.countdown = None
                self._deliver()

    def _flush_deferred(self) -> None:
        if self.countdown is not None:
            self.countdown = None
            self._deliver()

    def _deliver(self) -> None:
        _, data, _, _ = self.queue.popleft()
        it = self.world.counters["loop_iterations"]
        if data is None:
            self.fin_done = True
            self.log.append((self.world.now, it, -1))
            self.pipe.deliver_fin()
        else:
            self.total += len(data)
            self.log.append((self.world.now, it, self.total))
            self.pipe.write(data)
            self.pipe.deliver(len(data))
        self._arm()

    # ---- SimSelector.align hook
    def on_wait(self, timeout: float | None) -> None:
        w = self.world
        if self.countdown is not None:
            w.at(w.now, self._flush_deferred)  # the waiter goes idle: "next iteration" is now
            return
        if not self.armed or not self.align_den or timeout is None or timeout <= 0:
            return
        head = self.queue[0]
        if head[3]:
            return
        if not w.chance("align", 1, self.align_den):
            return
        j = self.offsets[w.choose("align.off", len(self.offsets))]
        head[0] = w.now + timeout
        head[2] = j
        head[3] = True
        self.armed = False
        self._arm()
        w.fault("coincide_timer")
        w.log("align", self.name, j)
