"""Reference TLS peer (DESIGN §2.5): stdlib ssl.SSLObject over MemoryBIOs — NOT EasyNetwork code.

It is the independent witness for "what plaintext did the other side see" and "did a close_notify arrive".
Cipher-text *content* is not reproducible (OpenSSL RNG) — schedules, traces and digests use lengths only.
"""
from __future__ import annotations

import os
import select as _select
import socket as _socket
import ssl
from typing import Any, Callable

from .sock import EVENT_READ, EVENT_WRITE, HalfPipe, SimSocket
from .world import HarnessError, World

FIXTURES = os.path.join(os.path.dirname(os.path.dirname(os.path.abspath(__file__))), "fixtures", "tls")
CERT = os.path.join(FIXTURES, "cert.pem")
KEY = os.path.join(FIXTURES, "key.pem")

_ctx_cache: dict[tuple, ssl.SSLContext] = {}


def make_context(server_side: bool, version: str = "1.3", pha: bool = False) -> ssl.SSLContext:
    """Contexts are cached per (role, version, pha): building one costs ~1 ms; they hold no per-connection state
    (session cache disabled so that no run influences the next).

    pha=True (TLS 1.3 only): post-handshake client authentication is enabled; the client context carries a certificate,
    the server context can ask for it after the handshake (``TLSEngine.request_client_cert``).  It is the one way the
    stdlib offers to make a *read* on the client side produce cipher-text (the answer to the CertificateRequest)."""
    key = (server_side, version, pha)
    ctx = _ctx_cache.get(key)
    if ctx is not None:
        return ctx
    if server_side:
        ctx = ssl.SSLContext(ssl.PROTOCOL_TLS_SERVER)
        ctx.load_cert_chain(CERT, KEY)
        if pha:
            ctx.load_verify_locations(CERT)
            ctx.verify_mode = ssl.CERT_REQUIRED
            ctx.post_handshake_auth = True
    else:
        ctx = ssl.SSLContext(ssl.PROTOCOL_TLS_CLIENT)
        ctx.load_verify_locations(CERT)
        ctx.check_hostname = True
        if pha:
            ctx.load_cert_chain(CERT, KEY)
            ctx.post_handshake_auth = True
    v = ssl.TLSVersion.TLSv1_3 if version == "1.3" else ssl.TLSVersion.TLSv1_2
    ctx.minimum_version = v
    ctx.maximum_version = v
    if version == "1.2":
        ctx.set_ciphers("ECDHE-RSA-AES128-GCM-SHA256")
    ctx.options |= ssl.OP_NO_TICKET
    if hasattr(ctx, "num_tickets") and server_side:
        ctx.num_tickets = 0
    _ctx_cache[key] = ctx
    return ctx


class TLSEngine:
    """ssl.SSLObject + two MemoryBIOs, driven explicitly.  No I/O."""

    def __init__(self, server_side: bool, version: str = "1.3", server_hostname: str | None = "sim.host", pha: bool = False):
        self.incoming = ssl.MemoryBIO()
        self.outgoing = ssl.MemoryBIO()
        ctx = make_context(server_side, version, pha)
        self.obj = ctx.wrap_bio(self.incoming, self.outgoing, server_side=server_side, server_hostname=None if server_side else server_hostname)
        self.handshake_done = False
        self.plain_in = bytearray()
        self.plain_backlog = bytearray()  # application writes queued until the handshake is done / WantRead clears
        self.saw_close_notify = False
        self.saw_ragged_eof = False
        self.error: BaseException | None = None
        self.sent_close_notify = False
        self.want_unwrap = False
        self.unwrap_done = False
        self.eof_fed = False
        self.read_enabled = True

    def feed(self, data: bytes) -> None:
        if data:
            self.incoming.write(data)
        self.step()

    def feed_eof(self) -> None:
        self.eof_fed = True
        self.incoming.write_eof()
        self.step()

    def write(self, data: bytes) -> None:
        self.plain_backlog += data
        self.step()

    def close_notify(self) -> None:
        self.want_unwrap = True
        self.step()

    def request_client_cert(self) -> None:
        """server side, TLS 1.3, pha=True: ask for the client's certificate; the CertificateRequest leaves with the next write"""
        self.obj.verify_client_post_handshake()

    @property
    def client_cert_received(self) -> bool:
        try:
            return bool(self.obj.getpeercert())
        except ValueError:  # the SSL object is in an error state (e.g. the stream could not be decrypted)
            return False

    def step(self) -> None:
        if self.error is not None:
            return
        try:
            if not self.handshake_done:
                try:
                    self.obj.do_handshake()
                except ssl.SSLWantReadError:
                    return
                self.handshake_done = True
            if self.plain_backlog and not self.sent_close_notify:
                try:
                    while self.plain_backlog:
                        n = self.obj.write(bytes(self.plain_backlog[:16384]))
                        del self.plain_backlog[:n]
                except ssl.SSLWantReadError:
                    pass
            if self.read_enabled and not self.saw_close_notify and not self.saw_ragged_eof:
                while True:
                    try:
                        chunk = self.obj.read(65536)
                    except ssl.SSLWantReadError:
                        break
                    except ssl.SSLZeroReturnError:
                        self.saw_close_notify = True
                        break
                    if not chunk:
                        self.saw_close_notify = True  # SSLObject.read returns b"" on clean shutdown in some versions
                        break
                    self.plain_in += chunk
            if self.want_unwrap and not self.unwrap_done and not self.plain_backlog:
                try:
                    self.obj.unwrap()
                    self.unwrap_done = True
                    self.sent_close_notify = True
                except ssl.SSLWantReadError:
                    self.sent_close_notify = True  # our close_notify is in the outgoing BIO; waiting for the peer's
                except ssl.SSLZeroReturnError:
                    self.unwrap_done = True
                    self.sent_close_notify = True
        except ssl.SSLError as e:
            if getattr(e, "strerror", "") and "EOF" in str(e):
                self.saw_ragged_eof = True
            self.error = e
        except OSError as e:
            self.error = e

    def take_output(self) -> bytes:
        return self.outgoing.read() if self.outgoing.pending else b""


class TLSPeer:
    """TLSEngine attached to the peer SimSocket of a stream link.

    shape: "eager"  reads whatever arrives at once and writes without regard to the link (out queue unbounded);
           "wtr"    write-then-read: a blocking-socket application — its writes respect link capacity and it does not
                    read while a write is stuck (legal; harmless as long as the other side keeps reading).
    """

    def __init__(self, world: World, sock: SimSocket, server_side: bool, version: str = "1.3", shape: str = "eager", pha: bool = False):
        self.world = world
        self.sock = sock
        self.engine = TLSEngine(server_side, version, pha=pha)
        self.shape = shape
        self.out_pending = bytearray()
        self.cipher_in = 0
        self.cipher_out_lengths: list[int] = []  # length of every flush (= record groups) the peer produced
        self.closed = False
        self.fin_seen = False
        self.rst_seen = False
        assert sock.rx_pipe is not None and sock.tx_pipe is not None
        self.rx: HalfPipe = sock.rx_pipe
        self.tx: HalfPipe = sock.tx_pipe
        self.rx.on_visible = self._on_visible
        self.tx.on_room = self._flush  # type: ignore[attr-defined]
        self.capacity_bound = shape == "wtr"
        self.on_handshake_done: Callable[[], None] | None = None
        self.hs_end: int | None = None  # bytes this peer had put on the wire when its handshake completed
        self.auto_close_reply = False  # answer the other side's close_notify with ours + FIN
        self._replied = False
        self.wire_out = bytearray()  # every cipher-text byte this peer produced (content differs between runs!)
        # optional: when set, cipher-text this peer produces is handed to sink(data) instead of being written to the
        # link (the harness then decides when it becomes visible, e.g. vsim.harness.AlignedFeed on a manual-mode pipe)
        self.sink: Callable[[bytes], None] | None = None
        if not server_side:
            self.engine.step()
            self._collect()

    # ---- wire
    paused = False  # the peer application does not read (back-pressure on the other side); see resume()

    def resume(self) -> None:
        self.paused = False
        self._drain_rx()

    def _on_visible(self) -> None:
        if self.closed or self.paused:
            return
        if self.shape == "wtr" and self.out_pending:
            return  # stuck in a write: not reading
        self._drain_rx()

    def _drain_rx(self) -> None:
        p = self.rx
        if p.rst:
            self.rst_seen = True
            return
        if p.rx:
            data = p.read(len(p.rx))
            self.cipher_in += len(data)
            self.world.log("tlspeer_in", self.sock.label, len(data))
            self.engine.feed(data)
        if p.fin_visible and not p.rx and not self.fin_seen:
            self.fin_seen = True
            self.engine.feed_eof()
        self._collect()

    def _collect(self) -> None:
        out = self.engine.take_output()
        if out:
            self.cipher_out_lengths.append(len(out))
            self.out_pending += out
            self.wire_out += out
        self._flush()
        if self.engine.handshake_done and self.hs_end is None:
            self.hs_end = len(self.wire_out)
            if self.on_handshake_done is not None:
                self.on_handshake_done()
        if self.auto_close_reply and self.engine.saw_close_notify and not self._replied:
            self._replied = True
            # auto_close_reply == "drop": hang up without answering the close_notify (legal for a peer; the other side's
            # reader must then NOT see a clean end-of-stream in standard-compatible mode)
            self.close(notify=self.auto_close_reply != "drop")

    def _flush(self) -> None:
        if self.closed or not self.out_pending:
            return
        if self.sink is not None:
            data = bytes(self.out_pending)
            self.out_pending.clear()
            self.world.log("tlspeer_sink", self.sock.label, len(data))
            self.sink(data)
            return
        if self.capacity_bound:
            n = min(self.tx.room(), len(self.out_pending))
        else:
            n = len(self.out_pending)
        if n:
            self.tx.write(bytes(self.out_pending[:n]))
            del self.out_pending[:n]
            self.world.log("tlspeer_out", self.sock.label, n)
        if self.shape == "wtr" and not self.out_pending:
            self._drain_rx() if (self.rx.rx or self.rx.fin_visible) else None

    # ---- application
    def write(self, data: bytes) -> None:
        self.engine.write(data)
        self._collect()

    def write_at(self, t: float, data: bytes) -> None:
        self.world.at(t, lambda: self.write(data))

    def close_notify(self) -> None:
        self.engine.close_notify()
        self._collect()

    def fin(self) -> None:
        self.tx.write_fin()

    def close(self, notify: bool = True) -> None:
        if notify:
            self.close_notify()
        self.tx.write_fin()

    @property
    def plain_in(self) -> bytes:
        return bytes(self.engine.plain_in)


class RealTLSPeer:
    """Reference TLS peer on the far end of a REAL socketpair (blocking SSLStreamTransport needs an OS descriptor
    because OpenSSL does the socket I/O itself).  Registered in ``world.fd_table`` under the library end's real fd so
    that SimSelector asks it for readiness; it pumps the far end from there.  Single-threaded use of a socketpair is
    deterministic: bytes are readable as soon as send() returned.  Fragmentation/delay of what the peer sends is a
    cyclic script (sizes, delays in 1/64 s) executed by world events; ``fin_at`` cuts the peer's stream after exactly
    k bytes."""

    def __init__(self, world: World, server_side: bool, version: str = "1.3", sizes: list[int] | None = None, delays: list[int] | None = None):
        self.world = world
        self.lib_sock, self.far = _socket.socketpair()
        self.far.setblocking(False)
        self.lib_fd = self.lib_sock.fileno()
        world.fd_table[self.lib_fd] = self
        world.keepalive.append(self)
        self.engine = TLSEngine(server_side, version)
        self.sizes = [max(1, s) for s in (sizes or [1 << 30])]
        self.delays = list(delays or [0])
        self._si = 0
        self._di = 0
        self.out_pending = bytearray()
        self.wire_out = bytearray()
        self.sent_to_lib = 0
        self.fin_at: int | None = None
        self.fin_sent = False
        self.fin_seen = False
        self.hs_end: int | None = None
        self.on_handshake_done: Callable[[], None] | None = None
        self.auto_close_reply = False
        self._replied = False
        self._scheduled = False
        self._stuck = False
        self.want_fin = False
        self.sim_closed = False
        if not server_side:
            self.engine.step()
            self._collect()

    # ---- SimSelector interface
    def sim_events(self) -> int:
        self.pump()
        # poll by descriptor number: ssl.wrap_socket() detaches the original socket object
        try:
            r, w_, _ = _select.select([self.lib_fd], [self.lib_fd], [], 0)
        except (OSError, ValueError):
            return 0
        return (EVENT_READ if r else 0) | (EVENT_WRITE if w_ else 0)

    def pump(self) -> None:
        """read whatever the library wrote; feed the engine"""
        if self.sim_closed:
            return
        if self._stuck:
            self._stuck = False
            self._schedule()
        while True:
            try:
                data = self.far.recv(1 << 16)
            except BlockingIOError:
                break
            except OSError:
                self.fin_seen = True
                break
            if not data:
                if not self.fin_seen:
                    self.fin_seen = True
                    self.engine.feed_eof()
                break
            self.world.log("tlspeer_in", "real", len(data))
            self.engine.feed(data)
        self._collect()

    def _collect(self) -> None:
        out = self.engine.take_output()
        if out:
            self.out_pending += out
            self.wire_out += out
        if self.engine.handshake_done and self.hs_end is None:
            self.hs_end = len(self.wire_out)
            if self.on_handshake_done is not None:
                self.on_handshake_done()
        if self.auto_close_reply and self.engine.saw_close_notify and not self._replied:
            self._replied = True
            # auto_close_reply == "drop": hang up without answering the close_notify (legal for a peer; the other side's
            # reader must then NOT see a clean end-of-stream in standard-compatible mode)
            self.close(notify=self.auto_close_reply != "drop")
        self._schedule()

    def _schedule(self) -> None:
        if self._scheduled or self.fin_sent:
            return
        if not self.out_pending and not self.want_fin:
            return
        self._scheduled = True
        d = self.delays[self._di % len(self.delays)]
        self._di += 1
        self.world.after(d / 64.0, self._deliver)

    def _deliver(self) -> None:
        self._scheduled = False
        if self.fin_sent or self.sim_closed:
            return
        if self.out_pending:
            k = min(len(self.out_pending), self.sizes[self._si % len(self.sizes)])
            self._si += 1
            cut = False
            if self.fin_at is not None and self.sent_to_lib + k >= self.fin_at:
                k = max(0, self.fin_at - self.sent_to_lib)
                cut = True
            if k:
                try:
                    k = self.far.send(bytes(self.out_pending[:k]))
                except BlockingIOError:
                    # the kernel buffer of the real socketpair is full (many tiny writes): retry from the next pump()
                    self._stuck = True
                    return
                except OSError:
                    self.out_pending.clear()
                    return
                del self.out_pending[:k]
                self.sent_to_lib += k
                self.world.log("vis", "real", k)
                if cut and self.sent_to_lib < (self.fin_at or 0):
                    cut = False
            if cut:
                self.out_pending.clear()
                self._fin()
                self.world.fault("fin_at")
                return
        elif self.want_fin:
            self._fin()
            return
        self._schedule()

    def _fin(self) -> None:
        if not self.fin_sent:
            self.fin_sent = True
            try:
                self.far.shutdown(_socket.SHUT_WR)
            except OSError:
                pass
            self.world.log("fin", "real")

    # ---- application
    def write(self, data: bytes) -> None:
        self.engine.write(data)
        self._collect()

    def close_notify(self) -> None:
        self.engine.close_notify()
        self._collect()

    def close(self, notify: bool = True) -> None:
        if notify:
            self.close_notify()
        self.want_fin = True
        self._schedule()

    def dispose(self) -> None:
        self.sim_closed = True
        self.world.fd_table.pop(self.lib_fd, None)
        for s in (self.far, self.lib_sock):
            try:
                s.close()
            except OSError:
                pass
