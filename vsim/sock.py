"""SimSocket / SimNet / SimSelector (DESIGN §2.2, §2.3).

A SimSocket is a ``socket.socket`` subclass that never owns an OS file descriptor.  It implements the surface that
EasyNetwork's blocking transports and CPython's asyncio selector transports call.  All I/O goes through a SimNet
that owns what is in flight, when it becomes visible, and which faults fire.

Stream model: a connection is two HalfPipes.  A HalfPipe has bytes *in flight* (written, not yet visible to the
reader), a receive queue (visible), and a capacity bounding in-flight + unread bytes (send-buffer + receive-buffer).
``recv`` never under-reports what is visible (DESIGN §2.6): fragmentation is modelled by *when* bytes become visible.
"""
from __future__ import annotations

import errno
import os
import selectors
import socket
from collections import deque
from typing import Any, Callable

from .world import Deadlock, HarnessError, StepCap, World

EVENT_READ = selectors.EVENT_READ
EVENT_WRITE = selectors.EVENT_WRITE


def _oserr(code: int, cls: type[OSError] = OSError) -> OSError:
    return cls(code, os.strerror(code))


# ======================================================================================================== policies
class Delivery:
    """How bytes in flight become visible to the reader.

    frag: 0 whole (everything in flight at once) | 1 byte-by-byte | 2 fixed size `size` | 3 random 1..size |
          4 scripted sizes (list `script`, then whole) | 5 manual (harness calls pipe.deliver(n))
    delay: list of candidate per-fragment delays in 1/64 s units; index chosen per fragment (0 => first entry)
    """

    def __init__(self, frag: int = 0, size: int = 1, delays: tuple[int, ...] = (0,), script: list[int] | None = None):
        self.frag = frag
        self.size = max(1, size)
        self.delays = delays
        self.script = list(script or [])
        # frag 6: cyclic, choice-free script (used by sweeps over a pre-drawn scenario): sizes and delays are cycled
        self.cyc_sizes: list[int] = []
        self.cyc_delays: list[int] = []
        self._ci = 0
        self._cd = 0

    @classmethod
    def cyclic(cls, sizes: list[int], delays: list[int]) -> "Delivery":
        d = cls(frag=6)
        d.cyc_sizes = [max(1, x) for x in sizes] or [1 << 30]
        d.cyc_delays = list(delays) or [0]
        return d

    @classmethod
    def draw(cls, world: World, tag: str = "link", max_delay: int = 8) -> "Delivery":
        frag = world.choose(tag + ".frag", 4)
        size = 1
        if frag in (2, 3):
            size = 1 + world.choose(tag + ".size", 48)
        d = world.choose(tag + ".delay", 3)
        delays = {0: (0,), 1: (1,), 2: tuple(range(0, max_delay + 1))}[d]
        if frag:
            world.fault("frag")
        if d:
            world.fault("delay")
        return cls(frag, size, delays)


class HalfPipe:
    def __init__(self, world: World, name: str, capacity: int = 1 << 20, delivery: Delivery | None = None):
        self.world = world
        self.name = name
        self.capacity = capacity
        self.delivery = delivery or Delivery()
        self.flight = bytearray()  # written, not yet visible
        self.rx = bytearray()  # visible to the reader
        self.fin_written = False
        self.fin_visible = False
        self.rst = False  # reader sees ECONNRESET
        self.was_reset = False  # sticky: a reset was delivered on this pipe (the reader's getpeername() -> ENOTCONN, like TCP)
        self.fin_at: int | None = None  # deliver FIN after exactly this many bytes became visible, drop the rest
        self.rst_at: int | None = None
        self.total_written = 0
        self.total_visible = 0
        self.total_read = 0
        self.pump_scheduled = False
        self.reader_closed = False
        self.on_visible: Callable[[], None] | None = None  # peer actor hook
        self.on_room: Callable[[], None] | None = None  # writer-side hook: the reader consumed bytes (room may have grown)
        self.visible_log: list[tuple[float, int]] = []  # (time, cumulative visible) for oracles
        self.stalled = False
        self.rst_answered = False  # SimNet.first_write_after_fin_ok: the one write a closed peer's stack answered with RST

    # -------------------------------------------------- writer side
    def room(self) -> int:
        return max(0, self.capacity - len(self.flight) - len(self.rx))

    def write(self, data: bytes) -> None:
        self.flight += data
        self.total_written += len(data)
        self._schedule()

    def write_fin(self) -> None:
        if not self.fin_written:
            self.fin_written = True
            self._schedule()

    def reset(self) -> None:
        """abortive close by the writer: what had not arrived yet is discarded (the writer's stack drops its send queue);
        bytes that had already arrived stay readable and are delivered BEFORE the ECONNRESET (conformance self-test
        s04c: real TCP and AF_UNIX both do this)"""
        self.flight.clear()
        self.rst = True
        self.was_reset = True
        self._notify()

    # -------------------------------------------------- delivery
    def _schedule(self) -> None:
        if self.pump_scheduled or self.stalled or self.delivery.frag == 5:
            return
        if not self.flight and not (self.fin_written and not self.fin_visible):
            return
        self.pump_scheduled = True
        dl = self.delivery
        if dl.frag == 6:
            delay = dl.cyc_delays[dl._cd % len(dl.cyc_delays)]
            dl._cd += 1
        else:
            d = dl.delays
            delay = d[self.world.choose("dly", len(d))] if len(d) > 1 else d[0]
        self.world.after(delay / 64.0, self._pump)

    def _pump(self) -> None:
        self.pump_scheduled = False
        if self.stalled:
            return
        n = len(self.flight)
        if n:
            dl = self.delivery
            if dl.frag == 0:
                k = n
            elif dl.frag == 1:
                k = 1
            elif dl.frag == 2:
                k = min(n, dl.size)
            elif dl.frag == 3:
                k = min(n, 1 + self.world.choose("frag", dl.size))
            elif dl.frag == 4:
                k = min(n, dl.script.pop(0)) if dl.script else n
            elif dl.frag == 6:
                k = min(n, dl.cyc_sizes[dl._ci % len(dl.cyc_sizes)])
                dl._ci += 1
            else:
                return
            self.deliver(k)
        elif self.fin_written and not self.fin_visible:
            self.fin_visible = True
            self.world.log("fin", self.name)
            self._notify()
        self._schedule()

    def deliver(self, k: int | None = None) -> int:
        """make k bytes in flight visible now (manual mode / used by the pump)"""
        n = len(self.flight)
        k = n if k is None else min(k, n)
        if self.fin_at is not None and self.total_visible + k >= self.fin_at:
            k = max(0, self.fin_at - self.total_visible)
            cut = True
        else:
            cut = False
        if self.rst_at is not None and self.total_visible + k >= self.rst_at:
            k = max(0, self.rst_at - self.total_visible)
            rst = True
        else:
            rst = False
        if k:
            self.rx += self.flight[:k]
            del self.flight[:k]
            self.total_visible += k
            self.visible_log.append((self.world.now, self.total_visible))
            self.world.log("vis", self.name, k)
        if cut:
            self.flight.clear()
            self.fin_written = True
            self.fin_visible = True
            self.world.fault("fin_at")
            self.world.log("fin", self.name)
        if rst:
            self.flight.clear()
            self.rst = True
            self.was_reset = True
            self.world.fault("rst_at")
            self.world.log("rst", self.name)
        self._notify()
        return k

    def deliver_fin(self) -> None:
        self.fin_written = True
        if not self.flight:
            self.fin_visible = True
            self.world.log("fin", self.name)
            self._notify()

    def stall(self, flag: bool = True) -> None:
        self.stalled = flag
        if not flag:
            self._schedule()

    def _notify(self) -> None:
        if self.on_visible is not None:
            self.on_visible()

    # -------------------------------------------------- reader side
    def readable(self) -> bool:
        return bool(self.rx) or self.fin_visible or self.rst

    def read(self, n: int) -> bytes:
        data = bytes(self.rx[:n])
        del self.rx[: len(data)]
        self.total_read += len(data)
        if data and self.on_room is not None:
            self.on_room()
        return data

    def time_visible(self, nbytes: int) -> float | None:
        """virtual time at which the first `nbytes` bytes had become visible (None if not yet)"""
        for t, cum in self.visible_log:
            if cum >= nbytes:
                return t
        return None


# ======================================================================================================== sockets
class SimSocket(socket.socket):
    """fd-less socket.  Always non-blocking semantics (EasyNetwork and asyncio set non-blocking mode)."""

    # instances get a __dict__ (no __slots__ here)

    def __new__(cls, *a: Any, **kw: Any):
        return socket.socket.__new__(cls)

    def __init__(self, net: "SimNet", family: int = socket.AF_INET, type: int = socket.SOCK_STREAM, proto: int = 0, label: str = ""):
        # deliberately NOT calling socket.socket.__init__: no OS descriptor is created
        self._io_refs = 0
        self._closed = False
        self.net = net
        self.world = net.world
        self._family = socket.AddressFamily(family)
        self._type = socket.SocketKind(type)
        self._proto = proto or (socket.IPPROTO_TCP if type == socket.SOCK_STREAM else socket.IPPROTO_UDP)
        self.sim_fd = self.world.alloc_fd(self)
        self.sim_closed = False
        self.sim_timeout: float | None = None
        self.label = label or f"s{self.sim_fd - 10000}"
        self.sockname: tuple | None = None
        self.peername: tuple | None = None
        self.connected = False
        self.listening = False
        self.accept_q: deque = deque()
        self.rx_pipe: HalfPipe | None = None  # we read from it
        self.tx_pipe: HalfPipe | None = None  # we write to it
        self.dgram_q: deque = deque()  # (data, addr)
        self.so_error = 0
        self.connect_pending = False
        self.wr_shutdown = False
        self.rd_shutdown = False
        self.opts: dict = {}
        self.calls = 0
        self.idle_calls = 0  # consecutive calls that neither transferred data nor were told to block
        self.sent_log: list[bytes] = []  # datagrams / writes as issued (for oracles)
        # datagram send-buffer model (C20): None = always writable (default); an int = number of datagrams the socket
        # still accepts; at 0 sendto raises BlockingIOError and the socket is not reported writable
        self.dgram_send_room: int | None = None
        self.fault_plan: Callable[["SimSocket", str], Any] | None = None
        self.created_site = net.current_site
        self.world.sockets.append(self)
        self.world.log("sock", self.label, int(family), int(type))

    # -------------------------------------------------- identity
    family = property(lambda self: self._family)  # type: ignore[assignment]
    type = property(lambda self: self._type)  # type: ignore[assignment]
    proto = property(lambda self: self._proto)  # type: ignore[assignment]
    timeout = property(lambda self: self.sim_timeout)  # type: ignore[assignment]

    def __repr__(self) -> str:
        return f"<SimSocket {self.label} fd={self.fileno()} {self._type.name}>"

    def __enter__(self):
        return self

    def __exit__(self, *a: Any) -> None:
        if not self.sim_closed:
            self.close()

    def __getstate__(self):
        raise TypeError("cannot pickle SimSocket")

    def fileno(self) -> int:
        return -1 if self.sim_closed else self.sim_fd

    def detach(self) -> int:
        fd = self.fileno()
        self.sim_closed = True
        self._closed = True
        return fd

    def dup(self):
        raise HarnessError("SimSocket.dup() not modelled")

    def get_inheritable(self) -> bool:
        return False

    def set_inheritable(self, flag: bool) -> None:
        pass

    def setblocking(self, flag: bool) -> None:
        self._check_open()
        self.sim_timeout = None if flag else 0.0

    def settimeout(self, t: float | None) -> None:
        self._check_open()
        self.sim_timeout = t

    def gettimeout(self) -> float | None:
        return self.sim_timeout

    def getblocking(self) -> bool:
        return self.sim_timeout != 0.0

    def getsockname(self):
        self._check_open()
        if self.sockname is None:
            return ("0.0.0.0", 0) if self._family == socket.AF_INET else ("::", 0, 0, 0)
        return self.sockname

    def getpeername(self):
        self._check_open()
        f = self._fault("getpeername")
        if f is not None:
            raise f
        if self.peername is None or (self._type == socket.SOCK_STREAM and not self.connected):
            raise _oserr(errno.ENOTCONN)
        if self.net.getpeername_enotconn_after_reset and self.rx_pipe is not None and self.rx_pipe.was_reset:
            # opt-in, faithful Linux TCP: a socket that received RST is in state CLOSE; getpeername() fails from then on
            # (also for a connection that was reset while it sat in the accept queue).  Conformance self-test s08 / s11.
            raise _oserr(errno.ENOTCONN)
        return self.peername

    def getsockopt(self, level: int, optname: int, buflen: int | None = None):
        self._check_open()
        if level == socket.SOL_SOCKET and optname == socket.SO_ERROR:
            e, self.so_error = self.so_error, 0
            return e
        if level == socket.SOL_SOCKET and optname == socket.SO_TYPE:
            return int(self._type)
        return self.opts.get((level, optname), 0)

    def setsockopt(self, level: int, optname: int, value: Any, optlen: int | None = None) -> None:
        self._check_open()
        self.opts[(level, optname)] = value

    # -------------------------------------------------- helpers
    def _check_open(self) -> None:
        if self.sim_closed:
            raise _oserr(errno.EBADF)

    def _count(self, progressed: bool) -> None:
        self.calls += 1
        if progressed:
            self.idle_calls = 0
        else:
            self.idle_calls += 1
            if self.idle_calls > self.net.livelock_limit:
                self.net.livelock(self)

    def _fault(self, op: str):
        plan = self.fault_plan or self.net.fault_plan
        if plan is None:
            return None
        return plan(self, op)

    # -------------------------------------------------- lifecycle
    def bind(self, address) -> None:
        self._check_open()
        f = self._fault("bind")
        if f is not None:
            raise f
        self.net.bind(self, address)

    def listen(self, backlog: int = 128) -> None:
        self._check_open()
        self.listening = True
        self.net.listeners[self.getsockname()[:2]] = self

    def accept(self):
        self._check_open()
        f = self._fault("accept")
        if f is not None:
            self._count(False)
            raise f
        if not self.accept_q:
            self.idle_calls = 0
            raise BlockingIOError(errno.EAGAIN, "accept would block")
        conn = self.accept_q.popleft()
        self._count(True)
        self.world.log("accept", self.label, conn.label)
        return conn, conn.peername

    def connect(self, address) -> None:
        self._check_open()
        self.net.connect(self, address)

    def connect_ex(self, address) -> int:
        try:
            self.connect(address)
        except BlockingIOError:
            return errno.EINPROGRESS
        except OSError as e:
            return e.errno or errno.EIO
        return 0

    def shutdown(self, how: int) -> None:
        self._check_open()
        if self._type == socket.SOCK_STREAM:
            if not self.connected and self.tx_pipe is None:
                raise _oserr(errno.ENOTCONN)
            if self.rx_pipe is not None and self.rx_pipe.was_reset:
                # the peer's reset has arrived: the connection is gone as far as shutdown() is concerned (Linux TCP;
                # conformance self-test s04d)
                raise _oserr(errno.ENOTCONN)
            if how in (socket.SHUT_WR, socket.SHUT_RDWR) and not self.wr_shutdown:
                self.wr_shutdown = True
                if self.tx_pipe is not None:
                    self.tx_pipe.write_fin()
            if how in (socket.SHUT_RD, socket.SHUT_RDWR):
                self.rd_shutdown = True
            self.world.log("shutdown", self.label, how)

    def close(self) -> None:
        if self.sim_closed:
            return
        self.sim_closed = True
        self._closed = True
        self.world.log("close", self.label)
        self.net.on_close(self)

    # -------------------------------------------------- stream I/O
    def _recv_common(self, n: int) -> bytes:
        self._check_open()
        if self._type != socket.SOCK_STREAM:
            return self._recv_dgram(n)[0]
        f = self._fault("recv")
        if f is not None:
            self._count(isinstance(f, (BlockingIOError, InterruptedError)) and False)
            if isinstance(f, BlockingIOError):
                self.idle_calls = 0
            raise f
        p = self.rx_pipe
        if p is None:
            raise _oserr(errno.ENOTCONN)
        if n == 0:
            # a zero-length read never blocks on Linux (TCP and AF_UNIX return b"" at once); conformance self-test s02
            self._count(False)
            return b""
        if p.rx and not self.rd_shutdown:
            # bytes that arrived before a reset are delivered first (the receive queue survives the RST)
            data = p.read(n)
            self._count(True)
            self.net.after_read(p)
            return data
        if p.rst:
            p.rst = False
            p.fin_visible = True
            self._count(True)
            raise _oserr(errno.ECONNRESET, ConnectionResetError)
        if self.rd_shutdown:
            return b""
        if p.rx:
            data = p.read(n)
            self._count(True)
            self.net.after_read(p)
            return data
        if p.fin_visible:
            self._count(True)
            return b""
        self.idle_calls = 0  # told to block: legitimate
        raise BlockingIOError(errno.EAGAIN, "recv would block")

    def recv(self, bufsize: int, flags: int = 0) -> bytes:
        if bufsize < 0:
            raise ValueError("negative buffersize in recv")
        data = self._recv_common(bufsize)
        self.world.log("recv", self.label, len(data))
        return data

    def recv_into(self, buffer, nbytes: int = 0, flags: int = 0) -> int:
        with memoryview(buffer) as mv:
            mv = mv.cast("B")
            n = mv.nbytes if not nbytes else min(nbytes, mv.nbytes)
            data = self._recv_common(n)
            mv[: len(data)] = data
        self.world.log("recv_into", self.label, len(data))
        return len(data)

    def _send_stream(self, views: list[memoryview]) -> int:
        self._check_open()
        total = sum(v.nbytes for v in views)
        f = self._fault("send")
        if f is not None:
            if isinstance(f, BlockingIOError):
                self.idle_calls = 0
            else:
                self._count(False)
            raise f
        p = self.tx_pipe
        if p is None or not self.connected:
            raise _oserr(errno.ENOTCONN)
        if self.wr_shutdown:
            raise _oserr(errno.EPIPE, BrokenPipeError)
        if self.so_error:
            e, self.so_error = self.so_error, 0
            raise _oserr(e)
        if p.reader_closed:
            rxp = self.rx_pipe
            if rxp is not None and rxp.rst:
                # TCP keeps ONE pending error for both directions: a reset that recv() has not reported yet is reported
                # (and consumed) by this send as ECONNRESET; later sends get EPIPE, later recvs b"" (conformance s04b)
                rxp.rst = False
                rxp.fin_visible = True
                self._count(True)
                raise _oserr(errno.ECONNRESET, ConnectionResetError)
            if self.net.first_write_after_fin_ok and not p.rst_answered and not (rxp is not None and rxp.was_reset):
                # opt-in, faithful TCP: the first write after the peer's clean close() is accepted (the bytes are lost, the
                # peer's stack answers RST); only later writes fail.  Default off: see the comment below.
                p.rst_answered = True
                self._count(True)
                self.world.log("send", self.label, total, "lost")
                return total
            # peer closed: first write is accepted by a real kernel and answered by RST; model directly as EPIPE/ECONNRESET
            # (documented deviation of the conformance self-test, scenario s07)
            self._count(True)
            raise _oserr(errno.ECONNRESET if self.net.closed_peer_errno == errno.ECONNRESET else errno.EPIPE, ConnectionResetError if self.net.closed_peer_errno == errno.ECONNRESET else BrokenPipeError)
        if total == 0:
            self._count(False)
            self.world.log("send", self.label, 0)
            return 0
        room = p.room()
        if room <= 0:
            self.idle_calls = 0
            self.world.log("eagain", self.label)
            raise BlockingIOError(errno.EAGAIN, "send would block")
        n = min(total, room)
        if n > 1 and self.net.short_write_den and self.world.chance("short_write", 1, self.net.short_write_den):
            n = 1 + self.world.choose("short_n", n - 1)
            self.world.fault("short_write")
        out = bytearray()
        for v in views:
            if len(out) >= n:
                break
            out += v[: n - len(out)]
        p.write(bytes(out))
        self.sent_log.append(bytes(out))
        self._count(True)
        self.world.log("send", self.label, n)
        return n

    def send(self, data, flags: int = 0) -> int:
        if self._type != socket.SOCK_STREAM:
            return self._send_dgram(data, None)
        with memoryview(data) as mv:
            return self._send_stream([mv.cast("B")])

    def sendall(self, data, flags: int = 0) -> None:
        raise HarnessError("SimSocket.sendall() is a blocking call; not modelled")

    def sendmsg(self, buffers, ancdata=(), flags: int = 0, address=None) -> int:
        views = [memoryview(b).cast("B") for b in buffers]
        if self._type != socket.SOCK_STREAM:
            return self._send_dgram(b"".join(views), address)
        return self._send_stream(views)

    # -------------------------------------------------- datagram I/O
    def _recv_dgram(self, n: int):
        f = self._fault("recvfrom")
        if f is not None:
            if isinstance(f, BlockingIOError):
                self.idle_calls = 0
            else:
                self._count(False)
            raise f
        if self.so_error:
            e, self.so_error = self.so_error, 0
            self._count(True)
            raise _oserr(e, ConnectionRefusedError if e == errno.ECONNREFUSED else OSError)
        if not self.dgram_q:
            self.idle_calls = 0
            raise BlockingIOError(errno.EAGAIN, "recvfrom would block")
        data, addr = self.dgram_q.popleft()
        self._count(True)
        self.world.log("recvfrom", self.label, len(data))
        return data[:n], addr

    def recvfrom(self, bufsize: int, flags: int = 0):
        self._check_open()
        return self._recv_dgram(bufsize)

    def recvfrom_into(self, buffer, nbytes: int = 0, flags: int = 0):
        self._check_open()
        with memoryview(buffer) as mv:
            mv = mv.cast("B")
            data, addr = self._recv_dgram(nbytes or mv.nbytes)
            mv[: len(data)] = data
        return len(data), addr

    def _send_dgram(self, data, address) -> int:
        self._check_open()
        data = bytes(data)
        f = self._fault("sendto")
        if f is not None:
            if isinstance(f, BlockingIOError):
                self.idle_calls = 0
            else:
                self._count(False)
            raise f
        if address is None:
            if self.peername is None:
                raise _oserr(errno.EDESTADDRREQ)
            address = self.peername
        if self.so_error:
            e, self.so_error = self.so_error, 0
            raise _oserr(e, ConnectionRefusedError if e == errno.ECONNREFUSED else OSError)
        if self.sockname is None:
            self.net.bind(self, None)
        if self.dgram_send_room is not None:
            if self.dgram_send_room <= 0:
                self.idle_calls = 0  # told to block: legitimate
                self.world.log("eagain", self.label)
                raise BlockingIOError(errno.EAGAIN, "sendto would block")
            self.dgram_send_room -= 1
        self.sent_log.append(data)
        self._count(True)
        self.world.log("sendto", self.label, len(data))
        self.net.route_dgram(self, address, data)
        return len(data)

    def sendto(self, data, *args) -> int:
        address = args[-1]
        return self._send_dgram(data, address)

    # -------------------------------------------------- readiness (used by SimSelector)
    def sim_events(self) -> int:
        if self.sim_closed:
            return 0
        ev = 0
        if self.listening:
            if self.accept_q:
                ev |= EVENT_READ
            return ev
        if self._type == socket.SOCK_STREAM:
            if self.connect_pending:
                return 0
            if self.so_error:
                return EVENT_READ | EVENT_WRITE
            if self.rx_pipe is not None and self.rx_pipe.readable():
                ev |= EVENT_READ
            if self.tx_pipe is not None and (self.tx_pipe.room() > 0 or self.tx_pipe.reader_closed):
                ev |= EVENT_WRITE
            if self.tx_pipe is None and self.rx_pipe is None and not self.connected:
                ev |= 0
            return ev
        # datagram
        if self.dgram_q or self.so_error:
            ev |= EVENT_READ
        if self.dgram_send_room is None or self.dgram_send_room > 0:
            ev |= EVENT_WRITE
        return ev


# ======================================================================================================== network
class SimNet:
    def __init__(self, world: World):
        self.world = world
        self.listeners: dict[tuple, SimSocket] = {}
        self.bound: dict[tuple, SimSocket] = {}  # datagram sockets by (host, port)
        self.next_port = 40000
        self.fault_plan: Callable[[SimSocket, str], Any] | None = None
        self.short_write_den = 0  # 0 = never
        self.livelock_limit = 2000
        self.closed_peer_errno = errno.EPIPE
        self.current_site = ""
        self.connect_script: Callable[[SimSocket, tuple], Any] | None = None
        self.dgram_policy: Callable[[SimSocket, tuple, bytes], list[tuple[float, bytes]]] | None = None
        self.default_capacity = 1 << 20
        self.default_delivery: Callable[[str], Delivery] | None = None
        self.socket_fault: Callable[[int, int, int], OSError | None] | None = None  # EMFILE on creation
        self.on_accept_pair: Callable[[SimSocket, SimSocket], None] | None = None
        self.dgram_connect_fault: Callable[[SimSocket, tuple], OSError | None] | None = None  # e.g. ENETUNREACH from connect() on UDP
        self.unrouted: list[tuple] = []
        self.dgram_log: list[tuple] = []  # (time, src, dst, data) actually delivered to a socket queue
        self.rst_on_close_with_unread = True
        # opt-in: real TCP accepts the FIRST write after the peer's clean close() (bytes lost), later writes get EPIPE.
        # Default False = the dead peer is reported on the first write (what the property checks were written against).
        self.first_write_after_fin_ok = False
        # opt-in: Linux getpeername() -> ENOTCONN on a TCP socket that received RST.  Default False: harness callbacks
        # (props/c15.py) identify a connection by getpeername() at any time; C17 injects this ENOTCONN through a fault plan.
        self.getpeername_enotconn_after_reset = False

    # -------------------------------------------------- creation
    def new_socket(self, family: int = socket.AF_INET, type: int = socket.SOCK_STREAM, proto: int = 0, label: str = "") -> SimSocket:
        if self.socket_fault is not None:
            e = self.socket_fault(family, type, proto)
            if e is not None:
                raise e
        return SimSocket(self, family, type, proto, label)

    def livelock(self, sock: SimSocket) -> None:
        from .world import Violation

        self.world.fail(Violation("spin", f"{sock.label}: more than {self.livelock_limit} consecutive socket calls that neither transferred a byte nor were told to block", key=None))

    def alloc_addr(self, family: int = socket.AF_INET, host: str | None = None) -> tuple:
        self.next_port += 1
        if family == socket.AF_INET6:
            return (host or "::1", self.next_port, 0, 0)
        return (host or "127.0.0.1", self.next_port)

    def bind(self, sock: SimSocket, address) -> None:
        if address is None or address[1] == 0:
            host = address[0] if address else None
            if host in ("", "0.0.0.0", "::", None):
                host = None
            address = self.alloc_addr(sock._family, host)
        key = tuple(address[:2])
        if sock._type == socket.SOCK_DGRAM:
            if key in self.bound and not self.bound[key].sim_closed and self.bound[key] is not sock:
                raise _oserr(errno.EADDRINUSE)
            self.bound[key] = sock
        else:
            if key in self.listeners and not self.listeners[key].sim_closed and self.listeners[key] is not sock:
                raise _oserr(errno.EADDRINUSE)
        if sock._family == socket.AF_INET6 and len(address) == 2:
            address = (address[0], address[1], 0, 0)
        sock.sockname = tuple(address)

    # -------------------------------------------------- stream connections
    def make_pair(self, a: SimSocket, b: SimSocket, *, capacity_ab: int | None = None, capacity_ba: int | None = None, delivery_ab: Delivery | None = None, delivery_ba: Delivery | None = None) -> None:
        """connect a and b with two half pipes (a->b, b->a)"""
        ab = HalfPipe(self.world, f"{a.label}>{b.label}", capacity_ab or self.default_capacity, delivery_ab or (self.default_delivery(f"{a.label}>{b.label}") if self.default_delivery else None))
        ba = HalfPipe(self.world, f"{b.label}>{a.label}", capacity_ba or self.default_capacity, delivery_ba or (self.default_delivery(f"{b.label}>{a.label}") if self.default_delivery else None))
        a.tx_pipe, b.rx_pipe = ab, ab
        b.tx_pipe, a.rx_pipe = ba, ba
        a.connected = b.connected = True
        if a.sockname is None:
            self.bind(a, None)
        if b.sockname is None:
            self.bind(b, None)
        a.peername, b.peername = b.sockname, a.sockname

    def socketpair(self, label_a: str = "lib", label_b: str = "peer", family: int = socket.AF_INET, **kw: Any) -> tuple[SimSocket, SimSocket]:
        a = SimSocket(self, family, socket.SOCK_STREAM, 0, label_a)
        b = SimSocket(self, family, socket.SOCK_STREAM, 0, label_b)
        self.make_pair(a, b, **kw)
        return a, b

    def connect_to_listener(self, listener: SimSocket, label: str = "cli", **kw: Any) -> SimSocket:
        """a remote peer connects to a listening SimSocket; returns the peer's end; the server end is queued for accept()"""
        if listener.sim_closed or not listener.listening:
            raise _oserr(errno.ECONNREFUSED, ConnectionRefusedError)
        fam = listener._family
        peer = SimSocket(self, fam, socket.SOCK_STREAM, 0, label)
        srv = SimSocket(self, fam, socket.SOCK_STREAM, 0, label + "@srv")
        srv.sockname = listener.sockname
        self.bind(peer, None)
        self.make_pair(srv, peer, **kw)
        listener.accept_q.append(srv)
        if self.on_accept_pair is not None:
            self.on_accept_pair(srv, peer)
        self.world.log("syn", listener.label, peer.label)
        return peer

    def connect(self, sock: SimSocket, address) -> None:
        """client-side connect() of a SimSocket owned by the library"""
        if sock._type == socket.SOCK_DGRAM:
            if self.dgram_connect_fault is not None:  # (S6, additive) synchronous connect() error of a datagram socket
                e = self.dgram_connect_fault(sock, tuple(address))
                if e is not None:
                    raise e
            if sock.sockname is None:
                self.bind(sock, None)
            sock.peername = tuple(address)
            sock.connected = True
            return
        if sock.connected:
            raise _oserr(errno.EISCONN)
        script = self.connect_script
        if script is None:
            lst = self.listeners.get(tuple(address[:2]))
            outcome: Any = ("ok", 0.0) if lst is not None and not lst.sim_closed else ("err", 0.0, errno.ECONNREFUSED)
        else:
            outcome = script(sock, tuple(address))
        kind = outcome[0]
        delay = outcome[1]
        if sock.sockname is None:
            self.bind(sock, None)
        sock.peername = tuple(address)
        sock.connect_pending = True
        self.world.log("connect", sock.label, kind)

        def complete() -> None:
            if sock.sim_closed:
                return
            sock.connect_pending = False
            if kind == "ok":
                self._establish(sock, tuple(address), outcome[2] if len(outcome) > 2 else None)
            elif kind == "err":
                sock.so_error = outcome[2]
            self.world.log("connected", sock.label, kind)

        if kind == "never":
            pass
        elif delay <= 0 and kind == "err" and len(outcome) > 3 and outcome[3] == "sync":
            sock.connect_pending = False
            raise _oserr(outcome[2])
        else:
            self.world.after(delay, complete)
        raise BlockingIOError(errno.EINPROGRESS, "Operation now in progress")

    def _establish(self, sock: SimSocket, address: tuple, on_peer: Callable[[SimSocket], None] | None) -> None:
        lst = self.listeners.get(address[:2])
        if lst is not None and not lst.sim_closed:
            srv = SimSocket(self, lst._family, socket.SOCK_STREAM, 0, sock.label + "@srv")
            srv.sockname = lst.sockname
            self.make_pair(sock, srv)
            sock.peername = address
            lst.accept_q.append(srv)
            if self.on_accept_pair is not None:
                self.on_accept_pair(srv, sock)
        else:
            peer = SimSocket(self, sock._family, socket.SOCK_STREAM, 0, sock.label + "@peer")
            peer.sockname = address
            self.make_pair(sock, peer)
            sock.peername = address
            if on_peer is not None:
                on_peer(peer)

    def after_read(self, pipe: HalfPipe) -> None:
        pass

    def on_close(self, sock: SimSocket) -> None:
        if sock.listening:
            for c in list(sock.accept_q):
                c.close()
            sock.accept_q.clear()
            return
        if sock._type == socket.SOCK_DGRAM:
            return
        rx, tx = sock.rx_pipe, sock.tx_pipe
        unread = bool(rx is not None and (rx.rx or rx.flight))
        if rx is not None:
            rx.reader_closed = True
            rx.rx.clear()
            rx.flight.clear()
        if tx is not None:
            if unread and self.rst_on_close_with_unread:
                tx.reset()
            else:
                tx.write_fin()

    # -------------------------------------------------- datagrams
    def route_dgram(self, src: SimSocket, dst: tuple, data: bytes) -> None:
        plan = self.dgram_policy(src, dst, data) if self.dgram_policy is not None else [(0.0, data)]
        for delay, payload in plan:
            self.world.after(delay, lambda payload=payload: self._deliver_dgram(src, dst, payload))

    def _deliver_dgram(self, src: SimSocket | None, dst: tuple, data: bytes, src_addr: tuple | None = None) -> None:
        tgt = self.bound.get(tuple(dst[:2]))
        if src_addr is None:
            src_addr = src.sockname if src is not None else None
        if tgt is None or tgt.sim_closed:
            self.unrouted.append((self.world.now, src_addr, dst, data))
            if src is not None and src.connected and not src.sim_closed and self.icmp_refused:
                src.so_error = errno.ECONNREFUSED
            return
        if tgt.connected and tgt.peername is not None and tuple(tgt.peername[:2]) != tuple(src_addr[:2]):
            return  # connected UDP sockets only receive from their peer
        tgt.dgram_q.append((data, src_addr))
        self.dgram_log.append((self.world.now, src_addr, tgt.sockname, data))
        self.world.log("dgram", tgt.label, len(data))

    icmp_refused = False

    def inject_dgram(self, dst_sock: SimSocket, data: bytes, src_addr: tuple) -> None:
        """a remote (non-socket) sender's datagram becomes visible at dst_sock now"""
        self._deliver_dgram(None, dst_sock.sockname, data, src_addr)


# ======================================================================================================== selector
class SimSelector(selectors._BaseSelectorImpl):  # type: ignore[name-defined,misc]
    """The single place where a blocked actor hands control to the world (DESIGN §2.3)."""

    def __init__(self, world: World, is_loop: bool = False):
        super().__init__()
        self.world = world
        self.is_loop = is_loop
        self.loop: Any = None
        self.hold_den = 0  # chance 1/den to hold a ready key back (bounded)
        self.spurious_den = 0
        self.reorder = False
        self._held: dict[int, int] = {}
        self.max_hold = 2
        self.calls = 0
        self.max_calls = 400_000
        # coincidence bias (DESIGN §2.3 item 4): called as align(remaining) every time this selector is about to really
        # block (nothing ready); `remaining` = what is left of the caller's timeout (loop: distance to its next timer;
        # None = forever).
        # The hook may re-time pending world events (see vsim.harness.AlignedFeed); it must not touch the selector.
        self.align: Callable[[float | None], None] | None = None

    def _fileobj_lookup(self, fileobj):  # accept closed SimSockets on unregister like the real one does
        try:
            return super()._fileobj_lookup(fileobj)
        except ValueError:
            raise

    def _ready_now(self) -> list[tuple[selectors.SelectorKey, int]]:
        out = []
        table = self.world.fd_table
        for fd, key in self._fd_to_key.items():
            obj = table.get(fd)
            if obj is None:
                continue  # a real fd (the loop's self-pipe): never ready; thread wake-ups use loop._sim_woken
            ev = obj.sim_events() & key.events
            if ev:
                out.append((key, ev))
        return out

    def _select_threaded(self, timeout: float | None, sched: Any):
        """select() as a simulated thread (vsim.threads): blocking hands the baton to the scheduler; virtual time only
        advances when every thread is blocked"""
        w = self.world
        if self.is_loop:
            w.counters["loop_iterations"] += 1
            for hook in list(w.iteration_hooks):
                hook()
        w.run_due()

        def woken() -> bool:
            return self.loop is not None and getattr(self.loop, "_sim_woken", False)

        ready = self._ready_now()
        if ready or woken() or (timeout is not None and timeout <= 0):
            if timeout is not None and timeout <= 0 and not ready and not woken():
                # a thread polling without waiting: let any other runnable thread run first (the OS would pre-empt a
                # spinning thread); virtual CPU time only creeps when nobody else can run
                if not sched.yield_point("select", force=True):
                    w.zero_wait()
            else:
                sched.yield_point("select")
            ready = self._ready_now()
        else:
            w.positive_wait()
            deadline = None if timeout is None else w.now + timeout
            sched.block(lambda: bool(self._ready_now()) or woken(), deadline, "select")
            ready = self._ready_now()
        if woken():
            self.loop._sim_woken = False
        if len(ready) > 1 or (ready and timeout is not None and timeout <= 0):
            ready = self._perturb(ready, may_be_empty=timeout is not None and timeout <= 0)
        return ready

    def select(self, timeout: float | None = None):
        w = self.world
        self.calls += 1
        sched = getattr(w, "sched", None)
        if sched is not None and sched.active and not sched.aborting:
            if self.calls > self.max_calls:
                w.fail(StepCap(f"selector call cap {self.max_calls} reached at t={w.now}"))
            return self._select_threaded(timeout, sched)
        if self.calls > self.max_calls:
            w.fail(StepCap(f"selector call cap {self.max_calls} reached at t={w.now}"))
        if self.is_loop:
            w.counters["loop_iterations"] += 1
            for hook in list(w.iteration_hooks):
                hook()
        w.run_due()
        ready = self._ready_now()
        woken = self.loop is not None and getattr(self.loop, "_sim_woken", False)
        if timeout is not None and timeout <= 0:
            if not ready and not woken:
                w.zero_wait()
                ready = self._ready_now()
            else:
                w.zero_wait()
        elif not ready and not woken:
            w.positive_wait()
            remaining = timeout
            while True:
                before = w.now
                if self.align is not None:
                    self.align(remaining)  # about to block for `remaining` (None = forever)
                if not w.advance(remaining):
                    w.fail(Deadlock(f"select() with no timeout, nothing ready, no pending event at t={w.now}"))
                ready = self._ready_now()
                woken = self.loop is not None and getattr(self.loop, "_sim_woken", False)
                if ready or woken:
                    break
                if remaining is not None:
                    remaining -= w.now - before
                    # `w.now + remaining == w.now`: a residue too small to move the float clock (absorption) would spin
                    # here forever without advancing virtual time
                    if remaining <= 0 or w.now + remaining == w.now:
                        break
        else:
            w.positive_wait() if timeout is None or timeout > 0 else None
        if woken:
            self.loop._sim_woken = False
        if len(ready) > 1 or (ready and timeout is not None and timeout <= 0):
            ready = self._perturb(ready, may_be_empty=timeout is not None and timeout <= 0)
        if self.spurious_den and w.chance("spurious", 1, self.spurious_den):
            cands = [k for fd, k in self._fd_to_key.items() if fd in w.fd_table and not any(k is r[0] for r in ready)]
            if cands:
                k = cands[w.choose("spurious_key", len(cands))]
                ready.append((k, k.events & (EVENT_READ | EVENT_WRITE)))
                w.fault("spurious_ready")
        return ready

    def _perturb(self, ready, may_be_empty: bool):
        w = self.world
        if self.hold_den:
            kept = []
            for key, ev in ready:
                n = self._held.get(key.fd, 0)
                if n < self.max_hold and w.chance("hold", 1, self.hold_den):
                    self._held[key.fd] = n + 1
                    w.fault("hold_ready")
                    continue
                self._held.pop(key.fd, None)
                kept.append((key, ev))
            if not kept and not may_be_empty:
                kept = [ready[0]]
            ready = kept
        if self.reorder and len(ready) > 1:
            before = [k.fd for k, _ in ready]
            w.shuffle("reorder", ready)
            if [k.fd for k, _ in ready] != before:
                w.fault("reorder_ready")
        return ready

    def close(self) -> None:
        super().close()


def selector_factory(world: World) -> Callable[[], SimSelector]:
    return lambda: SimSelector(world)


# ======================================================================================================== clock patch
class patched_clock:
    """time.perf_counter / time.monotonic read the world clock for the duration of a run (sync engine)."""

    def __init__(self, world: World):
        self.world = world

    def __enter__(self):
        import time

        self._saved = (time.perf_counter, time.monotonic)
        w = self.world
        time.perf_counter = lambda: w.now  # type: ignore[assignment]
        time.monotonic = lambda: w.now  # type: ignore[assignment]
        return self

    def __exit__(self, *a: Any) -> None:
        import time

        time.perf_counter, time.monotonic = self._saved  # type: ignore[assignment]
