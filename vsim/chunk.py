"""`chunk` engine: drive the two stream consumers directly.  The "network" is the list of cuts (DESIGN §4 C01 T1).

Outcome vocabulary (shared with models/frames.py):
    ("pkt", value)                    a packet was returned
    ("err", error_class_name)         a StreamProtocolParseError was raised (name of the inner .error class)
    ("crash", exception_class_name)   anything else escaped (never legal)
"""
from __future__ import annotations

from typing import Any, Iterable, Sequence

from easynetwork.exceptions import StreamProtocolParseError
from easynetwork.lowlevel._stream import BufferedStreamDataConsumer, StreamDataConsumer

from .world import World


# ------------------------------------------------------------------------------------------------ chunkings
def cuts_to_chunks(data: bytes, cuts: Iterable[int]) -> list[bytes]:
    pts = sorted({c for c in cuts if 0 < c < len(data)})
    out = []
    prev = 0
    for c in pts:
        out.append(data[prev:c])
        prev = c
    out.append(data[prev:])
    return [c for c in out if c]


def gen_cuts(world: World, n: int, structural: Sequence[int] = ()) -> list[int]:
    """Choose a chunking family, then the cuts.  Family 0 (replay default) = whole."""
    if n <= 1:
        return []
    fam = world.choose("chunk_family", 7)
    if fam == 0:
        return []
    world.fault("frag")
    if fam == 1:  # byte by byte
        return list(range(1, n))
    if fam == 2:  # single cut anywhere
        return [1 + world.choose("cut", n - 1)]
    if fam == 3:  # two cuts
        return [1 + world.choose("cut", n - 1), 1 + world.choose("cut", n - 1)]
    if fam == 4:  # fixed size
        size = 1 + world.choose("chunk_size", min(n, 64))
        return list(range(size, n, size))
    if fam == 5:  # k random cuts
        k = 1 + world.choose("ncuts", min(12, n - 1))
        return [1 + world.choose("cut", n - 1) for _ in range(k)]
    # fam == 6: structural cuts (a random subset of positions the harness considers interesting, +-1)
    st = [c for c in structural if 0 < c < n]
    if not st:
        return [1 + world.choose("cut", n - 1)]
    k = 1 + world.choose("ncuts", min(8, len(st)))
    out = []
    for _ in range(k):
        c = st[world.choose("scut", len(st))] + world.choose("scut_delta", 3) - 1
        out.append(c)
    return out


# ------------------------------------------------------------------------------------------------ drivers
def _classify(exc: BaseException) -> tuple:
    if isinstance(exc, StreamProtocolParseError):
        return ("err", type(exc.error).__name__)
    inner = exc.__cause__
    return ("crash", type(exc).__name__, type(inner).__name__ if inner is not None else None, str(exc)[:200])


class CopyDriver:
    """StreamDataConsumer fed the way the endpoints feed it: next(chunk), then next(None) until StopIteration."""

    path = "copy"

    def __init__(self, protocol: Any, world: World | None = None):
        self.consumer = StreamDataConsumer(protocol)
        self.out: list[tuple] = []
        self.fed = 0
        self.on_outcome = None
        self.world = world

    def _emit(self, o: tuple) -> None:
        self.out.append(o)
        if self.world is not None:
            self.world.log(o[0], o[1] if o[0] != "pkt" else "")
        if self.on_outcome is not None:
            self.on_outcome(o, self)

    def drain(self, chunk: bytes | None) -> None:
        feed = chunk
        while True:
            try:
                pkt = self.consumer.next(feed)
            except StopIteration:
                return
            except BaseException as exc:  # noqa: BLE001
                o = _classify(exc)
                self._emit(o)
                if o[0] == "crash":
                    return
            else:
                self._emit(("pkt", pkt))
            feed = None

    def feed(self, chunk: bytes) -> None:
        self.fed += len(chunk)
        if self.world is not None:
            self.world.log("feed", len(chunk))
        self.drain(chunk)

    def pending(self) -> int:
        return self.consumer.get_buffer().nbytes

    def held_bytes(self) -> bytes:
        return bytes(self.consumer.get_buffer())


class FillDriver:
    """BufferedStreamDataConsumer: get_write_buffer(), write up to len(view) bytes (fill size chosen), next(n)."""

    path = "fill"

    def __init__(self, protocol: Any, size_hint: int, world: World | None = None, fill_mode: int = 0):
        self.consumer = BufferedStreamDataConsumer(protocol, size_hint)
        self.out: list[tuple] = []
        self.world = world
        self.fill_mode = fill_mode  # 0: as much as fits; 1: chosen per read
        self.fed = 0
        self.max_buffer_size = 0
        self.on_outcome = None

    def _emit(self, o: tuple) -> None:
        self.out.append(o)
        if self.world is not None:
            self.world.log(o[0], o[1] if o[0] != "pkt" else "")
        if self.on_outcome is not None:
            self.on_outcome(o, self)

    def _drain(self, n: int | None) -> bool:
        feed = n
        while True:
            try:
                pkt = self.consumer.next(feed)
            except StopIteration:
                return True
            except BaseException as exc:  # noqa: BLE001
                o = _classify(exc)
                self._emit(o)
                if o[0] == "crash":
                    return False
            else:
                self._emit(("pkt", pkt))
            feed = None

    def feed(self, chunk: bytes) -> None:
        """A network read of `chunk` becomes one or more recv_into() calls, each bounded by the exposed view."""
        pos = 0
        while pos < len(chunk):
            try:
                view = self.consumer.get_write_buffer()
            except BaseException as exc:  # noqa: BLE001
                self._emit(_classify(exc))
                return
            with memoryview(view) as mv:
                room = mv.nbytes
                self.max_buffer_size = max(self.max_buffer_size, self.consumer.buffer_size)
                n = min(room, len(chunk) - pos)
                if self.fill_mode and self.world is not None and n > 1:
                    n = n - self.world.choose("fill_short", n)  # 0 => full
                mv[:n] = chunk[pos : pos + n]
            pos += n
            self.fed += n
            if self.world is not None:
                self.world.log("fill", n)
            if not self._drain(n):
                return

    def drain(self, _=None) -> None:
        self._drain(None)

    def held_bytes(self) -> bytes:
        """Bytes carried over to the next read.  get_value() is only meaningful once a consumer generator is
        active (buffer_start is stale right after a packet was returned), so start one first."""
        try:
            self.consumer.get_write_buffer()
        except BaseException:  # noqa: BLE001
            pass
        return self.consumer.get_value() or b""

    def pending(self) -> int:
        return len(self.held_bytes())


def run_stream(driver, chunks: Iterable[bytes]) -> list[tuple]:
    for c in chunks:
        driver.feed(c)
        if driver.out and driver.out[-1][0] == "crash":
            break
    return driver.out
