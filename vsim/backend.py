"""SimAsyncIOBackend: the repo's real AsyncIOBackend with socket creation and name resolution redirected to SimNet.

Only two seams are touched (DESIGN §1):
  * the module global ``_socket`` of ``_common/dns_resolver.py`` and ``lowlevel/_utils.py`` is replaced, for the
    duration of a run, by a proxy whose ``socket`` attribute builds SimSockets and whose ``getaddrinfo`` answers
    numeric hosts itself (no executor);
  * ``AsyncIOBackend.getaddrinfo`` is overridden to answer scripted host names from a table.
Everything else (tasks, scopes, listeners, adapters, flow control…) is the real code.
"""
from __future__ import annotations

import contextlib
import ipaddress
import socket as _real_socket
from typing import Any, Sequence

from easynetwork.lowlevel import _utils as _en_utils
from easynetwork.lowlevel.api_async.backend._asyncio.backend import AsyncIOBackend
from easynetwork.lowlevel.api_async.backend._common import dns_resolver as _en_dns

from .sock import SimNet, SimSocket
from .world import HarnessError


def _numeric_addrinfo(host, port, family, type, proto, flags):
    if host is None:
        hosts = []
        if family in (0, _real_socket.AF_INET6):
            hosts.append((_real_socket.AF_INET6, "::" if flags & _real_socket.AI_PASSIVE else "::1"))
        if family in (0, _real_socket.AF_INET):
            hosts.append((_real_socket.AF_INET, "0.0.0.0" if flags & _real_socket.AI_PASSIVE else "127.0.0.1"))
    else:
        if isinstance(host, bytes):
            host = host.decode()
        try:
            ip = ipaddress.ip_address(host.split("%", 1)[0])
        except ValueError:
            raise _real_socket.gaierror(_real_socket.EAI_NONAME, "Name or service not known") from None
        fam = _real_socket.AF_INET6 if ip.version == 6 else _real_socket.AF_INET
        if family not in (0, fam):
            raise _real_socket.gaierror(_real_socket.EAI_ADDRFAMILY, "Address family for hostname not supported")
        hosts = [(fam, host)]
    port = int(port or 0)
    types = [type] if type else [_real_socket.SOCK_STREAM, _real_socket.SOCK_DGRAM]
    out = []
    for fam, h in hosts:
        for t in types:
            p = proto or (_real_socket.IPPROTO_TCP if t == _real_socket.SOCK_STREAM else _real_socket.IPPROTO_UDP)
            sa = (h, port, 0, 0) if fam == _real_socket.AF_INET6 else (h, port)
            out.append((_real_socket.AddressFamily(fam), _real_socket.SocketKind(t), p, "", sa))
    return out


class _SocketModuleProxy:
    """stands in for the ``socket`` module inside two repo modules"""

    def __init__(self, net: SimNet):
        self._net = net

        class _BoundSimSocket(SimSocket):
            def __init__(s, family: int = _real_socket.AF_INET, type: int = _real_socket.SOCK_STREAM, proto: int = 0, fileno: Any = None):
                if net.socket_fault is not None:
                    e = net.socket_fault(family, type, proto)
                    if e is not None:
                        raise e
                SimSocket.__init__(s, net, family, type, proto)

        _BoundSimSocket.__name__ = "socket"
        self.socket = _BoundSimSocket

    def getaddrinfo(self, host, port, family=0, type=0, proto=0, flags=0):
        return _numeric_addrinfo(host, port, family, type, proto, flags)

    def __getattr__(self, name: str) -> Any:
        return getattr(_real_socket, name)


@contextlib.contextmanager
def sim_sockets(net: SimNet):
    """patch the two socket-creating modules of the repo for the duration of a run"""
    proxy = _SocketModuleProxy(net)
    saved = (_en_dns._socket, _en_utils._socket)
    _en_dns._socket = proxy  # type: ignore[assignment]
    _en_utils._socket = proxy  # type: ignore[assignment]
    try:
        yield proxy
    finally:
        _en_dns._socket, _en_utils._socket = saved


class SimAsyncIOBackend(AsyncIOBackend):
    """real backend; scripted name resolution.  Use inside ``with sim_sockets(net):``"""

    def __init__(self, net: SimNet, hosts: dict[str, list[tuple[int, str]]] | None = None):
        super().__init__()
        self.sim_net = net
        self.sim_hosts = hosts or {}  # name -> [(family, ip), ...]
        self.getaddrinfo_delay = 0.0

    def __repr__(self) -> str:
        return "<SimAsyncIOBackend>"

    async def getaddrinfo(self, host, port, family: int = 0, type: int = 0, proto: int = 0, flags: int = 0):
        if isinstance(host, bytes):
            host = host.decode()
        if host in self.sim_hosts:
            if self.getaddrinfo_delay:
                await self.sleep(self.getaddrinfo_delay)
            out = []
            for fam, ip in self.sim_hosts[host]:
                if family not in (0, fam):
                    continue
                out.extend(_numeric_addrinfo(ip, port, fam, type, proto, flags))
            if not out:
                raise _real_socket.gaierror(_real_socket.EAI_NONAME, "Name or service not known")
            return out
        try:
            return _numeric_addrinfo(host, port, family, type, proto, flags)
        except _real_socket.gaierror:
            raise

    async def getnameinfo(self, sockaddr, flags: int = 0):
        return (str(sockaddr[0]), str(sockaddr[1]))

    async def run_in_thread(self, func, /, *args, abandon_on_cancel: bool = False):
        raise HarnessError("run_in_thread() is outside the simulator (DESIGN §1)")
