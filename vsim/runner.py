"""Batch runner: seeded search, replay, minimisation, known findings, evidence, exit codes (DESIGN §3)."""
from __future__ import annotations

import argparse
import concurrent.futures
import dataclasses
import faulthandler
import fnmatch
import gc
import hashlib
import importlib
import json
import logging
import multiprocessing
import os
import signal
import subprocess
import sys
import time as _real_time
import traceback
import warnings
from collections import Counter
from typing import Any, Callable, Sequence

from .world import Choices, Deadlock, HarnessError, StepCap, Violation, World, stable_hash

VERIF = os.path.dirname(os.path.dirname(os.path.abspath(__file__)))
_perf = _real_time.perf_counter  # captured before any patching


@dataclasses.dataclass
class Harness:
    name: str
    fn: Callable[[World], None]
    weight: int = 1
    tiers: tuple[str, ...] = ("quick", "thorough")
    wall_limit: float = 120.0  # per-run real-time watchdog, a backstop only (harness error when exceeded); generous because the machine may be heavily loaded


SHRINK_WALL_LIMIT = 10.0  # seconds of real time a minimisation candidate may take


class RunTimeout(HarnessError):
    pass


def _alarm(signum, frame):  # pragma: no cover
    raise RunTimeout("per-run wall watchdog expired")


@dataclasses.dataclass
class RunResult:
    harness: str
    seed: int
    avoid_known: bool
    choices: list[int]
    violation: dict | None
    error: str | None
    digest: str
    order_digest: str
    stats: dict
    probes: dict
    counters: dict
    notes: dict


def run_one(h: Harness, seed: int, choices: Sequence[int] | None = None, avoid_known: bool = True, want_digest: bool = True, wall_limit: float | None = None) -> RunResult:
    world = World(seed, choices)
    world.avoid_known = avoid_known  # type: ignore[attr-defined]
    world.notes = {}  # type: ignore[attr-defined]
    violation = None
    error = None
    gc_was = gc.isenabled()
    gc.disable()
    old = signal.signal(signal.SIGALRM, _alarm)
    signal.setitimer(signal.ITIMER_REAL, wall_limit if wall_limit is not None else h.wall_limit)
    try:
        try:
            h.fn(world)
            if world.fatal is not None:
                raise world.fatal
        except Violation as v:
            if isinstance(world.fatal, Violation):
                v = world.fatal
            violation = {"clause": v.clause, "message": v.message, "key": v.key or f"{h.name}/{v.clause}"}
        except RunTimeout as e:
            error = "RunTimeout: " + "".join(traceback.format_exc(limit=25))
        except (HarnessError, Deadlock) as e:
            error = f"{type(e).__name__}: {e}\n" + "".join(traceback.format_exc(limit=25))
        except BaseException as e:  # harness bug or unexpected escape
            if isinstance(e, (KeyboardInterrupt, SystemExit)):
                raise
            error = f"{type(e).__name__}: {e}\n" + "".join(traceback.format_exc(limit=25))
    finally:
        signal.setitimer(signal.ITIMER_REAL, 0)
        signal.signal(signal.SIGALRM, old)
    # Freeze the trace before the collector may run finalizers of leaked transports/sockets: their close() would
    # otherwise append records at a GC-dependent moment (a determinism breaker seen with mutated libraries).
    digest = world.digest() if want_digest else ""
    order_digest = world.order_digest() if want_digest else ""
    world.trace = list(world.trace)
    world.log = lambda *a, **k: None  # type: ignore[method-assign]
    if gc_was:
        gc.enable()
    return RunResult(
        harness=h.name,
        seed=seed,
        avoid_known=avoid_known,
        choices=list(world.ch.log),
        violation=violation,
        error=error,
        digest=digest,
        order_digest=order_digest,
        stats=dict(world.stats),
        probes=dict(world.probes),
        counters=dict(world.counters),
        notes=dict(world.notes),  # type: ignore[attr-defined]
    )


# --------------------------------------------------------------------------------------------- property modules
def load_property(pid: str):
    mod = importlib.import_module(f"props.{pid.lower()}")
    assert mod.PROPERTY == pid
    return mod


def harness_schedule(mod, tier: str) -> list[Harness]:
    sched: list[Harness] = []
    for h in mod.HARNESSES:
        if tier in h.tiers:
            sched.extend([h] * h.weight)
    # interleave deterministically so that every prefix of run indices covers all harnesses
    sched.sort(key=lambda h: stable_hash("sched", h.name))
    out: list[Harness] = []
    buckets: dict[str, list[Harness]] = {}
    for h in sched:
        buckets.setdefault(h.name, []).append(h)
    while any(buckets.values()):
        for name in list(buckets):
            if buckets[name]:
                out.append(buckets[name].pop())
    return out


def harness_by_name(mod, name: str) -> Harness:
    for h in mod.HARNESSES:
        if h.name == name:
            return h
    raise KeyError(name)


# --------------------------------------------------------------------------------------------- known findings
def load_known() -> list[dict]:
    path = os.path.join(VERIF, "known_findings.json")
    if not os.path.exists(path):
        return []
    with open(path) as f:
        return json.load(f)["findings"]


def match_known(known: list[dict], pid: str, key: str) -> dict | None:
    for k in known:
        if k["property"] == pid and k.get("status") == "open" and fnmatch.fnmatchcase(key, k["key"]):
            return k
    return None


# --------------------------------------------------------------------------------------------- minimisation
def _strip(ch: list[int]) -> list[int]:
    n = len(ch)
    while n and ch[n - 1] == 0:
        n -= 1
    return ch[:n]


def shrink(h: Harness, seed: int, choices: list[int], avoid_known: bool, key: str, budget: int, deadline: float) -> tuple[list[int], int]:
    """Delta-debug the choice list while the same violation key keeps failing."""
    runs = 0
    best = _strip(list(choices))

    def fails(cand: list[int]) -> list[int] | None:
        nonlocal runs
        if runs >= budget or _perf() > deadline:
            return None
        runs += 1
        # a candidate is a mutilated choice list: it may send the code under test (a mutated tree, typically) into a run that only
        # the watchdog ends; such a candidate is simply not "the same failure", and must not cost the full per-run watchdog each time
        r = run_one(h, seed, cand, avoid_known, want_digest=False, wall_limit=min(h.wall_limit, SHRINK_WALL_LIMIT))
        if r.violation is not None and r.violation["key"] == key:
            return _strip(r.choices)
        return None

    improved = True
    while improved and runs < budget and _perf() < deadline:
        improved = False
        # 1. truncate tail (binary)
        n = len(best)
        cut = n // 2
        while cut >= 1:
            cand = best[: len(best) - cut]
            got = fails(cand)
            if got is not None and len(got) < len(best):
                best = got
                improved = True
            else:
                cut //= 2
        # 2. delete spans
        for size in (16, 8, 4, 2, 1):
            i = 0
            while i + size <= len(best):
                cand = best[:i] + best[i + size :]
                got = fails(cand)
                if got is not None and (len(got) < len(best) or sum(got) < sum(best)):
                    best = got
                    improved = True
                else:
                    i += size
                if runs >= budget:
                    break
        # 3. zero / lower values
        i = 0
        while i < len(best):
            v = best[i]
            if v:
                for nv in (0, v // 2, v - 1):
                    if nv >= v or nv < 0:
                        continue
                    cand = best[:i] + [nv] + best[i + 1 :]
                    got = fails(cand)
                    if got is not None and (len(got), sum(got)) < (len(best), sum(best)):
                        best = got
                        improved = True
                        break
            i += 1
            if runs >= budget:
                break
    return best, runs


# --------------------------------------------------------------------------------------------- worker
def _quiet_process() -> None:
    warnings.simplefilter("ignore")
    logging.disable(logging.CRITICAL)
    faulthandler.enable()


def _worker(pid: str, tier: str, base_seed: int, w: int, jobs: int, budget_s: float, max_runs: int | None) -> dict:
    _quiet_process()
    faulthandler.dump_traceback_later(budget_s * 3 + 120, exit=True)
    mod = load_property(pid)
    sched = harness_schedule(mod, tier)
    known = load_known()
    t0 = _perf()
    deadline = t0 + budget_s
    out: dict[str, Any] = {
        "runs": 0,
        "baseline_runs": 0,
        "per_harness": Counter(),
        "stats": Counter(),
        "probes": Counter(),
        "counters": Counter(),
        "orders": set(),
        "violations": [],
        "known_hits": Counter(),
        "errors": [],
        "samples": [],
        "shrink_runs": 0,
    }
    i = w
    unknown = 0
    while True:
        if max_runs is not None and i >= max_runs:
            break
        if _perf() >= deadline and out["runs"] > 0:
            break
        h = sched[i % len(sched)]
        seed = stable_hash(base_seed, pid, i)
        avoid = stable_hash(base_seed, pid, i, "avoid") % 5 != 0  # hashed: independent of the harness round-robin
        r = run_one(h, seed, None, avoid)
        out["runs"] += 1
        out["per_harness"][h.name] += 1
        out["stats"].update(r.stats)
        out["probes"].update(r.probes)
        out["counters"].update(r.counters)
        fired = sum(r.stats.values())
        if fired == 0:
            out["baseline_runs"] += 1
        if fired > 0 and r.counters.get("progress", 0) > 0:
            out["orders"].add(r.order_digest)
        if len(out["samples"]) < 2 and r.violation is None and r.error is None and fired > 0:
            out["samples"].append({"harness": h.name, "seed": seed, "choices": r.choices[:120], "n_choices": len(r.choices), "faults_fired": r.stats, "notes": r.notes})
        if r.error is not None:
            out["errors"].append({"harness": h.name, "seed": seed, "index": i, "error": r.error, "choices": r.choices[:400]})
            if len(out["errors"]) >= 3:
                break
        elif r.violation is not None:
            k = match_known(known, pid, r.violation["key"])
            if k is not None:
                out["known_hits"][k["key"]] += 1
            else:
                # reproduce, then minimise
                r2 = run_one(h, seed, r.choices, avoid)
                if r2.violation is None or r2.violation["key"] != r.violation["key"] or r2.digest != r.digest:
                    out["errors"].append({"harness": h.name, "seed": seed, "index": i, "error": f"NONDETERMINISM: violation {r.violation} digest {r.digest} did not reproduce: {r2.violation} digest {r2.digest} err={r2.error}", "choices": r.choices[:400]})
                    break
                sbudget = 400 if tier == "quick" else 3000
                best, nruns = shrink(h, seed, r.choices, avoid, r.violation["key"], sbudget, _perf() + (30 if tier == "quick" else 180))
                out["shrink_runs"] += nruns
                r3 = run_one(h, seed, best, avoid)
                if r3.violation is None or r3.violation["key"] != r.violation["key"]:
                    best, r3 = r.choices, r2
                out["violations"].append(
                    {
                        "property": pid,
                        "harness": h.name,
                        "seed": seed,
                        "index": i,
                        "avoid_known": avoid,
                        "choices": best,
                        "clause": r3.violation["clause"],
                        "key": r3.violation["key"],
                        "message": r3.violation["message"],
                        "trace_digest": r3.digest,
                        "notes": r3.notes,
                        "minimised_from": {"choices": len(r.choices), "shrink_runs": nruns},
                    }
                )
                unknown += 1
                if unknown >= 2:
                    break
        if out["runs"] % 64 == 0:
            gc.collect()
        i += jobs
    out["wall"] = _perf() - t0
    out["orders"] = list(out["orders"])
    faulthandler.cancel_dump_traceback_later()
    return out


# --------------------------------------------------------------------------------------------- evidence
def write_evidence(mod, pid: str, tier: str, seed: int, merged: dict, wall: float, nviol: int) -> None:
    os.makedirs(os.path.join(VERIF, "evidence"), exist_ok=True)
    runs = merged["runs"]
    ev = {
        "property_id": pid,
        "tier": tier,
        "seed": seed,
        "level": mod.LEVEL,
        "coverage": {
            "evaluations": runs,
            "distinct_nontrivial": len(merged["orders"]),
            "rule": mod.RULE
            + " | distinct_nontrivial = number of distinct order-digests (sha256 over the sequence of (event kind, actor) of the run's trace) among runs in which at least one fault kind fired and the workload made progress (>=1 op/packet completed); counted by the runner.",
            "samples": merged["samples"][:3],
            "runs_per_hour": int(runs / max(wall, 1e-9) * 3600),
            "runs_per_harness": dict(merged["per_harness"]),
            "baseline_runs_no_fault_fired": merged["baseline_runs"],
            "simulated_seconds": merged["counters"].get("sim_ms", 0) / 1000.0,
            "faults_fired": dict(sorted(merged["stats"].items())),
            "probes": dict(sorted(merged["probes"].items())),
            "counters": {k: v for k, v in sorted(merged["counters"].items())},
            "known_findings_hit": dict(merged["known_hits"]),
            "minimisation_runs": merged["shrink_runs"],
            "components_real": getattr(mod, "COMPONENTS_REAL", []),
            "components_stub": getattr(mod, "COMPONENTS_STUB", []),
            "jobs": merged["jobs"],
            "exhaustive": False,
        },
        "assumptions": getattr(mod, "ASSUMPTIONS", []),
        "wall_s": round(wall, 3),
        "violations": nviol,
    }
    extra = getattr(mod, "evidence_extra", None)
    if extra is not None:
        ev["coverage"].update(extra(merged))
    path = os.path.join(VERIF, "evidence", f"{pid}.json")
    with open(path, "w") as f:
        json.dump(ev, f, indent=1, sort_keys=True, default=str)
    try:
        import jsonschema  # type: ignore

        with open("/root/.vp/EVIDENCE.schema.json") as f:
            schema = json.load(f)
        jsonschema.validate(ev, schema)
    except ImportError:
        pass
    except FileNotFoundError:
        pass


# --------------------------------------------------------------------------------------------- replay
def replay_file(path: str) -> int:
    _quiet_process()
    with open(path) as f:
        rep = json.load(f)
    mod = load_property(rep["property"])
    h = harness_by_name(mod, rep["harness"])
    r = run_one(h, rep["seed"], rep["choices"], rep.get("avoid_known", True))
    if r.error is not None:
        print(f"HARNESS-ERROR replay {path}: {r.error}")
        return 2
    if r.violation is None:
        print(f"REPLAY-CLEAN property={rep['property']} replay={path} (no violation on this tree) digest={r.digest}")
        return 0
    same = r.violation["key"] == rep.get("key") and r.digest == rep.get("trace_digest")
    print(f"VIOLATION property={rep['property']} replay={path}")
    print(f"  clause={r.violation['clause']} key={r.violation['key']}")
    print(f"  message={r.violation['message']}")
    print(f"  digest={r.digest} same_as_recorded={same}")
    return 1


# --------------------------------------------------------------------------------------------- main
def main(argv: list[str] | None = None) -> int:
    ap = argparse.ArgumentParser(prog="check")
    ap.add_argument("property")
    ap.add_argument("--tier", default=os.environ.get("VERIF_TIER", "quick"), choices=["quick", "thorough"])
    ap.add_argument("--replay")
    ap.add_argument("--seed", type=int, default=int(os.environ.get("VERIF_SEED", "0") or 0))
    ap.add_argument("--jobs", type=int, default=int(os.environ.get("VERIF_JOBS", "0") or 0))
    ap.add_argument("--budget", type=float, default=float(os.environ.get("VERIF_BUDGET_S", "0") or 0))
    ap.add_argument("--runs", type=int, default=None, help="fixed number of runs instead of a time budget")
    ap.add_argument("--harness", default=None, help="restrict to one harness (debugging)")
    ap.add_argument("--no-evidence", action="store_true")
    args = ap.parse_args(argv)

    if args.property == "selftest":
        from selftest import main as st_main  # type: ignore

        return st_main(args)

    pid = args.property.upper()
    if args.replay:
        return replay_file(args.replay)

    mod = load_property(pid)
    if args.harness:
        mod.HARNESSES = [h for h in mod.HARNESSES if h.name == args.harness]
        for h in mod.HARNESSES:
            h.tiers = ("quick", "thorough")
    jobs = args.jobs or min(16, os.cpu_count() or 1)
    default_budget = getattr(mod, "BUDGET", {}).get(args.tier, 40.0 if args.tier == "quick" else 480.0)
    budget = args.budget or default_budget
    print(f"VERIF_SEED={args.seed} property={pid} tier={args.tier} jobs={jobs} budget_s={budget}", flush=True)
    t0 = _perf()
    ctx = multiprocessing.get_context("fork")
    results: list[dict] = []
    harness_error = None
    ex = concurrent.futures.ProcessPoolExecutor(max_workers=jobs, mp_context=ctx)
    try:
        futs = [ex.submit(_worker, pid, args.tier, args.seed, w, jobs, budget, args.runs) for w in range(jobs)]
        for w, fut in enumerate(futs):
            try:
                results.append(fut.result(timeout=budget * 3 + 240))
            except BaseException as e:  # dead worker, timeout
                harness_error = f"worker {w} failed: {type(e).__name__}: {e}"
                break
    finally:
        # Do not wait for the worker processes: with a mutated tree, simulated threads of an aborted run may be stuck for good
        # (non-daemon threads keep their process alive at interpreter shutdown), and every result has been received already.
        procs = list(getattr(ex, "_processes", {}).values())
        ex.shutdown(wait=False, cancel_futures=True)
        for proc in procs:
            try:
                proc.kill()
            except Exception:
                pass
    wall = _perf() - t0
    if harness_error:
        print(f"HARNESS-ERROR property={pid} {harness_error}")
        return 2
    merged: dict[str, Any] = {
        "runs": 0,
        "baseline_runs": 0,
        "per_harness": Counter(),
        "stats": Counter(),
        "probes": Counter(),
        "counters": Counter(),
        "orders": set(),
        "violations": [],
        "known_hits": Counter(),
        "errors": [],
        "samples": [],
        "shrink_runs": 0,
        "jobs": jobs,
    }
    for r in results:
        merged["runs"] += r["runs"]
        merged["baseline_runs"] += r["baseline_runs"]
        merged["shrink_runs"] += r["shrink_runs"]
        for k in ("per_harness", "stats", "probes", "counters", "known_hits"):
            merged[k].update(r[k])
        merged["orders"].update(r["orders"])
        merged["violations"].extend(r["violations"])
        merged["errors"].extend(r["errors"])
        merged["samples"].extend(r["samples"])

    rc = 0
    known = load_known()
    for key, n in sorted(merged["known_hits"].items()):
        k = next(x for x in known if x["key"] == key and x["property"] == pid)
        print(f"KNOWN-FINDING: property={pid} {k['what']} [key={key}, hit {n}x in this run]")
    # violations -> replay files, verified in a fresh interpreter
    seen_keys = set()
    os.makedirs(os.path.join(VERIF, "replays"), exist_ok=True)
    nviol = 0
    for v in merged["violations"]:
        if v["key"] in seen_keys:
            continue
        seen_keys.add(v["key"])
        nviol += 1
        d12 = hashlib.sha256(json.dumps([v["key"], v["choices"]]).encode()).hexdigest()[:12]
        path = os.path.join(VERIF, "replays", f"{pid}-{d12}.json")
        with open(path, "w") as f:
            json.dump(v, f, indent=1)
        cp = subprocess.run([os.path.join(VERIF, "check"), pid, "--replay", path], capture_output=True, text=True, timeout=600)
        if cp.returncode != 1 or "same_as_recorded=True" not in cp.stdout:
            print(f"HARNESS-ERROR property={pid} replay in fresh interpreter did not reproduce {path}:\n{cp.stdout}\n{cp.stderr}")
            rc = 2
            continue
        print(f"VIOLATION property={pid} replay={path}")
        print(f"  harness={v['harness']} clause={v['clause']} key={v['key']}")
        print(f"  message={v['message']}")
        print(f"  choices={len(v['choices'])} (from {v['minimised_from']['choices']})")
        if rc == 0:
            rc = 1
    if merged["errors"]:
        for e in merged["errors"][:5]:
            print(f"HARNESS-ERROR property={pid} harness={e['harness']} seed={e['seed']} index={e['index']}\n{e['error']}")
        rc = 2
    if not args.no_evidence and merged["runs"] > 0:
        try:
            write_evidence(mod, pid, args.tier, args.seed, merged, wall, nviol)
        except Exception as e:
            print(f"HARNESS-ERROR property={pid} evidence: {type(e).__name__}: {e}")
            rc = 2
    print(
        f"property={pid} tier={args.tier} runs={merged['runs']} distinct_nontrivial={len(merged['orders'])} "
        f"faults={sum(merged['stats'].values())} wall={wall:.1f}s rc={rc}",
        flush=True,
    )
    return rc


if __name__ == "__main__":  # pragma: no cover
    sys.exit(main())
