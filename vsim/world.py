"""World: the single owner of choices, virtual time, events, statistics and the trace of one simulated run.

One run is a pure function of (code under test, harness, choice list).  Nothing here reads a real clock or an
unseeded PRNG; logging never draws.
"""
from __future__ import annotations

import hashlib
import heapq
import random
from collections import Counter
from typing import Any, Callable, Iterable, Sequence


class Violation(BaseException):
    """A property violation found by an oracle.

    BaseException so that ``except Exception`` in the code under test does not swallow it; places that catch
    BaseException (asyncio transports) are covered by ``World.fatal``.

    clause: short name of the oracle clause that failed (stable; used for minimisation "same failure").
    key:    structural key ``harness/clause/site`` matched against known_findings.json.
    """

    def __init__(self, clause: str, message: str, key: str | None = None, details: Any = None):
        super().__init__(clause, message)
        self.clause = clause
        self.message = message
        self.key = key
        self.details = details


class HarnessError(BaseException):
    """The simulator or harness itself is wrong (never reported as a violation, never exit 0)."""


class StepCap(HarnessError):
    """A cap on steps was reached in a place where that is not a property violation."""


class Deadlock(BaseException):
    """No runnable actor and no pending event while somebody is still waiting.  Harness decides what it means."""


class Choices:
    """Choice source.  search mode: seeded PRNG, records; replay mode: replays a list, 0 when exhausted."""

    __slots__ = ("rng", "replaying", "given", "pos", "log", "seed")

    def __init__(self, seed: int, given: Sequence[int] | None = None):
        self.seed = seed
        self.rng = random.Random(seed)
        self.replaying = given is not None
        self.given = list(given) if given is not None else []
        self.pos = 0
        self.log: list[int] = []

    def choose(self, n: int) -> int:
        if n <= 1:
            return 0
        if self.replaying:
            if self.pos < len(self.given):
                v = self.given[self.pos]
                if v >= n or v < 0:
                    v = v % n
            else:
                v = 0
            self.pos += 1
        else:
            v = self.rng.randrange(n)
        self.log.append(v)
        return v


class World:
    FREE_ZERO_WAITS = 64
    CREEP = 1.0 / 1024

    def __init__(self, seed: int = 0, choices: Sequence[int] | None = None, *, source: Choices | None = None, parent: "World | None" = None):
        if parent is not None:
            self.ch = parent.ch
            self.stats = parent.stats
            self.probes = parent.probes
            self.trace = parent.trace
            self.counters = parent.counters
        else:
            self.ch = source if source is not None else Choices(seed, choices)
            self.stats: Counter[str] = Counter()  # fault kind -> times fired
            self.probes: Counter[str] = Counter()  # rare-branch probes
            self.trace: list[tuple] = []
            self.counters: Counter[str] = Counter()  # progress, loop_iterations, switches, sim_seconds…
        self.seed = self.ch.seed
        self.now: float = 0.0
        self.seq: int = 0
        self._events: list[tuple[float, int, Callable[[], None]]] = []
        self.fatal: BaseException | None = None
        self.next_fd = 10000
        self.sockets: list[Any] = []  # registry of every SimSocket ever created in this world
        self.fd_table: dict[int, Any] = {}
        self.iteration_hooks: list[Callable[[], None]] = []
        self.zero_waits = 0
        self.creep_iterations = 0
        self.max_events = 2_000_000
        self.n_events = 0
        self.max_time = 1.0e6
        self.keepalive: list[Any] = []
        self.quiet = False  # all-zero choices (used by sweeps over a pre-drawn scenario)

    # ------------------------------------------------------------------ choices
    def choose(self, tag: str, n: int) -> int:
        if self.quiet:
            return 0
        return self.ch.choose(n)

    def chance(self, tag: str, num: int, den: int) -> bool:
        """True with probability num/den; value 0 (the replay default) is always False (= no fault)."""
        if num <= 0:
            return False
        return self.choose(tag, den) >= den - num

    def pick(self, tag: str, seq: Sequence[Any]) -> Any:
        return seq[self.choose(tag, len(seq))]

    def randint(self, tag: str, lo: int, hi: int) -> int:
        return lo + self.choose(tag, hi - lo + 1)

    def sub_rng(self, tag: str) -> random.Random:
        """A PRNG for bulk derived data (payload filler…): one recorded choice, then deterministic."""
        return random.Random(self.choose(tag, 1 << 16))

    def shuffle(self, tag: str, items: list) -> None:
        for i in range(len(items) - 1, 0, -1):
            j = self.choose(tag, i + 1)
            j = i - j  # 0 => identity
            items[i], items[j] = items[j], items[i]

    # ------------------------------------------------------------------ faults, probes, trace
    def fault(self, kind: str, n: int = 1) -> None:
        self.stats[kind] += n

    def probe(self, name: str, n: int = 1) -> None:
        self.probes[name] += n

    def progress(self, n: int = 1) -> None:
        self.counters["progress"] += n

    def log(self, kind: str, actor: Any = "", *rest: Any) -> None:
        self.seq += 1
        self.trace.append((kind, actor, *rest))

    def next_seq(self) -> int:
        self.seq += 1
        return self.seq

    def digest(self) -> str:
        return hashlib.sha256(repr(self.trace).encode()).hexdigest()

    def order_digest(self) -> str:
        return hashlib.sha256(repr([t[:2] for t in self.trace]).encode()).hexdigest()[:16]

    # ------------------------------------------------------------------ time and events
    def at(self, when: float, cb: Callable[[], None]) -> None:
        if when < self.now:
            when = self.now
        self.seq += 1
        heapq.heappush(self._events, (when, self.seq, cb))

    def after(self, delay: float, cb: Callable[[], None]) -> None:
        self.at(self.now + delay, cb)

    def next_event_time(self) -> float | None:
        return self._events[0][0] if self._events else None

    def has_events(self) -> bool:
        return bool(self._events)

    def run_due(self) -> int:
        n = 0
        while self._events and self._events[0][0] <= self.now:
            _, _, cb = heapq.heappop(self._events)
            self.counters["events"] += 1
            self.n_events += 1  # the cap is per world: the children of a sweep share `counters` with their parent
            if self.n_events > self.max_events:
                raise StepCap(f"world event cap {self.max_events} reached at t={self.now}")
            cb()
            n += 1
        return n

    def advance(self, max_dt: float | None, until: float | None = None) -> bool:
        """Blocked actor hands over: jump to the earliest of next event / now+max_dt (or the absolute time `until`,
        which avoids float absorption when the caller holds an absolute deadline).  Returns False when there is
        nothing to wait for (no events, no timeout) = deadlock from the caller's point of view."""
        nxt = self.next_event_time()
        if nxt is None and max_dt is None and until is None:
            return False
        limit = until if until is not None else (self.now + max_dt if max_dt is not None else None)
        target = nxt if nxt is not None else limit
        if limit is not None:
            target = min(target, limit)
        if target > self.now:
            self.counters_time(target - self.now)
            self.now = target
        if self.now > self.max_time:
            raise StepCap(f"virtual time cap {self.max_time} reached")
        self.run_due()
        return True

    def counters_time(self, dt: float) -> None:
        self.counters["sim_ms"] += int(dt * 1000)

    def zero_wait(self) -> None:
        """Virtual CPU time (DESIGN 2.1): a loop that never waits still lets time pass, slowly."""
        self.zero_waits += 1
        if self.zero_waits > self.FREE_ZERO_WAITS:
            self.creep_iterations += 1
            self.now += self.CREEP
            self.run_due()

    def positive_wait(self) -> None:
        self.zero_waits = 0

    # ------------------------------------------------------------------ fds
    def alloc_fd(self, obj: Any) -> int:
        fd = self.next_fd
        self.next_fd += 1
        self.fd_table[fd] = obj
        return fd

    def open_sockets(self) -> list[Any]:
        return [s for s in self.sockets if not s.sim_closed]

    def fail(self, exc: BaseException) -> None:
        """Record a violation/harness error that may be swallowed by the code under test, then raise it."""
        if self.fatal is None:
            self.fatal = exc
        raise exc


def stable_hash(*parts: Any) -> int:
    h = hashlib.sha256(":".join(str(p) for p in parts).encode()).digest()
    return int.from_bytes(h[:8], "big")
