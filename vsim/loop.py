"""SimEventLoop: CPython's real selector event loop on a SimSelector and the world clock (DESIGN §2.3)."""
from __future__ import annotations

import asyncio
import contextlib
from typing import Any, Awaitable, Callable, Coroutine

from .sock import SimNet, SimSelector
from .world import Deadlock, HarnessError, StepCap, Violation, World


class SimEventLoop(asyncio.SelectorEventLoop):
    def __init__(self, world: World):
        self.world = world
        sel = SimSelector(world, is_loop=True)
        super().__init__(selector=sel)
        sel.loop = self
        self.sim_selector = sel
        self._sim_woken = False
        self._clock_resolution = 1e-9

    def time(self) -> float:
        return self.world.now

    def _write_to_self(self) -> None:
        # cross-thread wake-up becomes a simulator event instead of a byte on the real self-pipe
        self._sim_woken = True

    def getaddrinfo(self, *a: Any, **kw: Any):  # pragma: no cover - guard
        raise HarnessError("loop.getaddrinfo() would use an executor thread; harnesses must use numeric hosts or SimAsyncIOBackend.getaddrinfo")

    def run_in_executor(self, executor, func, *args):  # pragma: no cover - guard
        raise HarnessError("run_in_executor() is outside the simulator (DESIGN §1)")

    def call_exception_handler(self, context: dict) -> None:
        # record; harnesses may inspect.  Never print (keeps output deterministic and quiet).
        self.world.counters["loop_exception_handler"] += 1
        exc = context.get("exception")
        if isinstance(exc, (Violation, HarnessError, Deadlock)) and self.world.fatal is None:
            self.world.fatal = exc
        lst = getattr(self.world, "loop_errors", None)
        if lst is None:
            lst = self.world.loop_errors = []  # type: ignore[attr-defined]
        lst.append((context.get("message"), type(exc).__name__ if exc is not None else None))


def run_async(world: World, main: Callable[..., Coroutine[Any, Any, Any]], *args: Any, debug: bool = False, det_tasks: bool = True) -> Any:
    """Run ``main(*args)`` to completion on a fresh SimEventLoop (asyncio.Runner does the tear-down).

    det_tasks=True: every task of the loop (including the main one) is a ``SimTask`` (see below)."""
    from sniffio import thread_local

    from .sock import patched_clock

    old_name, thread_local.name = thread_local.name, "asyncio"
    try:
        # clients/_iter.py measures iterator budgets with time.perf_counter: it must read the world clock too
        with patched_clock(world), asyncio.Runner(loop_factory=lambda: SimEventLoop(world), debug=debug) as runner:
            loop = runner.get_loop()
            if det_tasks:
                deterministic_tasks(loop)
            world.loop = loop  # type: ignore[attr-defined]
            try:
                return runner.run(main(*args))
            finally:
                world.loop = None  # type: ignore[attr-defined]
    finally:
        thread_local.name = old_name


async def settle(world: World, iterations: int = 10) -> None:
    """let the loop turn a few times at the current virtual time"""
    for _ in range(iterations):
        await asyncio.sleep(0)


async def wait_until(world: World, pred: Callable[[], bool], *, max_time: float = 300.0, step: float = 1 / 64) -> bool:
    """poll pred in virtual time; returns False when max_time virtual seconds passed"""
    t0 = world.now
    while not pred():
        if world.now - t0 > max_time:
            return False
        await asyncio.sleep(step)
    return True


async def loop_goes_idle(world: World, loop: asyncio.AbstractEventLoop, iterations: int = 200) -> bool:
    """Spin detector (DESIGN §2.1): after the workload finished, the loop must stop having ready handles.

    We sleep a long virtual time; a healthy loop needs O(1) iterations for that, a spinning one thousands."""
    before = world.counters["loop_iterations"]
    await asyncio.sleep(50.0)
    used = world.counters["loop_iterations"] - before
    return used <= iterations


# ------------------------------------------------------------------------------------------------ deterministic task sets
class SimTask(asyncio.Task):  # type: ignore[type-arg]
    """asyncio.Task whose hash is its creation index on its loop instead of its address.

    Why: ``asyncio.TaskGroup._abort()``, ``asyncio.Runner`` tear-down and ``asyncio.all_tasks()`` iterate over *sets*
    of tasks; the default hash is ``id()``-based, so the order in which sibling tasks are cancelled (and therefore
    the order of their ``close`` events in the trace) changes from one run to the next in the same process.
    With creation-index hashes the iteration order of such a set is a pure function of the insertion history.
    Equality stays identity.  Opt-in: call ``deterministic_tasks(loop)`` first thing inside ``main``."""

    def __init__(self, coro, *, loop=None, **kw):  # type: ignore[no-untyped-def]
        lp = loop if loop is not None else asyncio.get_event_loop()
        seq = getattr(lp, "_sim_task_seq", 0) + 1
        lp._sim_task_seq = seq  # type: ignore[attr-defined]
        self._sim_hash = seq  # before Task.__init__: it registers the task in a WeakSet (hashes it)
        super().__init__(coro, loop=loop, **kw)

    def __hash__(self) -> int:
        return self._sim_hash


def deterministic_tasks(loop: asyncio.AbstractEventLoop | None = None) -> None:
    """install SimTask as the task factory of `loop` (default: the running loop)"""
    if loop is None:
        loop = asyncio.get_running_loop()
    loop.set_task_factory(lambda lp, coro, **kw: SimTask(coro, loop=lp, **kw))
