"""Baton scheduler over real OS threads (DESIGN §2.4).

All synchronisation of CPython's ``threading`` module is a pure-Python composition of ``threading._allocate_lock``
(Lock, RLock when ``_CRLock`` is None, Condition, Event, Semaphore, Barrier, concurrent.futures.Future…).  While a
``Scheduler`` is installed, that primitive is a ``SimLock`` and thread start/join go through the scheduler, so that

* exactly ONE simulated thread runs at any time (it "holds the baton"; the others are parked on a private real lock),
* the scheduler decides who runs next at every scheduling point — lock acquire/release, ``SimSelector.select``,
  thread start/exit/join, ``time.sleep``, explicit ``yield_point`` — through ``world.choose`` (0 = keep running the
  current thread: the boring schedule),
* virtual time advances only when every thread is blocked, to the earliest of: next world event, a lock/condition
  wait timeout, a select timeout, a sleep deadline,
* a state in which every thread is blocked without deadline and the world has no event is a Deadlock.

Optionally (``preempt``), a bounded number of forced pre-emptions at *line* granularity inside chosen source files is
added with ``sys.settrace`` (PCT style), to reach interleavings between two synchronisation points.
"""
from __future__ import annotations

import _thread
import sys
import threading
import time
from typing import Any, Callable

from .world import Deadlock, HarnessError, StepCap, World

RUNNABLE, BLOCKED, DONE = "runnable", "blocked", "done"

_real_allocate_lock = _thread.allocate_lock
_real_start_new_thread = _thread.start_new_thread


class ThreadAbort(BaseException):
    """raised in simulated threads when the run is being torn down (deadlock / harness abort)"""


class TCB:
    __slots__ = ("idx", "name", "gate", "state", "wake", "deadline", "timed_out", "abort_exc", "real_ident", "what", "poll_stays")

    def __init__(self, idx: int, name: str):
        self.idx = idx
        self.name = name
        self.gate = _real_allocate_lock()
        self.gate.acquire()
        self.state = RUNNABLE
        self.wake: Callable[[], bool] | None = None
        self.deadline: float | None = None
        self.timed_out = False
        self.abort_exc: BaseException | None = None
        self.real_ident = 0
        self.poll_stays = 0
        self.what = ""


class SimLock:
    """replacement of _thread.LockType"""

    def __init__(self, sched: "Scheduler"):
        self._s = sched
        self._locked = False

    def acquire(self, blocking: bool = True, timeout: float = -1) -> bool:
        s = self._s
        if s.aborting or not s.active or s.foreign():
            # torn-down run, or a thread that does not belong to this scheduler (e.g. a thread of an earlier, aborted
            # run that is still unwinding): never touch the scheduling state
            self._locked = True
            return True
        if not self._locked:
            self._locked = True
            s.yield_point("acquire")
            return True
        if not blocking:
            return False
        deadline = None if timeout is None or timeout < 0 else s.world.now + timeout
        while self._locked:
            s.world.fault("lock_contention")
            ok = s.block(lambda: not self._locked, deadline, "lock")
            if not ok and self._locked:
                return False
        self._locked = True
        return True

    def release(self) -> None:
        if not self._locked:
            raise RuntimeError("release unlocked lock")
        self._locked = False
        s = self._s
        if s.aborting or not s.active or s.foreign():
            return
        s.yield_point("release")

    def locked(self) -> bool:
        return self._locked

    def _at_fork_reinit(self) -> None:
        self._locked = False

    __enter__ = acquire

    def __exit__(self, *a: Any) -> None:
        self.release()

    # threading._RLock probes these on its inner lock in some versions
    acquire_lock = acquire
    release_lock = release
    locked_lock = locked


class Scheduler:
    MAX_POLL_STAYS = 64

    def __init__(self, world: World, *, switch_den: int = 3, preempt_files: tuple[str, ...] = (), max_preemptions: int = 0):
        self.world = world
        self.threads: list[TCB] = []
        self.current: TCB | None = None
        self.active = False
        self.aborting = False
        self.switch_den = switch_den  # at a yield point, switch away with probability (switch_den-1)/switch_den... see yield_point
        self.switches = 0
        self.max_switches = 400_000
        self.preempt_files = preempt_files
        self.preemptions_left = max_preemptions
        self.preempt_den = 0
        self._saved: dict[str, Any] = {}
        self._by_ident: dict[int, TCB] = {}

    # ------------------------------------------------------------------ install / uninstall
    def install(self) -> None:
        assert not self.active
        main = TCB(0, "main")
        main.real_ident = _thread.get_ident()
        self.threads = [main]
        self._by_ident[main.real_ident] = main
        self.current = main
        self.active = True
        sv = self._saved
        sv["_allocate_lock"] = threading._allocate_lock
        sv["Lock"] = threading.Lock
        sv["_CRLock"] = threading._CRLock
        sv["_start_new_thread"] = threading._start_new_thread
        sv["join"] = threading.Thread.join
        sv["sleep"] = time.sleep
        sv["is_alive"] = threading.Thread.is_alive
        sched = self
        threading._allocate_lock = lambda: SimLock(sched)  # type: ignore[assignment]
        threading.Lock = lambda: SimLock(sched)  # type: ignore[assignment,misc]
        threading._CRLock = None  # type: ignore[assignment]
        threading._start_new_thread = self._start_new_thread  # type: ignore[assignment]
        threading.Thread.join = _patched_join(self)  # type: ignore[method-assign]
        threading.Thread.is_alive = _patched_is_alive(self)  # type: ignore[method-assign]
        time.sleep = self.sleep  # type: ignore[assignment]
        if self.preempt_files and self.preemptions_left > 0:
            threading.settrace(self._trace)
            sys.settrace(self._trace)

    def uninstall(self) -> None:
        if not self._saved:
            return
        sv = self._saved
        threading._allocate_lock = sv["_allocate_lock"]
        threading.Lock = sv["Lock"]
        threading._CRLock = sv["_CRLock"]
        threading._start_new_thread = sv["_start_new_thread"]
        threading.Thread.join = sv["join"]  # type: ignore[method-assign]
        threading.Thread.is_alive = sv["is_alive"]  # type: ignore[method-assign]
        time.sleep = sv["sleep"]
        if self.preempt_files:
            sys.settrace(None)
            threading.settrace(None)  # type: ignore[arg-type]
        self._saved = {}
        self.active = False

    def __enter__(self) -> "Scheduler":
        self.install()
        return self

    def __exit__(self, et, ev, tb) -> None:
        # threads still alive at this point are leaked by the harness or stuck: tear them down
        try:
            if any(t.state != DONE for t in self.threads[1:]):
                self.abort(None)
            if self.aborting:
                # give the released threads a moment (real time) to unwind, so that they do not overlap the next run
                real_sleep = self._saved.get("sleep", time.sleep)
                for _ in range(400):
                    if all(t.state == DONE for t in self.threads[1:]):
                        break
                    real_sleep(0.005)
        finally:
            self.uninstall()

    # ------------------------------------------------------------------ thread lifecycle
    def _start_new_thread(self, fn: Callable[..., Any], args: tuple = (), kwargs: dict | None = None) -> int:
        if not self.active or self.aborting:
            return _real_start_new_thread(fn, args, kwargs or {})
        tcb = TCB(len(self.threads), f"t{len(self.threads)}")
        self.threads.append(tcb)
        self.world.log("thread_start", tcb.name)
        owner = getattr(fn, "__self__", None)  # threading.Thread.start() passes its bound _bootstrap
        if isinstance(owner, threading.Thread):
            # OS thread idents are reused as soon as a thread has exited: Thread -> TCB must not go through the ident (S7)
            owner._sim_tcb = tcb  # type: ignore[attr-defined]

        def runner() -> None:
            tcb.real_ident = _thread.get_ident()
            self._by_ident[tcb.real_ident] = tcb
            tcb.gate.acquire()  # wait for the baton
            try:
                if not self.aborting:
                    fn(*args, **(kwargs or {}))
            except ThreadAbort:
                pass
            except BaseException as e:  # threading.Thread._bootstrap_inner normally swallows everything itself
                if self.world.fatal is None and not self.aborting:
                    self.world.fatal = HarnessError(f"simulated thread {tcb.name} died: {type(e).__name__}: {e}")
            finally:
                tcb.state = DONE
                self.world.log("thread_exit", tcb.name)
                if not self.aborting and self.current is tcb:
                    try:
                        self._dispatch()
                    except BaseException as e:
                        if self.world.fatal is None:
                            self.world.fatal = e
                        self.abort(e)

        ident = _real_start_new_thread(runner, ())
        self.yield_point("start")
        return ident

    def foreign(self) -> bool:
        """True when the calling OS thread is not the simulated thread that holds the baton"""
        cur = self.current
        return cur is None or _thread.get_ident() != cur.real_ident

    def me(self) -> TCB:
        cur = self.current
        assert cur is not None
        return cur

    # ------------------------------------------------------------------ scheduling
    def _runnable(self) -> list[TCB]:
        now = self.world.now
        out = []
        for t in self.threads:
            if t.state == BLOCKED:
                w = t.wake
                if w is not None and w():
                    t.state = RUNNABLE
                    t.timed_out = False
                elif t.deadline is not None and now >= t.deadline:
                    t.state = RUNNABLE
                    t.timed_out = True
            if t.state == RUNNABLE:
                out.append(t)
        return out

    def _switch(self, nxt: TCB) -> None:
        me = self.me()
        if nxt is me:
            return
        self.switches += 1
        self.world.counters["switches"] += 1
        if self.switches > self.max_switches:
            self.world.fatal = StepCap(f"scheduler switch cap {self.max_switches} reached")
            self.abort(self.world.fatal)
            raise self.world.fatal
        self.world.log("switch", nxt.name)
        self.current = nxt
        nxt.gate.release()
        if me.state != DONE:
            me.gate.acquire()
            if self.aborting:
                exc = me.abort_exc
                me.abort_exc = None
                if me.idx == 0 and exc is not None:
                    raise exc
                raise ThreadAbort()

    def yield_point(self, tag: str = "", force: bool = False) -> bool:
        """scheduling point; force=True: if another thread is runnable it MUST run now (used by a thread that is polling
        without waiting, e.g. a loop spinning on select(0): the OS would pre-empt it).  Returns True if it switched."""
        if not self.active or self.aborting:
            return False
        me = self.current
        if me is None or _thread.get_ident() != me.real_ident:
            return False  # a non-simulated thread (should not happen)
        run = self._runnable()
        if len(run) <= 1:
            return False
        # order: me first, then the others by index => choice 0 = keep running
        others = [t for t in run if t is not me]
        if force:
            # same odds as any other scheduling point that the polling thread keeps the processor for one more round (a real OS
            # does not pre-empt at once: needed for schedules in which e.g. an event loop runs many iterations before a runnable
            # thread gets its turn); bounded, so that a spinning thread cannot starve the others for ever, and virtual time
            # never creeps here
            k = self.world.choose("sched.poll", len(others) + self.switch_den)
            if k < self.switch_den and me.poll_stays < self.MAX_POLL_STAYS:
                me.poll_stays += 1
                return True
            me.poll_stays = 0
            nxt = others[(k - self.switch_den) % len(others)] if k >= self.switch_den else others[0]
            self._switch(nxt)
            return True
        k = self.world.choose("sched." + tag, len(others) * 1 + self.switch_den)
        if k < self.switch_den:
            return False
        nxt = others[(k - self.switch_den) % len(others)]
        self.world.fault("thread_preempt")
        self._switch(nxt)
        return True

    def block(self, wake: Callable[[], bool], deadline: float | None, what: str = "") -> bool:
        """park the current thread until wake() is true (returns True) or the deadline passed (returns False)"""
        if self.aborting or self.foreign():
            raise ThreadAbort()
        me = self.me()
        me.wake, me.deadline, me.state, me.timed_out, me.what = wake, deadline, BLOCKED, False, what
        self._dispatch()
        me.wake = None
        me.deadline = None
        return not me.timed_out

    def _dispatch(self) -> None:
        """called by the baton holder when it cannot continue (blocked or done): pick who runs next, advancing virtual
        time when nobody is runnable"""
        w = self.world
        while True:
            run = self._runnable()
            if run:
                me = self.me()
                if len(run) == 1:
                    nxt = run[0]
                else:
                    # prefer the current thread when it became runnable again (choice 0), then by index
                    order = sorted(run, key=lambda t: (t is not me, t.idx))
                    nxt = order[w.choose("sched.pick", len(order))]
                if nxt is me:
                    me.state = RUNNABLE
                    return
                self._switch(nxt)
                return
            deadlines = [t.deadline for t in self.threads if t.state == BLOCKED and t.deadline is not None]
            if not w.advance(None, until=max(w.now, min(deadlines)) if deadlines else None):
                blocked = [(t.name, t.what) for t in self.threads if t.state == BLOCKED]
                exc = Deadlock(f"all simulated threads are blocked and no event is pending at t={w.now}: {blocked}")
                if w.fatal is None:
                    w.fatal = exc
                self.abort(exc)
                me = self.me()
                if me.idx == 0:
                    raise exc
                raise ThreadAbort()

    def sleep(self, secs: float) -> None:
        if not self.active or self.aborting or self.current is None or _thread.get_ident() != self.current.real_ident:
            return self._saved.get("sleep", time.sleep)(secs) if not self.active else None
        if secs <= 0:
            self.yield_point("sleep0")
            return
        self.block(lambda: False, self.world.now + secs, "sleep")

    # ------------------------------------------------------------------ abort
    def abort(self, exc: BaseException | None) -> None:
        """tear the run down: every primitive becomes non-blocking, every parked thread is released to unwind"""
        if self.aborting:
            return
        self.aborting = True
        # From here on the released threads unwind concurrently (real parallelism): nothing they log belongs to the
        # deterministic execution.  Freeze the trace (added by S7 for C18: digests of Deadlock runs were unstable).
        self.world.trace = list(self.world.trace)
        self.world.log = lambda *a, **k: None  # type: ignore[method-assign]
        me = self.current
        main = self.threads[0]
        main.abort_exc = exc
        for t in self.threads:
            if t is not me and t.state != DONE:
                try:
                    t.gate.release()
                except RuntimeError:
                    pass

    # ------------------------------------------------------------------ line-level pre-emption
    def _trace(self, frame, event, arg):  # pragma: no cover - exercised by harnesses
        if event != "call":
            return None
        if not frame.f_code.co_flags & 0x2:
            # module and class bodies (CO_NEWLOCALS unset) run only on the first import in a process: tracing them would
            # make an execution depend on what was imported before (fresh-interpreter replays diverged)
            return None
        fn = frame.f_code.co_filename
        for suffix in self.preempt_files:
            if fn.endswith(suffix):
                return self._trace_lines
        return None

    def _trace_lines(self, frame, event, arg):  # pragma: no cover
        if event == "line" and self.preemptions_left > 0 and self.active and not self.aborting and self.preempt_den:
            me = self.current
            if me is not None and _thread.get_ident() == me.real_ident and len(self.threads) > 1:
                run = self._runnable()
                if len(run) > 1 and self.world.chance("sched.preempt", 1, self.preempt_den):
                    self.preemptions_left -= 1
                    others = [t for t in run if t is not me]
                    nxt = others[self.world.choose("sched.preempt_to", len(others))]
                    self.world.fault("thread_preempt")
                    self.world.log("preempt", nxt.name, frame.f_code.co_name, frame.f_lineno)
                    self._switch(nxt)
        return self._trace_lines


def _patched_join(sched: Scheduler):
    orig = threading.Thread.join

    def join(self: threading.Thread, timeout: float | None = None) -> None:
        if not sched.active or sched.aborting:
            return orig(self, timeout)
        if not self._initialized:  # type: ignore[attr-defined]
            raise RuntimeError("Thread.__init__() not called")
        if not self._started.is_set():  # type: ignore[attr-defined]
            raise RuntimeError("cannot join thread before it is started")
        if self is threading.current_thread():
            raise RuntimeError("cannot join current thread")
        tcb = getattr(self, "_sim_tcb", None) or sched._by_ident.get(self.ident or -1)
        if tcb is None:
            # the OS thread has not registered yet: it is parked before its first instruction
            cands = [t for t in sched.threads if t.real_ident == 0]
            tcb = cands[0] if len(cands) == 1 else None
        deadline = None if timeout is None else sched.world.now + max(0.0, timeout)

        def done() -> bool:
            t = tcb if tcb is not None else sched._by_ident.get(self.ident or -1)
            return t is not None and t.state == DONE

        while not done():
            if not sched.block(done, deadline, "join"):
                return
        # the simulated thread finished its Python-level work; let the OS thread finish its bootstrap for real
        orig(self, 5.0)

    return join


def _patched_is_alive(sched: Scheduler):
    """Thread.is_alive() of a simulated thread = its simulated state (added by S7): the real answer depends on how fast the OS
    thread finishes its bootstrap after the simulated work is done, i.e. on real time."""
    orig = threading.Thread.is_alive

    def is_alive(self: threading.Thread) -> bool:
        if sched.active and not sched.aborting and self._started.is_set():  # type: ignore[attr-defined]
            tcb = getattr(self, "_sim_tcb", None) or sched._by_ident.get(self.ident or -1)
            if tcb is not None and tcb.idx != 0:
                return tcb.state != DONE
        return orig(self)

    return is_alive


def selector_block(sched: Scheduler, ready: Callable[[], bool], timeout: float | None) -> None:
    """used by SimSelector.select when a scheduler is installed: wait for readiness as a simulated thread"""
    deadline = None if timeout is None else sched.world.now + timeout
    sched.block(ready, deadline, "select")
