"""Reference interpreter of *level-triggered* cancel-scope semantics for the C13 scope programs (DESIGN §4 C13, tier B).

Independent of the code under test: no asyncio, no easynetwork.  It executes the same JSON program as the
interpreter in ``props/c13.py`` on a tiny discrete-event scheduler and produces, per task, the list of statements
that ran with their virtual start/end time and outcome, plus ``(cancel_called, cancelled_caught)`` of every scope.

Semantics (what the property statement fixes, nothing else):
  * a scope is *cancelled* from the moment its deadline has passed (``now >= deadline`` when it is entered or
    rescheduled, the deadline timer otherwise) or ``cancel()`` was called; that never reverts;
  * an unshielded checkpoint (sleep, coro_yield, waiting for task-group children) inside a cancelled scope raises at
    once — a pending sleep is interrupted at the moment the scope becomes cancelled; the scope that was cancelled
    catches (move_on: swallow; timeout: TimeoutError), scopes that were not cancelled let it through;
  * under ``ignore_cancellation`` (and in ``cancel_shielded_coro_yield``) nothing is interrupted; the cancellation
    waits for the first unshielded checkpoint inside the still-open cancelled scope; if the scope exits first, it is
    dropped;
  * a task group whose body (or wait) is cancelled cancels its children (an external cancel for them: none of their
    scopes catches it), waits for them, and re-raises.

Everything the statement leaves open raises ``NotInTierB`` instead of guessing: two cancelled scopes open on one task,
a cancelled scope together with an external cancel, and every *tie* (a deadline, a foreign cancel/reschedule or a
task-group abort landing at the very instant its target task is active or due to wake).  Times are integers (1/512 s).
"""
from __future__ import annotations

from collections import deque
from typing import Any, Generator

INF = float("inf")


class NotInTierB(Exception):
    pass


class _Cancel(Exception):
    def __init__(self, src: Any):
        self.src = src  # an MScope or "ext"


class _Timeout(Exception):
    pass


class MScope:
    __slots__ = ("sid", "task", "kind", "deadline", "called", "caught", "open", "body_exc")

    def __init__(self, sid: int, task: "MTask", kind: str):
        self.sid = sid
        self.task = task
        self.kind = kind
        self.deadline: float = INF
        self.called = False
        self.caught = False
        self.open = False
        self.body_exc: str | None = None


class MTask:
    def __init__(self, name: str, body: list[dict], parent: "MTask | None", spawn_t: int):
        self.name = name
        self.body = body
        self.parent = parent
        self.spawn_t = spawn_t
        self.gen: Generator | None = None
        self.state = "ready"  # ready | sleep | join | done
        self.started = False
        self.wake: float = INF
        self.wait_unshielded = False
        self.resume_exc: BaseException | None = None
        self.check_on_resume = False
        self.depth = 0  # current shield depth
        self.stack: list[MScope] = []  # open scopes, outermost first
        self.aborted = False
        self.recs: list[list] = []  # [sid, op, start_t, end_t, outcome]
        self.outcome: str | None = None
        self.last_active: float = -1
        self.no_activity_at: float = -1
        self.children: list[MTask] = []
        self.join_on: list[MTask] = []


class Model:
    def __init__(self, prog: dict):
        if prog.get("ext"):
            raise NotInTierB("external cancel")
        self.prog = prog
        self.now: int = 0
        self.ready: deque[MTask] = deque()
        self.tasks: dict[str, MTask] = {}
        self.scopes: dict[int, MScope] = {}
        self.owner: dict[int, str] = {}  # scope sid -> name of the task that (will) own it
        self.nospawn: dict[str, int] = {}
        self.steps = 0
        for i, body in enumerate(prog["tasks"]):
            self._index(f"T{i}", body)

    def _index(self, name: str, body: list[dict]) -> None:
        for st in body:
            if st["op"] == "scope":
                self.owner[st["id"]] = name
            if st["op"] == "tg":
                for i, ch in enumerate(st["children"]):
                    self._index(f"{name}.{st['id']}c{i}", ch)
            if "body" in st:
                self._index(name, st["body"])

    # ------------------------------------------------------------------ cancellation bookkeeping
    def _source(self, t: MTask) -> Any:
        if t.aborted:
            return "ext"
        for s in t.stack:
            if s.called:
                return s
        return None

    def _touch(self, t: MTask) -> None:
        if t.no_activity_at == self.now:
            raise NotInTierB("tie: task active at the instant something happened to it")
        t.last_active = self.now

    def _poke(self, t: MTask, running: MTask | None) -> None:
        """a new cancellation source appeared for t"""
        if t is running:
            return  # evaluated at its next checkpoint
        if t.state in ("sleep", "join") and t.wait_unshielded:
            t.state = "ready"
            t.wake = INF
            t.resume_exc = _Cancel(self._source(t))
            self.ready.append(t)
        elif t.state == "ready":
            raise NotInTierB("tie: target is runnable right now")
        else:
            t.no_activity_at = self.now

    def _mark_called(self, s: MScope, running: MTask | None) -> None:
        if s.called:
            return
        t = s.task
        if t.aborted or any(o.called for o in t.stack if o is not s):
            raise NotInTierB("two cancellations in flight on one task")
        s.called = True
        s.deadline = s.deadline  # the deadline value stays readable, it just no longer matters
        self._poke(t, running)

    def _foreign_guard(self, actor: MTask, sid: int) -> None:
        name = self.owner[sid]
        if name == actor.name:
            return
        b = self.tasks.get(name)
        if b is None:
            self.nospawn[name] = self.now
            return
        if b.last_active == self.now or b.wake == self.now or b.state == "ready":
            raise NotInTierB("tie: foreign operation while the target task is active")
        s = self.scopes.get(sid)
        if s is not None and s.open and not s.called and s.deadline == self.now:
            raise NotInTierB("tie: foreign operation at the target's deadline")
        if b.state != "done":
            b.no_activity_at = self.now

    def _abort_children(self, t: MTask, children: list[MTask]) -> None:
        for c in children:
            if c.state == "done":
                if c.last_active == self.now:
                    raise NotInTierB("tie: child finished at the instant of the abort")
                continue
            if c.last_active == self.now or c.wake == self.now or c.spawn_t == self.now or c.state == "ready":
                raise NotInTierB("tie: abort while the child is active")
            if any(s.called for s in c.stack):
                raise NotInTierB("two cancellations in flight on one task")
            c.aborted = True
            self._poke(c, t)

    # ------------------------------------------------------------------ program execution (generators)
    def _rec(self, t: MTask, st: dict, op: str) -> list:
        self.steps += 1
        if self.steps > 5000:
            raise NotInTierB("model step cap")
        r = [st["id"], op, self.now, None, None]
        t.recs.append(r)
        return r

    def _body(self, t: MTask, body: list[dict]) -> Generator:
        for st in body:
            yield from self._stmt(t, st)

    def _checkpoint(self, t: MTask, k: int) -> Generator:
        unshielded = t.depth == 0
        if k > 0:
            yield ("sleep", self.now + k, unshielded)
        else:
            yield ("yield", unshielded)

    def _stmt(self, t: MTask, st: dict) -> Generator:
        op = st["op"]
        r = self._rec(t, st, op)
        try:
            if op == "sleep":
                yield from self._checkpoint(t, st["k"])
            elif op == "yield":
                yield from self._checkpoint(t, 0)
            elif op == "syield":
                yield ("yield", False)
            elif op == "scope":
                yield from self._scope(t, st)
            elif op in ("cancel", "resched"):
                sid = st["ref"]
                self._foreign_guard(t, sid)
                s = self.scopes.get(sid)
                if s is not None and s.open:
                    if op == "cancel":
                        self._mark_called(s, t)
                    else:
                        s.deadline = INF if st["k"] < 0 else self.now + st["k"]
                        if not s.called and self.now >= s.deadline:
                            self._mark_called(s, t)
            elif op == "shield":
                t.depth += 1
                try:
                    yield from self._body(t, st["body"])
                finally:
                    t.depth -= 1
            elif op == "try":
                try:
                    yield from self._body(t, st["body"])
                except _Timeout:
                    pass
            elif op == "tg":
                yield from self._tg(t, st)
            else:
                raise AssertionError(op)
        except _Cancel:
            r[3], r[4] = self.now, "cancelled"
            raise
        except _Timeout:
            r[3], r[4] = self.now, "timeout"
            raise
        else:
            r[3], r[4] = self.now, "ok"

    def _scope(self, t: MTask, st: dict) -> Generator:
        kind, k = st["kind"], st["k"]
        s = MScope(st["id"], t, kind)
        self.scopes[s.sid] = s
        if kind == "open":
            s.deadline = INF
        elif kind in ("after", "timeout"):
            s.deadline = self.now + k
        else:
            s.deadline = k
        s.open = True
        t.stack.append(s)
        if self.now >= s.deadline:
            self._mark_called(s, t)
        try:
            try:
                yield from self._body(t, st["body"])
            except _Cancel as e:
                s.body_exc = "cancelled"
                if e.src is s:
                    s.caught = True
                else:
                    raise
            except _Timeout:
                s.body_exc = "timeout"
                raise
        finally:
            s.open = False
            t.stack.remove(s)
        if s.caught and kind in ("timeout", "timeout_at"):
            raise _Timeout()

    def _tg(self, t: MTask, st: dict) -> Generator:
        children = []
        for i, ch in enumerate(st["children"]):
            name = f"{t.name}.{st['id']}c{i}"
            if self.nospawn.get(name) == self.now:
                raise NotInTierB("tie: task spawned at the instant another task referred to its scopes")
            c = MTask(name, ch, t, self.now)
            self.tasks[name] = c
            t.children.append(c)
            children.append(c)
            self.ready.append(c)
        pending: _Cancel | None = None
        try:
            try:
                yield from self._body(t, st["body"])
            except _Timeout:
                pass
        except _Cancel as e:
            pending = e
            self._abort_children(t, children)
        while any(c.state != "done" for c in children):
            try:
                yield ("join", children, t.depth == 0 and pending is None)
            except _Cancel as e:
                pending = e
                self._abort_children(t, children)
        if pending is not None:
            raise pending

    def _task_main(self, t: MTask) -> Generator:
        try:
            try:
                yield from self._body(t, t.body)
            except _Timeout:
                pass
            for j, k in enumerate((0, 8)):
                r = self._rec(t, {"id": -(j + 1)}, "post")
                try:
                    yield from self._checkpoint(t, k)
                except _Cancel:
                    r[3], r[4] = self.now, "cancelled"
                    raise
                r[3], r[4] = self.now, "ok"
            t.outcome = "ok"
        except _Cancel:
            t.outcome = "cancelled"

    # ------------------------------------------------------------------ scheduler
    def _step(self, t: MTask) -> None:
        self._touch(t)
        if t.gen is None:
            if t.aborted:
                raise NotInTierB("aborted before the first step")
            t.gen = self._task_main(t)
            t.started = True
        exc, t.resume_exc = t.resume_exc, None
        if exc is None and t.check_on_resume:
            src = self._source(t)
            if src is not None:
                exc = _Cancel(src)
        t.check_on_resume = False
        while True:
            try:
                req = t.gen.throw(exc) if exc is not None else t.gen.send(None)
            except StopIteration:
                t.state = "done"
                p = t.parent
                if p is not None and p.state == "join" and all(c.state == "done" for c in p.join_on):
                    p.state = "ready"
                    self.ready.append(p)
                return
            exc = None
            kind = req[0]
            if kind == "yield":
                t.state = "ready"
                t.check_on_resume = req[1]
                self.ready.append(t)
                return
            if kind == "sleep":
                if req[2]:
                    src = self._source(t)
                    if src is not None:
                        exc = _Cancel(src)
                        continue
                t.state, t.wake, t.wait_unshielded = "sleep", req[1], req[2]
                return
            if kind == "join":
                if all(c.state == "done" for c in req[1]):
                    continue
                if req[2]:
                    src = self._source(t)
                    if src is not None:
                        exc = _Cancel(src)
                        continue
                t.state, t.wake, t.wait_unshielded, t.join_on = "join", INF, req[2], req[1]
                return
            raise AssertionError(req)

    def run(self) -> "Model":
        for i, body in enumerate(self.prog["tasks"]):
            t = MTask(f"T{i}", body, None, 0)
            self.tasks[t.name] = t
            self.ready.append(t)
        rounds = 0
        while True:
            while self.ready:
                t = self.ready.popleft()
                if t.state != "ready":
                    continue
                rounds += 1
                if rounds > 20000:
                    raise NotInTierB("model round cap")
                self._step(t)
            nxt: float = INF
            for t in self.tasks.values():
                if t.state == "sleep":
                    nxt = min(nxt, t.wake)
            for s in self.scopes.values():
                if s.open and not s.called:
                    nxt = min(nxt, s.deadline)
            if nxt == INF:
                break
            self.now = int(nxt)
            for sid in sorted(self.scopes):
                s = self.scopes[sid]
                if s.open and not s.called and s.deadline <= self.now:
                    t = s.task
                    if t.wake == self.now or t.last_active == self.now:
                        raise NotInTierB("tie: deadline at the instant its task wakes")
                    self._mark_called(s, None)
            for name in sorted(self.tasks):
                t = self.tasks[name]
                if t.state == "sleep" and t.wake <= self.now:
                    t.state, t.wake = "ready", INF
                    self.ready.append(t)
        for t in self.tasks.values():
            if t.state != "done":
                raise NotInTierB(f"model deadlock: {t.name} in state {t.state}")
        return self

    # ------------------------------------------------------------------ result
    def result(self) -> dict:
        return {
            "tasks": {n: {"recs": [tuple(r) for r in t.recs], "outcome": t.outcome} for n, t in sorted(self.tasks.items())},
            "scopes": {sid: (s.called, s.caught) for sid, s in sorted(self.scopes.items())},
        }


def reference(prog: dict) -> dict:
    """Run the reference semantics; raises NotInTierB when the program leaves the part the property decides."""
    return Model(prog).run().result()
