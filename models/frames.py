"""Reference model of stream framing (DESIGN §4 C02, reused by C15).

What a byte stream *means*, independently of how it is cut into reads:

* ``separator`` framing: the stream is split at the leftmost occurrences of the separator (``bytes.find`` semantics, the
  same the code documents); every frame is decoded **alone** by the one-shot ``deserialize`` of a FRESH serializer.
* ``fixed`` framing: consecutive blocks of ``size`` bytes, each decoded alone.
* ``json-raw`` framing (``JSONSerializer(use_lines=False)``): a frame is one properly nested document
  (``{…}`` / ``[…]`` with string and escape awareness, or a ``"string"``), or a plain value (run of printable ASCII)
  terminated by one JSON whitespace byte.  Anything else has no frame structure: ``NoFrameStructure`` is raised and the
  model claims nothing (DESIGN C02: "demands nothing for raw-JSON garbage").

Nothing in here looks at limits, chunkings, buffers or generators of the code under test; the only code shared with
the implementation is ``serializer.deserialize`` (one-shot), called on a fresh instance per frame.

Outcome vocabulary (shared with vsim/chunk.py):
    ("pkt", value) | ("err", inner_error_class_name) | ("crash", exception_class_name)
A frame whose one-shot decoding raises ``DeserializeError`` is reported as ``("err", "IncrementalDeserializeError")``:
that is the class the stream protocol must wrap it into.
"""
from __future__ import annotations

import dataclasses
from typing import Any, Callable, NamedTuple, Sequence

from easynetwork.exceptions import DeserializeError

PARSE_ERROR = "IncrementalDeserializeError"
LIMIT_ERROR = "LimitOverrunError"
_WS = b" \t\n\r"


@dataclasses.dataclass(frozen=True)
class Framing:
    """family_config of ``reference_outcomes``."""

    kind: str  # "separator" | "fixed" | "json-raw"
    fresh: Callable[[], Any]  # -> a FRESH serializer instance; only .deserialize(bytes) is used
    separator: bytes = b""
    decode_with_separator: bool = False  # keep_end=True line serializers: the one-shot input includes the terminator
    size: int = 0  # fixed framing only

    @property
    def seplen(self) -> int:
        return len(self.separator)


class Frame(NamedTuple):
    lead: int  # where the bytes belonging to this frame begin (json-raw: leading whitespace included)
    start: int  # first payload byte
    end: int  # one past the last payload byte
    term_end: int  # one past the terminator (== end when the frame is self-delimited)

    def payload(self, stream: bytes) -> bytes:
        return stream[self.start : self.end]

    def size(self) -> int:
        """bytes the receiver has to hold to see this frame completely"""
        return self.term_end - self.lead


class NoFrameStructure(Exception):
    """json-raw only: the stream leaves the domain on which frames are defined at offset ``pos``."""

    def __init__(self, pos: int, frames: list[Frame]):
        super().__init__(pos)
        self.pos = pos
        self.frames = frames


# ------------------------------------------------------------------------------------------------ splitting
def _split_separator(stream: bytes, sep: bytes) -> tuple[list[Frame], int]:
    if not sep:
        raise ValueError("empty separator")
    frames: list[Frame] = []
    pos = 0
    while True:
        i = stream.find(sep, pos)
        if i < 0:
            return frames, pos
        frames.append(Frame(pos, pos, i, i + len(sep)))
        pos = i + len(sep)


def _split_fixed(stream: bytes, size: int) -> tuple[list[Frame], int]:
    if size <= 0:
        raise ValueError("size must be positive")
    n = len(stream) // size
    return [Frame(k * size, k * size, (k + 1) * size, (k + 1) * size) for k in range(n)], n * size


def _scan_string(stream: bytes, i: int) -> int:
    """i = index just after the opening quote; -> index just after the closing quote, or -1"""
    n = len(stream)
    esc = False
    while i < n:
        b = stream[i]
        if esc:
            esc = False
        elif b == 0x5C:
            esc = True
        elif b == 0x22:
            return i + 1
        i += 1
    return -1


def _split_json_raw(stream: bytes) -> tuple[list[Frame], int]:
    frames: list[Frame] = []
    n = len(stream)
    pos = 0
    while True:
        s = pos
        while s < n and stream[s] in _WS:
            s += 1
        if s == n:
            return frames, pos
        c = stream[s]
        if c in b"{[":
            stack: list[int] = []
            i = s
            end = -1
            while i < n:
                b = stream[i]
                if b == 0x22:
                    i = _scan_string(stream, i + 1)
                    if i < 0:
                        break
                    continue
                if b in b"{[":
                    stack.append(b)
                elif b in b"}]":
                    if not stack or stack[-1] != (0x7B if b == 0x7D else 0x5B):
                        raise NoFrameStructure(i, frames)
                    stack.pop()
                    if not stack:
                        end = i + 1
                        break
                elif b == 0x5C:  # backslash outside a string
                    raise NoFrameStructure(i, frames)
                i += 1
            if end < 0:
                return frames, pos
            frames.append(Frame(pos, s, end, end))
            pos = end
        elif c == 0x22:
            end = _scan_string(stream, s + 1)
            if end < 0:
                return frames, pos
            frames.append(Frame(pos, s, end, end))
            pos = end
        elif c in b"}]" or not (0x21 <= c <= 0x7E):
            raise NoFrameStructure(s, frames)
        else:  # plain value: run of printable ASCII, terminated by one whitespace byte
            i = s
            while i < n and 0x21 <= stream[i] <= 0x7E:
                i += 1
            if i == n:
                return frames, pos
            if stream[i] not in _WS:
                raise NoFrameStructure(i, frames)
            frames.append(Frame(pos, s, i, i + 1))
            pos = i + 1


def split_frames(cfg: Framing, stream: bytes) -> tuple[list[Frame], int]:
    """-> (complete frames in order, offset where the incomplete tail begins)"""
    if cfg.kind == "separator":
        return _split_separator(stream, cfg.separator)
    if cfg.kind == "fixed":
        return _split_fixed(stream, cfg.size)
    if cfg.kind == "json-raw":
        return _split_json_raw(stream)
    raise ValueError(cfg.kind)


# ------------------------------------------------------------------------------------------------ decoding
def decode_frame(cfg: Framing, stream: bytes, frame: Frame) -> tuple:
    data = stream[frame.start : frame.term_end] if cfg.decode_with_separator else stream[frame.start : frame.end]
    serializer = cfg.fresh()
    try:
        value = serializer.deserialize(data)
    except DeserializeError:
        return ("err", PARSE_ERROR)
    except Exception as exc:  # noqa: BLE001 -- not a parse error: never legal for network input (C06 territory)
        return ("crash", type(exc).__name__)
    return ("pkt", value)


def reference_outcomes(cfg: Framing, stream: bytes) -> list[tuple]:
    """Frame-by-frame decoding of ``stream``.  The incomplete tail (if any) yields nothing.

    Raises NoFrameStructure (json-raw) when the stream is outside the model's domain."""
    frames, _tail = split_frames(cfg, stream)
    return [decode_frame(cfg, stream, f) for f in frames]


# ------------------------------------------------------------------------------------------------ comparing
def strict_eq(a: Any, b: Any) -> bool:
    """value equality that does not identify 1, 1.0 and True"""
    if type(a) is not type(b):
        return False
    if isinstance(a, (list, tuple)):
        return len(a) == len(b) and all(strict_eq(x, y) for x, y in zip(a, b))
    if isinstance(a, dict):
        return list(a.keys()) == list(b.keys()) and all(strict_eq(a[k], b[k]) for k in a)
    return bool(a == b)


def same_outcome(a: tuple, b: tuple) -> bool:
    if a[0] != b[0]:
        return False
    if a[0] == "pkt":
        return strict_eq(a[1], b[1])
    return a[1] == b[1]


def same_outcomes(a: Sequence[tuple], b: Sequence[tuple]) -> bool:
    return len(a) == len(b) and all(same_outcome(x, y) for x, y in zip(a, b))


def safe_payload_max(limit: int, seplen: int) -> int:
    """Largest payload length that is *safely within* ``limit`` for separator framing (DESIGN C02 oracle 1):
    payload + separator <= limit - separator - 2.  Derived from the two scanners: the copy path
    (GeneratorStreamReader.read_until) accepts payload <= limit for every chunking, the buffer-filling path
    (_buffered_readuntil over a buffer of exactly `limit` bytes) accepts for every chunking iff
    payload + separator <= limit - 1; the margin stays strictly inside both."""
    return limit - 2 * seplen - 2


def explains(
    actual: Sequence[tuple],
    ref: Sequence[tuple],
    unsafe: Sequence[bool],
    junk_ok: Callable[[int, tuple], bool],
) -> bool:
    """DESIGN C02 oracle 2.  Can ``actual`` be read as: for every frame k in order, either its reference outcome
    ``ref[k]``, or -- only if ``unsafe[k]`` (band / oversized) -- ``>= 1`` limit error, then any number of outcomes
    accepted by ``junk_ok(k, outcome)`` (errors, or packets made exclusively of frame k's own bytes), and then the
    frames after k intact?  Nothing may follow the last frame."""
    n = len(ref)
    m = len(actual)
    memo: dict[tuple[int, int], bool] = {}

    def go(i: int, k: int) -> bool:
        key = (i, k)
        got = memo.get(key)
        if got is not None:
            return got
        res = False
        if k == n:
            res = i == m
        else:
            if i < m and same_outcome(actual[i], ref[k]) and go(i + 1, k + 1):
                res = True
            elif unsafe[k] and i < m and actual[i] == ("err", LIMIT_ERROR):
                j = i + 1
                while True:
                    if go(j, k + 1):
                        res = True
                        break
                    if j < m and junk_ok(k, actual[j]):
                        j += 1
                        continue
                    break
        memo[key] = res
        return res

    return go(0, 0)
