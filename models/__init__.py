"""Executable reference models (DESIGN §8): small, independent of the code under test except for one-shot decoding."""
