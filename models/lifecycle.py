"""Reference state machine for server lifecycle histories (DESIGN §4 C18).

Independent of asyncio, threads and of the code under test: it only sees a *history* — invoke / return events of
lifecycle calls plus a few observations, in the total order given by ``world.next_seq()`` — and answers one question:
**is there any behaviour of a correct server that explains this history?**

The abstract server is in one of the states ``stopped, starting, serving, stopping`` and carries a ``closed`` flag
(``stopped`` + ``closed`` is the state the design calls *closed*; the flag is separate because ``server_close`` may take
effect while a ``serve_forever`` is still winding down).  ``stopping`` has two internal flavours: STOPPING (was serving) and
ABORTING (a stop request arrived while still starting: the set-up window is still open, so ``server_close`` may still be
answered with BusyResourceError, the runner may still fail with ServerClosedError if it was closed meanwhile, and it may
still signal "up" for an instant before it stops).  Calls overlap, and where exactly a call takes effect between
its invoke and its return is unknown, so the model is *nondeterministic* and tracks the **set of configurations**
consistent with the history so far.  Every event filters that set; when it becomes empty, no correct server could
have produced the history and :class:`Inconsistent` is raised (with the clause that failed and the history).

Configuration = (phase, closed, runner, pending-ops) where ``runner`` is the ``serve_forever`` call that owns the
current non-stopped phase and every pending op has a small local state:

    serve_forever   new -> run -> ret_none                          returns None   (only after a stop request or a close)
                    new -> run -> fail_closed | new -> fail_closed  ServerClosedError (only if a server_close took effect)
                    new -> fail_running                             ServerAlreadyRunning (only while another one is not stopped)
    shutdown        new -> (wait, r) -> done   |   new -> done      returns None only once the runner it stopped is gone
                                                                    ("timed_out" — threaded shutdown(timeout) — once the stop request is made)
    server_close    new -> applied                                  returns None (closed flag set; serving -> stopping)
                    new -> busy                                     BusyResourceError, only while a serve_forever is starting
    client          new -> served                                   answered: the server was not stopped at some instant of the call
                    new -> failed                                   not answered: the server was NOT serving at some instant of the call

Silent transitions: starting -> serving (never when closed), starting+closed -> stopped (runner fails closed),
stopping/aborting -> stopped (runner returns None), aborting+closed -> stopped (runner fails closed).
``starting -> aborting`` and ``serving -> stopping`` need a shutdown (or, for serving, a close) to take effect.

Observations: ``observe_up(op)`` (the runner signalled "server is up": it is serving right now),
``observe_handler()`` (a request handler ran: not stopped right now — with several listeners the first one
already serves during the end of the set-up window), ``observe_is_serving(value)``.

What follows from the model (the clauses of the property): shutdown returns only after serving has fully stopped (after its
return, ``is_serving() == True`` or a handler event needs a serve_forever that was still pending); a stopped server serves
again unless closed; a closed server only answers ServerClosedError; a second overlapping serve_forever only
ServerAlreadyRunning; a client call that overlaps nothing but "serving" must be answered.

``atomic`` lists call kinds whose decision is taken synchronously at the invoke event (the asyncio servers run the
prologue of ``serve_forever`` and ``shutdown`` before their first suspension); for threaded servers leave it empty.
"""
from __future__ import annotations

from typing import Any, Iterable, Iterator, NamedTuple

STOPPED = "stopped"
STARTING = "starting"
SERVING = "serving"
STOPPING = "stopping"
ABORTING = "aborting"  # stop requested before the server was up; presented as "stopping"
CLOSED = "closed"  # presentation only: STOPPED with the closed flag

SERVE = "serve_forever"
SHUTDOWN = "shutdown"
CLOSE = "server_close"
CLIENT = "client"
IS_SERVING = "is_serving"  # as an interval call (threaded servers: the answer is computed in the server thread and travels back)
KINDS = (SERVE, SHUTDOWN, CLOSE, CLIENT, IS_SERVING)

# canonical outcome names
NONE = "None"
CLOSED_ERROR = "ServerClosedError"
RUNNING_ERROR = "ServerAlreadyRunning"
BUSY_ERROR = "BusyResourceError"
SERVED = "served"
FAILED = "failed"
TIMED_OUT = "timed_out"  # shutdown(timeout=...) of the threaded servers gave up waiting: allowed at any point, changes nothing


class Inconsistent(Exception):
    """No configuration of a correct server explains the history."""

    def __init__(self, clause: str, message: str, site: str):
        super().__init__(clause, message)
        self.clause = clause  # stable short name of what was violated
        self.message = message
        self.site = site  # "<kind>/<outcome>" or the observation name: usable in structural keys


class Config(NamedTuple):
    phase: str
    closed: bool
    runner: Any  # op id of the serve_forever owning the phase, None when stopped
    ops: tuple  # ((opid, kind, local_state), ...) pending ops in invoke order

    def state_name(self) -> str:
        if self.phase == ABORTING:
            return STOPPING
        return CLOSED if (self.closed and self.phase == STOPPED) else self.phase


def _set(ops: tuple, idx: int, st: Any) -> tuple:
    opid, kind, _ = ops[idx]
    return ops[:idx] + ((opid, kind, st),) + ops[idx + 1 :]


_TRUE_IN = (SERVING, STOPPING)
_FALSE_IN = (STOPPED, STARTING, STOPPING, ABORTING)


def _decide(c: Config, idx: int, allow_busy: bool, true_in: Iterable[str] = _TRUE_IN, false_in: Iterable[str] = _FALSE_IN) -> Iterator[Config]:
    """the transitions a pending op can take by itself"""
    phase, closed, runner, ops = c
    opid, kind, st = ops[idx]
    if kind == SERVE:
        if st == "new":
            if phase == STOPPED:
                yield Config(STARTING, closed, opid, _set(ops, idx, "run"))
            else:
                yield Config(phase, closed, runner, _set(ops, idx, "fail_running"))
            if closed:  # refused up front, whatever the previous serve_forever is still doing (standalone servers check this first)
                yield Config(phase, closed, runner, _set(ops, idx, "fail_closed"))
    elif kind == SHUTDOWN:
        if st == "new":
            if phase == STOPPED:
                yield Config(phase, closed, runner, _set(ops, idx, "done"))
            else:
                nxt = {STARTING: ABORTING, SERVING: STOPPING}.get(phase, phase)
                yield Config(nxt, closed, runner, _set(ops, idx, ("wait", runner)))
        elif isinstance(st, tuple) and st[1] != runner:
            yield Config(phase, closed, runner, _set(ops, idx, "done"))
    elif kind == CLOSE:
        if st == "new":
            if phase in (STARTING, ABORTING) and allow_busy:
                yield Config(phase, closed, runner, _set(ops, idx, "busy"))
            yield Config(STOPPING if phase == SERVING else phase, True, runner, _set(ops, idx, "applied"))
    elif kind == IS_SERVING:
        if st == "new":  # the value is the one of some instant between invoke and return
            if phase in true_in:
                yield Config(phase, closed, runner, _set(ops, idx, "True"))
            if phase in false_in:
                yield Config(phase, closed, runner, _set(ops, idx, "False"))
    elif kind == CLIENT:
        if st == "new":
            if phase != STOPPED:  # late start-up included: the first listener already serves while the next one is being started
                yield Config(phase, closed, runner, _set(ops, idx, SERVED))
            if phase != SERVING:
                yield Config(phase, closed, runner, _set(ops, idx, FAILED))


def _successors(c: Config, allow_busy: bool, true_in: Iterable[str] = _TRUE_IN, false_in: Iterable[str] = _FALSE_IN) -> Iterator[Config]:
    for idx in range(len(c.ops)):
        yield from _decide(c, idx, allow_busy, true_in, false_in)
    phase, closed, runner, ops = c
    if phase in (STARTING, STOPPING, ABORTING):
        ridx = next(i for i, o in enumerate(ops) if o[0] == runner)
        if phase == STARTING:
            if closed:
                yield Config(STOPPED, closed, None, _set(ops, ridx, "fail_closed"))
            else:
                yield Config(SERVING, closed, runner, ops)
        else:
            yield Config(STOPPED, closed, None, _set(ops, ridx, "ret_none"))
            if phase == ABORTING and closed:
                yield Config(STOPPED, closed, None, _set(ops, ridx, "fail_closed"))


_ALLOWED = {
    (SERVE, "ret_none"): (NONE,),
    (SERVE, "fail_closed"): (CLOSED_ERROR,),
    (SERVE, "fail_running"): (RUNNING_ERROR,),
    (SHUTDOWN, "done"): (NONE, TIMED_OUT),
    (SHUTDOWN, "wait"): (TIMED_OUT,),
    (CLOSE, "applied"): (NONE,),
    (CLOSE, "busy"): (BUSY_ERROR,),
    (CLIENT, SERVED): (SERVED,),
    (CLIENT, FAILED): (FAILED,),
    (IS_SERVING, "True"): ("True",),
    (IS_SERVING, "False"): ("False",),
}


class LifecycleModel:
    def __init__(self, *, atomic: Iterable[str] = (), allow_busy: bool = True, is_serving_true_in: Iterable[str] = (SERVING, STOPPING), is_serving_false_in: Iterable[str] = (STOPPED, STARTING, STOPPING, ABORTING)):
        self.atomic = frozenset(atomic)
        self.allow_busy = allow_busy
        self.true_in = frozenset(is_serving_true_in)
        self.false_in = frozenset(is_serving_false_in)
        self.configs: frozenset[Config] = frozenset({Config(STOPPED, False, None, ())})
        self.history: list[tuple] = []
        self.kinds: dict[Any, str] = {}
        self.close_invoked = False
        self.peak = 1

    # ------------------------------------------------------------------ internals
    def _closure(self, seeds: Iterable[Config]) -> frozenset[Config]:
        seen = set(seeds)
        todo = list(seen)
        while todo:
            c = todo.pop()
            for n in _successors(c, self.allow_busy, self.true_in, self.false_in):
                if n not in seen:
                    seen.add(n)
                    todo.append(n)
        self.peak = max(self.peak, len(seen))
        return frozenset(seen)

    def _describe(self, configs: Iterable[Config] | None = None) -> str:
        cs = sorted(self.configs if configs is None else configs, key=repr)
        return "; ".join(f"{c.state_name()}{'+closed' if c.closed and c.phase != STOPPED else ''} runner={c.runner} ops={[(o[0], o[2]) for o in c.ops]}" for c in cs[:12]) + (f" … ({len(cs)} configurations)" if len(cs) > 12 else "")

    def _fail(self, clause: str, site: str, what: str, before: frozenset[Config]) -> None:
        hist = " ".join(f"[{' '.join(str(x) for x in e)}]" for e in self.history[-40:])
        raise Inconsistent(clause, f"{what}\n configurations before the event: {self._describe(before)}\n history: {hist}", site)

    def _filter(self, pred, clause: str, site: str, what: str) -> None:
        before = self.configs
        kept = frozenset(c for c in before if pred(c))
        if not kept:
            self._fail(clause, site, what, before)
        self.configs = self._closure(kept)

    # ------------------------------------------------------------------ events
    def invoke(self, opid: Any, kind: str, seq: Any = None) -> None:
        if kind not in KINDS:
            raise ValueError(kind)
        self.history.append(("inv", opid, kind) if seq is None else (seq, "inv", opid, kind))
        self.kinds[opid] = kind
        if kind == CLOSE:
            self.close_invoked = True
        out = set()
        for c in self.configs:
            n = Config(c.phase, c.closed, c.runner, c.ops + ((opid, kind, "new"),))
            if kind in self.atomic and kind in (SERVE, SHUTDOWN):
                out.update(_decide(n, len(n.ops) - 1, self.allow_busy, self.true_in, self.false_in))
            else:
                out.add(n)
        self.configs = self._closure(out)

    def ret(self, opid: Any, outcome: str, seq: Any = None) -> None:
        kind = self.kinds[opid]
        self.history.append(("ret", opid, kind, outcome) if seq is None else (seq, "ret", opid, kind, outcome))
        before = self.configs
        out = set()
        for c in before:
            for i, (oid, k, st) in enumerate(c.ops):
                if oid == opid:
                    key = (k, st if not isinstance(st, tuple) else st[0])
                    if outcome in _ALLOWED.get(key, ()):
                        out.add(Config(c.phase, c.closed, c.runner, c.ops[:i] + c.ops[i + 1 :]))
                    break
        if not out:
            self._fail(self._clause_for(kind, outcome), f"{kind}/{outcome}", f"{kind}#{opid} ended with {outcome}, which no correct server could produce at this point", before)
        self.configs = self._closure(out)

    @staticmethod
    def _clause_for(kind: str, outcome: str) -> str:
        if kind == SERVE and outcome == CLOSED_ERROR:
            return "ServerClosedError-only-after-server_close"
        if kind == SERVE and outcome == RUNNING_ERROR:
            return "ServerAlreadyRunning-only-while-another-serve_forever-runs"
        if kind == SERVE and outcome == NONE:
            return "serve_forever-returns-only-when-stopped-or-closed"
        if kind == SHUTDOWN and outcome == NONE:
            return "shutdown-returns-only-after-serving-stopped"
        if kind == CLOSE and outcome == BUSY_ERROR:
            return "BusyResourceError-only-during-serve_forever-setup"
        if kind == CLIENT and outcome == FAILED:
            return "serving-server-answers-clients"
        if kind == CLIENT and outcome == SERVED:
            return "client-answered-only-while-serving"
        if kind == IS_SERVING:
            return "is_serving-consistent-with-lifecycle"
        return "outcome-not-allowed"

    def observe_up(self, opid: Any, seq: Any = None) -> None:
        self.history.append(("up", opid) if seq is None else (seq, "up", opid))
        before = self.configs
        kept = set()
        for c in before:
            if c.runner != opid:
                continue
            if c.phase == SERVING:
                kept.add(c)
            elif c.phase == ABORTING and not c.closed:  # up for an instant, the pending stop request wins right after
                kept.add(Config(STOPPING, c.closed, c.runner, c.ops))
        if not kept:
            self._fail("up-only-for-the-single-running-unclosed-serve_forever", "up", f"serve_forever#{opid} signalled that the server is up", before)
        self.configs = self._closure(kept)

    def observe_handler(self, seq: Any = None) -> None:
        self.history.append(("handler",) if seq is None else (seq, "handler"))
        # a handler may already run in the late set-up window (several listeners are started one after the other), never while stopped
        self._filter(lambda c: c.phase != STOPPED, "no-handler-activity-while-stopped", "handler", "a request handler ran")

    def observe_not_stopped(self, what: str = "listener-open", seq: Any = None) -> None:
        """evidence that some serve_forever is between its start and its end right now (e.g. the standalone servers own a
        listener socket only from the set-up to the tear-down of one serve_forever call)"""
        self.history.append((what,) if seq is None else (seq, what))
        self._filter(lambda c: c.phase != STOPPED, "listener-exists-only-while-a-serve_forever-is-in-progress", what, f"{what}: a serve_forever must be in progress")

    def observe_is_serving(self, value: bool, seq: Any = None) -> None:
        self.history.append(("is_serving", value) if seq is None else (seq, "is_serving", value))
        allowed = self.true_in if value else self.false_in
        self._filter(lambda c: c.phase in allowed, "is_serving-consistent-with-lifecycle", f"is_serving/{value}", f"is_serving() returned {value}")

    # ------------------------------------------------------------------ queries
    def possible_states(self) -> list[str]:
        return sorted({c.state_name() for c in self.configs})

    def certainly(self, *states: str) -> bool:
        return all(c.state_name() in states for c in self.configs)

    def possibly(self, *states: str) -> bool:
        return any(c.state_name() in states for c in self.configs)

    def certainly_closed(self) -> bool:
        return all(c.closed for c in self.configs)

    def possibly_closed(self) -> bool:
        return any(c.closed for c in self.configs)

    def pending(self) -> list[tuple]:
        c = next(iter(sorted(self.configs, key=repr)))
        return [(o[0], o[1]) for o in c.ops]
