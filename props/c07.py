"""C07 — receive buffering is bounded by the configured limit (DESIGN §4 C07).

Actor: a peer that (a) sends 0..6 complete frames, every one *safely under* the limit, arriving alone, back-to-back or
several per read (read sizes below and above the limit), and/or (b) then never terminates a frame (slow loris): an
unterminated payload of 0 … limit + separator + read size (+ a little) bytes.  All chunkings, limits 8..4096,
separators of 1-3 bytes, both receive paths (copy: StreamDataConsumer, fill: BufferedStreamDataConsumer).

Oracle (behavioural, exactly the property; no peeking into generator frames):
 * bound       U = unterminated bytes fed since the last frame boundary (or since the last limit error), r = size of
               the last read: if U > limit + len(separator) + r, a LimitOverrunError must already have been raised;
 * buffer-size BufferedStreamDataConsumer.buffer_size <= limit (what these serializers document);
 * under-limit-rejected  a frame of size <= limit - separator - 2 is never answered with LimitOverrunError, whatever
               else is in the same read.
Nothing else is demanded (which packets come out is C01/C02).
"""
from __future__ import annotations

import bisect
import contextlib
import dataclasses
import math
import pickle
import tracemalloc
from typing import IO, Any, Callable

from easynetwork.exceptions import DeserializeError
from easynetwork.protocol import BufferedStreamProtocol, StreamProtocol
from easynetwork.serializers.base_stream import AutoSeparatedPacketSerializer, FileBasedPacketSerializer
from easynetwork.serializers.json import JSONSerializer
from easynetwork.serializers.line import StringLineSerializer

from easynetwork.lowlevel.api_sync.endpoints.stream import StreamEndpoint
from easynetwork.lowlevel.api_sync.transports.socket import SocketStreamTransport

from models.frames import LIMIT_ERROR
from props.c01 import AsyncEndpointDriver, SyncEndpointDriver
from vsim.chunk import CopyDriver, FillDriver, _classify, cuts_to_chunks, gen_cuts
from vsim.harness import Peer, sync_engine
from vsim.runner import Harness
from vsim.sock import Delivery, SimNet
from vsim.world import HarnessError, Violation, World

PROPERTY = "C07"
LEVEL = "exploration"
RULE = (
    "one run = 0-6 complete frames safely under the limit (size <= limit - separator - 2, biased to the edge of that margin) "
    "followed by an optional never-terminated payload of 0..limit+separator+read size(+8) bytes; families: separator-framed "
    "(minimal AutoSeparatedPacketSerializer subclass and StringLineSerializer, separators of 1-3 bytes), JSON lines, raw JSON "
    "(objects, arrays, strings, plain values, deep nesting, whitespace), file-based (pickle-backed FileBasedPacketSerializer "
    "subclass with a restricted Unpickler); limits 8..96 (dense), 100..512, 1000..4096; read policies {whole stream, byte-by-byte, "
    "fixed size incl. limit-1/limit/limit+1/2*limit+3, one frame per read, k frames per read, random sizes, structural cuts at frame ends}; "
    "copy path and buffer-filling path (size hints 1..16384, short fills); a run is non-trivial when the stream was fragmented and "
    ">=1 frame was delivered; tier T2 (~19 % of the runs): the same reads through SimNet into the real endpoint receive loops -- blocking StreamEndpoint observed after every read (same oracle), and C01's deferred sync/async endpoint drivers (order-based under-limit clause, bound evaluated at the end of the run with one read = max_recv_size resp. the consumer's buffer)"
)
COMPONENTS_REAL = [
    "easynetwork.serializers.tools.GeneratorStreamReader.read_until",
    "easynetwork.serializers.base_stream (_buffered_readuntil, AutoSeparatedPacketSerializer, FileBasedPacketSerializer)",
    "easynetwork.serializers.json (_JSONParser.raw_parse), easynetwork.serializers.line",
    "easynetwork.protocol",
    "easynetwork.lowlevel._stream consumers",
    "T2: easynetwork.lowlevel.api_sync.endpoints.stream.StreamEndpoint + SocketStreamTransport, api_async.endpoints.stream.AsyncStreamEndpoint + asyncio stream adapter",
]
COMPONENTS_STUB = ["the network: replaced by the list of reads of the byte stream (T1)", "T2: SimSocket / SimSelector / SimEventLoop, scripted peer, virtual clock"]
ASSUMPTIONS = [
    "held memory is observed behaviourally (limit error raised or not, buffer_size), not by inspecting suspended generators",
    "the file-based family is a pickle (protocol 2) backed FileBasedPacketSerializer subclass; cbor2/msgpack are not installed",
    "JSONSerializer is not a buffered serializer: the JSON families only have the copy path",
    "after the first limit error on a never-terminated raw-JSON or pickle payload the run stops: what follows has no frame structure",
]

LOW = b"abcdefgh"
HINTS = [1024, 1, 2, 3, 5, 8, 16, 64, 16384]
MAX_READS = 320


# =================================================================================================== serializers under test
class BytesFramesSerializer(AutoSeparatedPacketSerializer[bytes, bytes]):
    """minimal AutoSeparatedPacketSerializer subclass: packets are the frames themselves"""

    __slots__ = ()

    def serialize(self, packet: bytes) -> bytes:
        return bytes(packet)

    def deserialize(self, data: bytes) -> bytes:
        if b"\xff" in data:
            raise DeserializeError("forbidden byte in frame")
        return bytes(data)


class _NoGlobalsUnpickler(pickle.Unpickler):
    def find_class(self, module: str, name: str) -> Any:
        raise pickle.UnpicklingError(f"global {module}.{name} is forbidden")


class PickleFileSerializer(FileBasedPacketSerializer[Any, Any]):
    """pickle-backed FileBasedPacketSerializer subclass (stands in for the CBOR / MessagePack serializers)"""

    __slots__ = ()

    def __init__(self, limit: int) -> None:
        super().__init__(expected_load_error=(pickle.UnpicklingError, ValueError, IndexError, KeyError, TypeError, AttributeError), limit=limit)

    def dump_to_file(self, packet: Any, file: IO[bytes]) -> None:
        pickle.dump(packet, file, protocol=2)

    def load_from_file(self, file: IO[bytes]) -> Any:
        try:
            return _NoGlobalsUnpickler(file).load()
        except pickle.UnpicklingError as exc:
            if "truncated" in str(exc):  # the C unpickler reports running out of input inside an opcode this way
                raise EOFError from None
            raise


# =================================================================================================== drivers (pluggable)
def _drv_copy(protocol: Any, world: World):
    return CopyDriver(protocol, world)


def _drv_fill(protocol: Any, world: World):
    hint = world.pick("hint", HINTS)
    return FillDriver(protocol, hint, world, fill_mode=world.choose("fill_mode", 2))


PATHS: dict[str, tuple[Callable[[Any], Any], Callable[[Any, World], Any]]] = {
    "copy": (StreamProtocol, _drv_copy),
    "fill": (BufferedStreamProtocol, _drv_fill),
}


# --------------------------------------------------------------------------------------------------- tier T2
class SyncEndpointFeed:
    """The same reads through a SimNet link into the real blocking receive loop, observed after every read:
    StreamEndpoint(SocketStreamTransport(SimSocket)) under the sync engine; feed(chunk) makes exactly that chunk visible
    on the socket (Delivery(frag=5), pipe.deliver(n)) and then calls recv_packet(timeout=0) until TimeoutError.
    Same surface as vsim.chunk drivers (feed / out / fed / on_outcome / max_buffer_size) plus close().
    `fed` at the time of an outcome = bytes the endpoint has taken off the socket so far."""

    def __init__(self, protocol: Any, world: World):
        self.world = world
        self.out: list[tuple] = []
        self.fed = 0
        self.on_outcome: Callable[[tuple, Any], None] | None = None
        self.max_buffer_size = 0
        self.mrs = world.pick("max_recv_size", HINTS)
        retry = world.pick("retry_interval", [math.inf, 1.0, 1 / 64])
        world.notes.update(max_recv_size=self.mrs, retry_interval=str(retry))
        self._stack = contextlib.ExitStack()
        net = SimNet(world)
        self.lib, self.ps = net.socketpair(delivery_ba=Delivery(frag=5))
        self.peer = Peer(world, self.ps)
        make_selector = self._stack.enter_context(sync_engine(world))
        self.endpoint = StreamEndpoint(SocketStreamTransport(self.lib, retry, selector_factory=make_selector), protocol, self.mrs)
        self._stack.callback(self.endpoint.close)
        self.written = 0

    def _emit(self, o: tuple) -> None:
        self.fed = self.lib.rx_pipe.total_read
        self.out.append(o)
        self.world.log(o[0], o[1] if o[0] != "pkt" else "")
        if self.on_outcome is not None:
            self.on_outcome(o, self)

    def feed(self, chunk: bytes) -> None:
        self.peer.write(chunk)
        self.ps.tx_pipe.deliver(len(chunk))
        self.written += len(chunk)
        cap = len(self.out) + len(chunk) + self.written + 8
        while len(self.out) <= cap:
            before = (len(self.lib.rx_pipe.rx), len(self.out))
            try:
                pkt = self.endpoint.recv_packet(timeout=0)
            except TimeoutError:
                # a zero timeout is one poll; nothing says one call drains the socket: poll again while that makes progress
                if not self.lib.rx_pipe.rx or (len(self.lib.rx_pipe.rx), len(self.out)) == before:
                    break
            except (Violation, HarnessError):
                raise
            except BaseException as exc:  # noqa: BLE001
                o = _classify(exc)
                self._emit(o)
                if o[0] == "crash":
                    return
            else:
                self._emit(("pkt", pkt))
        else:
            self._emit(("crash", "Spin", None, "recv_packet(timeout=0) keeps producing outcomes"))
            return
        self.fed = self.lib.rx_pipe.total_read
        try:
            consumer = self.endpoint._StreamEndpoint__receiver.consumer
        except AttributeError as exc:  # private layout changed: update the harness, do not weaken silently
            raise HarnessError(f"cannot reach the endpoint's consumer: {exc}") from None
        self.max_buffer_size = max(self.max_buffer_size, getattr(consumer, "buffer_size", 0))

    def close(self) -> None:
        self._stack.close()


class _C07SyncEndpointDriver(SyncEndpointDriver):  # C01's deferred drivers, reused by import (poll and blocking modes)
    stop_on_parse_error = False


class _C07AsyncEndpointDriver(AsyncEndpointDriver):  # AsyncStreamEndpoint on SimEventLoop (gaps, head start, slow receiver)
    stop_on_parse_error = False


# observed after every read (same oracle as T1)
T2_LIVE_PATHS: dict[str, tuple[Callable[[Any], Any], Callable[[Any, World], Any]]] = {
    "t2sync-copy": (StreamProtocol, SyncEndpointFeed),
    "t2sync-fill": (BufferedStreamProtocol, SyncEndpointFeed),
}
# deferred: the whole scenario runs in finish(); order-based oracle + the bound evaluated at the end of the run
T2_DEFERRED_PATHS: dict[str, tuple[Callable[[Any], Any], Callable[[Any, World], Any]]] = {
    "t2blk-copy": (StreamProtocol, lambda protocol, world: _C07SyncEndpointDriver(protocol, world, False)),
    "t2blk-fill": (BufferedStreamProtocol, lambda protocol, world: _C07SyncEndpointDriver(protocol, world, False)),
    "t2aio-copy": (StreamProtocol, lambda protocol, world: _C07AsyncEndpointDriver(protocol, world, False)),
    "t2aio-fill": (BufferedStreamProtocol, lambda protocol, world: _C07AsyncEndpointDriver(protocol, world, False)),
}
PATHS.update(T2_LIVE_PATHS)
PATHS.update(T2_DEFERRED_PATHS)
T2_MAX_READS = 96


# =================================================================================================== workload
@dataclasses.dataclass
class Case:
    family: str
    desc: str
    make: Callable[[], Any]
    limit: int
    seplen: int  # 0 for self-delimited framings
    frames: list[bytes]  # complete frames incl. terminator, every one safely under the limit
    tail: bytes  # never-terminated payload
    stop_at_tail_error: bool = False
    # raw JSON: insignificant whitespace that follows a document in the same read is consumed together with it, so the
    # unterminated bytes are counted from the end of the read that completed the last document
    count_from_delivery: bool = False


def _draw_limit(world: World, lo: int = 8) -> int:
    cls = world.choose("limit_class", 10)
    if cls <= 6:
        return lo + world.choose("limit", 97 - lo)
    if cls <= 8:
        return world.pick("limit_mid", [100, 128, 255, 256, 257, 512])
    return world.pick("limit_big", [1000, 1024, 2048, 4096])


def _draw_size(world: World, lo: int, hi: int) -> int:
    """a frame size in lo..hi, biased to the top (the edge of the safety margin); 0 => smallest"""
    if hi <= lo:
        return hi
    if world.chance("at_edge", 1, 3):
        return hi - world.choose("below_edge", min(4, hi - lo + 1))
    return lo + world.choose("size", hi - lo + 1)


def _draw_shape(world: World) -> tuple[int, int]:
    """(max number of complete frames, tail class): 0 none, 1 short (<= safe), 2 band, 3 beyond the bound"""
    mode = world.choose("workload", 3)
    if mode == 0:  # converse workload only
        return 6, 0
    if mode == 1:  # slow loris only
        return 0, 1 + world.choose("tail_class", 3)
    return 6, 1 + world.choose("tail_class", 3)


def _more_frames(world: World, have: int, max_frames: int) -> bool:
    """1..max_frames frames, drawn as a stop/continue flag per frame (0 = stop): the minimiser can delete one frame's choices"""
    if have >= max_frames:
        return False
    if have == 0:
        return True
    return world.choose("more_frames", 4) > 0


def _tail_len(world: World, tail_class: int, limit: int, seplen: int, safe: int) -> int:
    if tail_class == 0:
        return 0
    if tail_class == 1:
        return world.choose("tail_len", max(1, safe + 1))
    if tail_class == 2:
        return safe + 1 + world.choose("tail_len", max(1, limit + seplen - safe))
    read = world.pick("tail_read_size", [1, 2, 3, 8, 64, limit // 2 + 1, limit, limit + 3])
    return limit + seplen + 1 + world.choose("tail_len", read + 8)


def _no_sep(p: bytearray, sep: bytes, filler: bytes) -> bytes:
    """remove every occurrence of sep from p (and from p + sep[:-1] + … i.e. p never *ends* the separator either)"""
    guard = 0
    while True:
        i = bytes(p).find(sep)
        if i < 0:
            return bytes(p)
        j = i + len(sep) - 1
        p[j] = filler[0] if sep[-1] != filler[0] else filler[1]
        guard += 1
        if guard > 4 * len(p) + 8:
            raise HarnessError(f"cannot remove {sep!r}")


_SEPS = [b"\n", b"\r\n", b"<>!", b"|", b"::", b"aab", b"\x00", b"\x00\x00\x01"]


def _gen_sep(world: World) -> Case:
    variant = world.pick("variant", ["autosep", "line"])
    if variant == "autosep":
        sep = world.pick("separator", _SEPS)
    else:
        newline = world.pick("newline", ["LF", "CRLF", "CR"])
        sep = {"LF": b"\n", "CR": b"\r", "CRLF": b"\r\n"}[newline]
    seplen = len(sep)
    limit = _draw_limit(world)
    safe = limit - seplen - 2  # frame size (payload + separator) safely under the limit
    nframes, tail_class = _draw_shape(world)
    rng = world.sub_rng("filler")
    units = [bytes([b]) for b in LOW] + [sep[:k] for k in range(1, seplen)]
    filler = bytes(b for b in LOW if b not in sep) or b"gh"

    def payload(n: int) -> bytes:
        out = bytearray()
        while len(out) < n:
            u = rng.choice(units)
            out += u[: n - len(out)]
        p = bytearray(_no_sep(out, sep, filler))
        # the only separator occurrence in payload+sep must be the terminator
        while n and (bytes(p) + sep).find(sep) != n:
            p[-1] = filler[0]
        return bytes(p)

    frames = []
    while _more_frames(world, len(frames), nframes):
        if safe < seplen:
            break
        size = _draw_size(world, seplen, safe)
        frames.append(payload(size - seplen) + sep)
    tail = payload(_tail_len(world, tail_class, limit, seplen, max(0, safe - seplen)))
    if variant == "autosep":

        def make():
            return BytesFramesSerializer(sep, limit=limit)

        desc = f"BytesFramesSerializer(separator={sep!r}, limit={limit})"
    else:

        def make():
            return StringLineSerializer(newline, limit=limit, encoding="latin-1")

        desc = f"StringLineSerializer({newline!r}, limit={limit}, encoding='latin-1')"
    return Case("sep", desc, make, limit, seplen, frames, tail)


def _json_doc(rng, size: int, *, plain_ok: bool) -> bytes:
    """a valid JSON document of exactly `size` bytes (size >= 2), self-delimited unless plain (then it ends with \\n)"""
    shape = rng.choice(["str", "list", "obj", "plain"] if plain_ok else ["str", "list", "obj"])
    if shape == "plain" and size <= 16:
        return b"1" * (size - 1) + b"\n"
    if shape == "obj" and size >= 8:
        return b'{"k":"' + bytes(rng.choice(LOW) for _ in range(size - 8)) + b'"}'
    if shape == "list" and size >= 3:
        body = b",".join([b"1"] * ((size - 1) // 2))
        pad = size - 2 - len(body)
        return b"[" + body + b" " * pad + b"]"
    return b'"' + bytes(rng.choice(LOW) for _ in range(size - 2)) + b'"'


def _json_tail(rng, n: int, *, raw: bool) -> bytes:
    shapes = ["str", "list", "obj"] + (["digits", "nest", "ws", "str-esc"] if raw else [])
    shape = rng.choice(shapes)
    if shape == "str":
        t = b'"' + bytes(rng.choice(LOW) for _ in range(n))
    elif shape == "list":
        t = b"[" + b"1," * n
    elif shape == "obj":
        t = b'{"k":"' + bytes(rng.choice(LOW) for _ in range(n))
    elif shape == "digits":
        t = b"1" * n
    elif shape == "nest":
        t = b"[" * n
    elif shape == "ws":
        t = bytes(rng.choice(b" \n\t\r") for _ in range(n))
    else:
        t = b'"' + b'\\"' * n
    return t[:n]


def _gen_jsonl(world: World) -> Case:
    limit = _draw_limit(world)
    safe = limit - 1 - 2
    nframes, tail_class = _draw_shape(world)
    rng = world.sub_rng("filler")
    frames = []
    while _more_frames(world, len(frames), nframes):
        size = _draw_size(world, 3, safe)
        frames.append(_json_doc(rng, size - 1, plain_ok=False) + b"\n")
    tail = _json_tail(rng, _tail_len(world, tail_class, limit, 1, max(0, safe - 1)), raw=False)

    def make():
        return JSONSerializer(limit=limit, use_lines=True)

    return Case("jsonl", f"JSONSerializer(limit={limit}, use_lines=True)", make, limit, 1, frames, tail)


def _gen_jsonraw(world: World) -> Case:
    limit = _draw_limit(world)
    safe = limit - 2
    nframes, tail_class = _draw_shape(world)
    rng = world.sub_rng("filler")
    frames = []
    while _more_frames(world, len(frames), nframes):
        size = _draw_size(world, 2, safe)
        frames.append(_json_doc(rng, size, plain_ok=True))
    tail = _json_tail(rng, _tail_len(world, tail_class, limit, 0, safe), raw=True)

    def make():
        return JSONSerializer(limit=limit, use_lines=False)

    return Case("jsonraw", f"JSONSerializer(limit={limit}, use_lines=False)", make, limit, 0, frames, tail, stop_at_tail_error=True, count_from_delivery=True)


def _pickle_frame(size: int) -> bytes:
    """a protocol-2 pickle of exactly `size` bytes when possible (5, 6, 8, >= 10), else the next smaller one"""
    if size >= 10:
        data = pickle.dumps("x" * (size - 10), protocol=2)
    elif size >= 8:
        data = pickle.dumps(0x12345678, protocol=2)
    elif size >= 6:
        data = pickle.dumps(0x1234, protocol=2)
    else:
        data = pickle.dumps(7, protocol=2)
    if len(data) > size or len(data) < 5:
        raise HarnessError(f"pickle frame of {len(data)} bytes for requested size {size}")
    return data


def _gen_filebased(world: World) -> Case:
    limit = _draw_limit(world)
    safe = limit - 2
    nframes, tail_class = _draw_shape(world)
    frames = []
    while _more_frames(world, len(frames), nframes):
        frames.append(_pickle_frame(_draw_size(world, 5, safe)))
    n = _tail_len(world, tail_class, limit, 0, safe)
    tail = pickle.dumps("y" * (n + 16), protocol=2)[:n]

    def make():
        return PickleFileSerializer(limit)

    return Case("filebased", f"PickleFileSerializer(limit={limit}) [FileBasedPacketSerializer, pickle protocol 2]", make, limit, 0, frames, tail, stop_at_tail_error=True)


GENERATORS: dict[str, Callable[[World], Case]] = {
    "sep": _gen_sep,
    "jsonl": _gen_jsonl,
    "jsonraw": _gen_jsonraw,
    "filebased": _gen_filebased,
}


# =================================================================================================== reads
def _gen_reads(world: World, case: Case, stream: bytes, ends: list[int]) -> list[bytes]:
    n = len(stream)
    if n == 0:
        return []
    limit = case.limit
    policy = world.choose("read_policy", 8)
    min_size = max(1, -(-n // MAX_READS))  # keep the number of reads bounded
    if policy == 0:  # whole stream in one read (far above the limit for long streams)
        return [stream]
    world.fault("frag")
    if policy == 1:  # byte by byte (or the smallest size that keeps the run bounded)
        size = min_size
        return [stream[i : i + size] for i in range(0, n, size)]
    if policy == 2:  # fixed read size, below / at / above the limit
        size = world.pick("read_size", [2, 1, 3, 5, 8, 16, 64, limit - 1, limit, limit + 1, 2 * limit + 3, limit // 2])
        size = max(size, min_size, 1)
        return [stream[i : i + size] for i in range(0, n, size)]
    if policy == 3 and ends:  # every frame arrives alone; then the tail in pieces
        cuts = list(ends)
        size = max(min_size, 1 + world.choose("tail_read", 64))
        cuts.extend(range(ends[-1] + size, n, size))
        return cuts_to_chunks(stream, cuts)
    if policy == 4 and ends:  # several frames per read
        k = 2 + world.choose("frames_per_read", 4)
        cuts = ends[k - 1 :: k]
        size = max(min_size, 1 + world.choose("tail_read", 2 * limit))
        cuts = list(cuts) + list(range(ends[-1] + size, n, size))
        return cuts_to_chunks(stream, cuts)
    if policy == 5:  # random read sizes
        top = world.pick("read_max", [4, 16, limit, 2 * limit + 2])
        out = []
        pos = 0
        while pos < n:
            size = max(min_size, 1 + world.choose("read", max(1, top)))
            out.append(stream[pos : pos + size])
            pos += size
        return out
    # 6, 7 (and 3/4 without complete frames): the C01/C02 cut families with structural cuts at the frame ends
    structural = []
    for e in ends:
        structural.extend((e - case.seplen, e - 1, e))
    chunks = cuts_to_chunks(stream, gen_cuts(world, n, structural))
    if len(chunks) > MAX_READS:
        size = min_size
        chunks = [stream[i : i + size] for i in range(0, n, size)]
    return chunks


# =================================================================================================== harness
def run_case(world: World, family: str, path: str) -> None:
    """one simulated execution; one run in 64 (a pure function of the seed) also records the tracemalloc peak as a metric"""
    sample = world.seed % 64 == 0 and not tracemalloc.is_tracing()
    if sample:
        tracemalloc.start()
    try:
        _run_case(world, family, path)
    finally:
        if sample:
            peak = tracemalloc.get_traced_memory()[1]
            tracemalloc.stop()
            world.counters["tracemalloc_sampled_runs"] += 1
            world.counters["tracemalloc_peak_bytes_sum"] += peak


def evidence_extra(merged: dict) -> dict:
    n = merged["counters"].get("tracemalloc_sampled_runs", 0)
    total = merged["counters"].get("tracemalloc_peak_bytes_sum", 0)
    return {"tracemalloc_mean_peak_bytes_per_sampled_run": (total // n) if n else None, "tracemalloc_sampled_runs": n}


def _run_case(world: World, family: str, path: str) -> None:
    case = GENERATORS[family](world)
    limit, seplen = case.limit, case.seplen
    stream = b"".join(case.frames) + case.tail
    ends: list[int] = []
    pos = 0
    for f in case.frames:
        if len(f) > limit - seplen - 2:
            raise HarnessError(f"generated frame of {len(f)} bytes is not safely under limit {limit} (separator {seplen})")
        pos += len(f)
        ends.append(pos)
    starts = [0] + ends
    nframes = len(case.frames)
    chunks = _gen_reads(world, case, stream, ends)
    if path in T2_LIVE_PATHS or path in T2_DEFERRED_PATHS:
        while len(chunks) > T2_MAX_READS:  # one read = one socket delivery + >= 1 recv_packet(): keep a run at a few ms
            chunks = [b"".join(chunks[i : i + 2]) for i in range(0, len(chunks), 2)]
    # D8 (file-based: several small frames in one read larger than the limit were rejected) is fixed in /repo (ff67c53):
    # multi-frame reads above the limit are generated in every run, for every family; a regression is reported under
    # the same key C07/filebased/<path>/under-limit-rejected/multi-frame-read.
    wrap, make_driver = PATHS[path]
    drv = make_driver(wrap(case.make()), world)
    try:
        if path in T2_DEFERRED_PATHS:
            _check_deferred(world, case, family, path, drv, chunks, ends)
        else:
            _check_live(world, case, family, path, drv, chunks, ends)
    finally:
        close = getattr(drv, "close", None)
        if close is not None:
            close()


def _check_deferred(world: World, case: Case, family: str, path: str, drv: Any, chunks: list[bytes], ends: list[int]) -> None:
    """T2 through C01's deferred drivers: everything happens in finish().  What is observable is the *order* of outcomes,
    so: (under-limit-rejected) no limit error before all complete frames came out; (bound) at the end of the run, when
    every byte has been read, a tail of more than limit + separator + one read must have produced a limit error, where
    one read <= max_recv_size on the copy path and <= the consumer's buffer (<= limit) on the buffer-filling path."""
    limit, seplen = case.limit, case.seplen
    nframes = len(case.frames)
    starts = [0] + ends
    total = sum(len(c) for c in chunks)
    sizes = [len(c) for c in chunks]
    for c in chunks:
        drv.feed(c)
    drv.finish()
    out = drv.out
    t2 = {k: world.notes[k] for k in ("max_recv_size", "t2_mode", "retry_interval", "gap", "head_start", "slow_receiver") if k in world.notes}
    world.notes.update(serializer=case.desc, frame_sizes=[len(f) for f in case.frames], tail=len(case.tail), reads=sizes[:40], path=path)
    site = f"{family}/{path}"
    ctx = (
        f"{case.desc} path={path} {t2}\n frame sizes={[len(f) for f in case.frames]} (all <= limit-separator-2={limit - seplen - 2}) "
        f"unterminated tail={len(case.tail)} bytes\n deliveries={sizes}\n frames={case.frames}\n tail={case.tail[:80]!r}\n"
        f" outcomes={[(o[0], o[1] if o[0] != 'pkt' else '…') for o in out]}"
    )
    delivered = 0
    tail_errors = 0
    for o in out:
        if o[0] == "crash":
            raise Violation("no-crash", f"{o} escaped; {ctx}", key=f"C07/{site}/crash/{o[1]}")
        if o == ("err", LIMIT_ERROR):
            world.probe("limit-error-raised")
            if delivered < nframes:
                where = "multi-frame-read" if total - starts[delivered] > limit else "buffered-within-limit"
                raise Violation(
                    "under-limit-rejected",
                    f"frame #{delivered} ({len(case.frames[delivered])} bytes, safely under limit {limit}) was answered with LimitOverrunError; {ctx}",
                    key=f"C07/{site}/under-limit-rejected/{where}",
                )
            tail_errors += 1
            if case.stop_at_tail_error:
                break  # what follows has no frame structure
        else:
            delivered += 1
    mrs = world.notes.get("max_recv_size")
    if not isinstance(mrs, int):
        raise HarnessError("the T2 driver did not report max_recv_size")
    one_read = mrs if path.endswith("-copy") else limit
    slack = one_read if case.count_from_delivery else 0  # raw JSON: whitespace read together with the last document
    if len(case.tail) > limit + seplen + one_read + slack:
        world.probe("t2-tail-beyond-bound")
        if tail_errors == 0 and delivered >= nframes:
            raise Violation(
                "bound",
                f"{len(case.tail)} unterminated bytes were read (> limit {limit} + separator {seplen} + one read {one_read}) and no LimitOverrunError was raised; {ctx}",
                key=f"C07/{site}/unbounded",
            )
    world.log("run", path, family, nframes, len(case.tail), len(chunks), tuple(o[0] for o in out))
    world.progress(sum(1 for o in out if o[0] == "pkt"))
    if len(chunks) > 1:
        world.fault("frag")


def _check_live(world: World, case: Case, family: str, path: str, drv: Any, chunks: list[bytes], ends: list[int]) -> None:
    limit, seplen = case.limit, case.seplen
    starts = [0] + ends
    nframes = len(case.frames)
    events: list[tuple[tuple, int]] = []
    drv.on_outcome = lambda o, d: events.append((o, d.fed))

    sizes = [len(c) for c in chunks]
    world.notes.update(serializer=case.desc, frame_sizes=[len(f) for f in case.frames], tail=len(case.tail), reads=sizes[:40], path=path)
    site = f"{family}/{path}"

    def ctx() -> str:
        return (
            f"{case.desc} path={path} { {k: world.notes[k] for k in ('max_recv_size', 'retry_interval') if k in world.notes} or ''}\n"
            f" frame sizes={[len(f) for f in case.frames]} (all <= limit-separator-2={limit - seplen - 2}) "
            f"unterminated tail={len(case.tail)} bytes\n reads={sizes}\n frames={case.frames}\n tail={case.tail[:80]!r}\n"
            f" outcomes so far={[(o[0], o[1] if o[0] != 'pkt' else '…', at) for o, at in events]}"
        )

    delivered = 0  # frames consumed so far (a packet or a non-limit error each)
    last_error_at = 0  # stream offset at which the last limit error was raised
    last_delivery_at = 0  # stream offset (end of the read) at which the last frame was delivered
    fed = 0
    stop = False
    for chunk in chunks:
        seen = len(events)
        drv.feed(chunk)
        fed += len(chunk)
        error_in_this_read = False
        for o, at in events[seen:]:
            if o[0] == "crash":
                raise Violation("no-crash", f"{o} escaped; {ctx()}", key=f"C07/{site}/crash/{o[1]}")
            if o == ("err", LIMIT_ERROR):
                world.probe("limit-error-raised")
                error_in_this_read = True
                last_error_at = at
                if delivered < nframes:
                    held = at - starts[delivered]
                    where = "multi-frame-read" if held > limit else "buffered-within-limit"
                    raise Violation(
                        "under-limit-rejected",
                        f"frame #{delivered} ({len(case.frames[delivered])} bytes, safely under limit {limit}) was answered with LimitOverrunError "
                        f"after {at} bytes fed; {held} bytes received since the last delivered frame; {ctx()}",
                        key=f"C07/{site}/under-limit-rejected/{where}",
                    )
                if case.stop_at_tail_error:
                    stop = True
            else:
                delivered += 1
                if case.count_from_delivery:
                    last_delivery_at = at
        if path.endswith("fill") and drv.max_buffer_size > limit:
            raise Violation("buffer-size", f"buffer_size={drv.max_buffer_size} > limit={limit}; {ctx()}", key=f"C07/{site}/buffer-size")
        k = bisect.bisect_right(ends, fed)
        boundary = ends[k - 1] if k else 0
        since = max(boundary, last_error_at, last_delivery_at)
        unterminated = fed - since
        if unterminated > limit + seplen + len(chunk) and not error_in_this_read:
            raise Violation(
                "bound",
                f"{unterminated} unterminated bytes fed since offset {since} > limit {limit} + separator {seplen} + last read {len(chunk)} "
                f"and no LimitOverrunError was raised; {ctx()}",
                key=f"C07/{site}/unbounded",
            )
        if unterminated > limit:
            world.probe("unterminated-beyond-limit")
        if stop:
            break
    world.log("run", path, family, nframes, len(case.tail), len(chunks), tuple(o[0] for o, _ in events))
    world.progress(sum(1 for o, _ in events if o[0] == "pkt"))
    if nframes and max(sizes, default=0) > limit:
        world.probe("read-above-limit-with-complete-frames")


def _harness(family: str, path: str, weight: int = 1) -> Harness:
    return Harness(f"{family}-{path}", lambda w: run_case(w, family, path), weight=weight)


# T1 runs cost ~1 ms, T2 runs a few ms: T1 weights x7, every T2 harness weight 1 (18 of 95 = 19 % of the runs)
_T1 = [("sep", 2, True), ("jsonl", 1, False), ("jsonraw", 2, False), ("filebased", 2, True)]
HARNESSES = []
for _family, _w, _buffered in _T1:
    HARNESSES.append(_harness(_family, "copy", 7 * _w))
    if _buffered:
        HARNESSES.append(_harness(_family, "fill", 7 * _w))
for _family, _w, _buffered in _T1:
    for _path in list(T2_LIVE_PATHS) + list(T2_DEFERRED_PATHS):
        if _buffered or _path.endswith("-copy"):
            HARNESSES.append(_harness(_family, _path, 1))
