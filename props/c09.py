"""C09 — TLS truncation is never reported as a clean end-of-stream (DESIGN §4 C09).  Fault enumeration.

One run = one seeded base scenario (role, TLS version, standard_compatible, record sizes, fragmentation/delay script,
who closes first) executed once without a cut — which also measures the peer's cipher-text layout (lengths are
reproducible, content is not) — and then re-executed with FIN delivered after exactly k cipher-text bytes for a set
of offsets k: quick = every offset within +-3 of a record boundary, inside every record header, and 48 seeded
others; thorough = every offset.
"""
from __future__ import annotations

import asyncio
import ssl
from typing import Any

from easynetwork.lowlevel.api_async.transports.abc import AsyncListener
from easynetwork.lowlevel.api_async.transports.tls import AsyncTLSListener, AsyncTLSStreamTransport

from vsim.backend import SimAsyncIOBackend
from vsim.loop import run_async
from vsim.runner import Harness
from vsim.sock import Delivery, SimNet
from vsim.tls import TLSPeer, make_context
from vsim.world import Deadlock, StepCap, Violation, World

PROPERTY = "C09"
LEVEL = "fault_enumeration"
RULE = (
    "base scenario = (TLS 1.2|1.3) x (EasyNetwork as client|server) x standard_compatible x 1-4 application records of seeded sizes x "
    "cyclic fragmentation/delay script x (peer|library closes first | library closes with unread application data) x (recv|recv_into) x (server side: wrap() directly | through AsyncTLSListener.serve); fault = FIN after exactly k bytes of the peer's cipher-text, "
    "k swept over record boundaries +-3, record headers and seeded offsets (quick) or every offset (thorough; streams longer than 6000 cipher-text bytes: every offset of the handshake and within 64 bytes of a record boundary plus an even stride; every run is thinned to about 3e6 receive calls / link events); a case is one (scenario, k); "
    "non-trivial = the cut fired and the handshake had made progress"
)
COMPONENTS_REAL = [
    "easynetwork AsyncTLSStreamTransport (wrap/recv/recv_into/aclose)",
    "easynetwork AsyncTLSListener.serve (server side, half of the runs)",
    "easynetwork AsyncioTransportStreamSocketAdapter + StreamReaderBufferedProtocol",
    "CPython asyncio selector loop and _SelectorSocketTransport",
    "OpenSSL via ssl.SSLObject on both ends",
]
COMPONENTS_STUB = ["listener wrapped by AsyncTLSListener (one-shot: hands over one accepted stream transport)", "socket object (SimSocket)", "selector (SimSelector)", "clock (virtual)", "peer = reference ssl.SSLObject driven by the simulator"]
ASSUMPTIONS = [
    "cipher-text lengths are reproducible for a fixed certificate, protocol version and cipher suite (checked: the base layout is re-measured in every run and every swept run must see the same total)",
    "a FIN is the only truncation modelled (RST is an error on every path and is not the subject of this property)",
]
BUDGET = {"quick": 45, "thorough": 540}
EVERY_OFFSET_CALLS = 3_000_000  # thorough tier: bound on executions x receive calls of one run
EVERY_OFFSET_MAX = 6000  # thorough tier: streams up to this many cipher-text bytes are cut at every offset


_ROT = [bytes((r + j) & 0xFF for j in range(256)) for r in range(256)]


def _payload(i: int, n: int) -> bytes:
    return (_ROT[(i * 37) & 0xFF] * (n // 256 + 1))[:n]


def _draw(world: World) -> dict:
    scn: dict[str, Any] = {}
    scn["version"] = world.pick("version", ["1.3", "1.2"])
    scn["lib_server"] = bool(world.choose("lib_server", 2))
    scn["std"] = not bool(world.choose("non_std", 3) == 2)
    n = 1 + world.choose("nrec", 4)
    scn["sizes"] = [1 + world.choose("size", [40, 300, 2000, 16384][world.choose("sizeclass", 4)]) for _ in range(n)]
    scn["gaps"] = [world.choose("gap", 4) for _ in range(n + 1)]
    scn["closer"] = world.pick("closer", ["peer", "lib", "lib-concurrent"])
    scn["peer_on_cn"] = world.pick("peer_on_cn", ["reply", "drop"])
    scn["extra_reads"] = world.choose("extra_reads", 3)
    scn["use_recv_into"] = bool(world.choose("recv_into", 2))
    scn["bufsize"] = world.pick("bufsize", [65536, 1, 7, 100, 4096, 16384])
    scn["p2l_sizes"] = [world.pick("fs", [1 << 30, 1, 5, 64, 1000, 3, 17]) for _ in range(1 + world.choose("nfs", 4))]
    scn["p2l_delays"] = [world.choose("fd", 3) for _ in range(1 + world.choose("nfd", 3))]
    scn["l2p_sizes"] = [world.pick("gs", [1 << 30, 1, 64, 1000]) for _ in range(1 + world.choose("ngs", 2))]
    scn["l2p_delays"] = [world.choose("gd", 2)]
    # history "the library closes while application data of the peer is still unread" (in the socket, in the TLS read BIO or
    # inside OpenSSL): the reader stops after stop_at plaintext bytes; read_delay lets every record arrive before the first read
    total = sum(scn["sizes"])
    early = world.choose("early_close", 4)
    scn["stop_at"] = None
    if scn["closer"] == "lib" and early and total > 1:
        if early == 1 and n > 1:
            scn["stop_at"] = sum(scn["sizes"][: 1 + world.choose("stop_rec", n - 1)])
        else:
            scn["stop_at"] = 1 + world.choose("stop_byte", total - 1)
    scn["read_delay"] = bool(world.choose("read_delay", 2)) if scn["stop_at"] is not None else False
    # server side: the transport is produced by AsyncTLSListener.serve() (which forwards its own configuration to wrap())
    scn["via_listener"] = scn["lib_server"] and bool(world.choose("via_listener", 2))
    return scn


class _Served(Exception):
    pass


class _OneShotListener(AsyncListener[Any]):
    """stub of the wrapped listener: hands one already-accepted stream transport to the handler, then ends serve()"""

    def __init__(self, transport: Any) -> None:
        self._tr = transport
        self._closed = False

    def is_closing(self) -> bool:
        return self._closed

    async def aclose(self) -> None:
        self._closed = True

    def backend(self) -> Any:
        return self._tr.backend()

    @property
    def extra_attributes(self) -> Any:
        return {}

    async def serve(self, handler: Any, task_group: Any = None) -> Any:
        await handler(self._tr)
        self._closed = True
        raise _Served


class _Res:
    wrap: str = "?"
    tr_closed: bool = False
    plain: bytes = b""
    end: tuple = ("none",)
    blocked: bool = False
    peer_saw_cn: bool = False
    peer_ragged: bool = False
    peer_error: str | None = None
    total: int = 0
    hs_end: int | None = None
    wire: bytes = b""
    lib_sock_closed: bool = False
    tls_closing: bool = False
    second_close_ok: bool = True
    aclose_exc: str | None = None
    after: list = []
    lib_last_record_is_alert: bool | None = None  # wire level: the last TLS record the library handed to its socket
    lib_link_reset: bool = False  # the library's socket was closed with unread bytes: the stack answers with a reset


def _execute_async(parent: World, scn: dict, cut: int | None) -> _Res:
    w = World(parent=parent)
    w.quiet = True
    net = SimNet(w)
    backend = SimAsyncIOBackend(net)
    lib, psock = net.socketpair(
        delivery_ab=Delivery.cyclic(scn["l2p_sizes"], scn["l2p_delays"]),
        delivery_ba=Delivery.cyclic(scn["p2l_sizes"], scn["p2l_delays"]),
    )
    lib_server = scn["lib_server"]
    peer = TLSPeer(w, psock, server_side=not lib_server, version=scn["version"])
    assert psock.tx_pipe is not None
    if cut is not None:
        psock.tx_pipe.fin_at = cut
    res = _Res()
    sizes = scn["sizes"]
    expected = b"".join(_payload(i, n) for i, n in enumerate(sizes))

    def after_handshake() -> None:
        t = 0.0
        for i, n in enumerate(sizes):
            t += scn["gaps"][i] / 64.0
            w.after(t, lambda i=i, n=n: peer.write(_payload(i, n)))
        if scn["closer"] == "peer":
            t += scn["gaps"][-1] / 64.0
            w.after(t, lambda: peer.close(notify=True))
        else:
            peer.auto_close_reply = "drop" if (scn["closer"] == "lib-concurrent" and scn["peer_on_cn"] == "drop") else True

    peer.on_handshake_done = after_handshake

    async def one_read(tls, buf):
        if scn["use_recv_into"]:
            n = await tls.recv_into(buf)
            return bytes(buf[:n])
        return await tls.recv(scn["bufsize"])

    async def lib_main() -> None:
        tr = await backend.wrap_stream_socket(lib)
        if scn.get("via_listener"):
            errors: list[Exception] = []
            listener = AsyncTLSListener(_OneShotListener(tr), make_context(True, scn["version"]), standard_compatible=scn["std"], handshake_error_handler=errors.append)
            served = asyncio.get_running_loop().create_task(listener.serve(with_tls), name="serve")
            await asyncio.wait([served], timeout=1.0e5)
            if not served.done():
                res.blocked = True
                served.cancel()
            elif not isinstance(served.exception(), _Served):
                raise served.exception()  # type: ignore[misc]
            if errors:
                res.wrap = "exc:" + type(errors[0]).__name__
                await asyncio.sleep(0)
                res.tr_closed = tr.is_closing()
            return
        try:
            tls = await AsyncTLSStreamTransport.wrap(
                tr,
                make_context(lib_server, scn["version"]),
                server_side=lib_server,
                server_hostname=None if lib_server else "sim.host",
                standard_compatible=scn["std"],
            )
        except Exception as e:
            res.wrap = "exc:" + type(e).__name__
            await asyncio.sleep(0)
            res.tr_closed = tr.is_closing()
            return
        await with_tls(tls)

    async def with_tls(tls: AsyncTLSStreamTransport) -> None:
        res.wrap = "ok"
        got = bytearray()
        buf = bytearray(scn["bufsize"])
        all_read = asyncio.Event()

        async def reader() -> None:
            if scn["read_delay"]:
                await asyncio.sleep(sum(scn["gaps"]) / 64.0 + 1.0)
            while True:
                if len(got) >= (scn["stop_at"] if scn["stop_at"] is not None else len(expected)):
                    all_read.set()
                    if scn["closer"] == "lib":
                        res.end = ("lib-close",)
                        break
                try:
                    data = await one_read(tls, buf)
                except Exception as e:
                    res.end = ("exc", type(e).__name__)
                    break
                if not data:
                    res.end = ("eof",)
                    break
                got.extend(data)
            all_read.set()
            # reads after the stream ended: a truncation must never turn into a clean end-of-stream later on
            for _ in range(scn["extra_reads"] if res.end[0] in ("exc", "eof") else 0):
                try:
                    data = await one_read(tls, buf)
                except Exception as e:
                    res.after.append("exc")
                else:
                    res.after.append("data" if data else "eof")

        res.after = []
        if scn["closer"] == "lib-concurrent":
            rt = asyncio.get_running_loop().create_task(reader(), name="reader")
            await all_read.wait()
            await asyncio.sleep(scn["gaps"][-1] / 64.0)
            try:
                await tls.aclose()
            except Exception as e:
                res.aclose_exc = type(e).__name__
            await asyncio.wait([rt], timeout=120)
            if not rt.done():
                res.blocked = True
                rt.cancel()
        else:
            await reader()
            try:
                await tls.aclose()
            except Exception as e:
                res.aclose_exc = type(e).__name__
        res.plain = bytes(got)
        res.tls_closing = tls.is_closing()
        t0 = w.now
        n0 = w.counters["loop_iterations"]
        try:
            await tls.aclose()
        except Exception as e:
            res.aclose_exc = "second:" + type(e).__name__
        res.second_close_ok = (w.now == t0) and (w.counters["loop_iterations"] - n0 <= 5)
        await asyncio.sleep(2.0)

    try:
        run_async(w, lib_main)
    except Deadlock:
        res.blocked = True
    res.peer_saw_cn = peer.engine.saw_close_notify
    res.peer_ragged = peer.engine.saw_ragged_eof or peer.fin_seen and not peer.engine.saw_close_notify
    res.peer_error = type(peer.engine.error).__name__ if peer.engine.error is not None else None
    res.total = len(peer.wire_out)
    res.hs_end = peer.hs_end
    res.wire = bytes(peer.wire_out)
    res.lib_sock_closed = lib.sim_closed
    lib_wire = b"".join(lib.sent_log)
    lib_ends = _record_ends(lib_wire)
    if lib_ends and lib_ends[-1] == len(lib_wire):
        st = lib_ends[-2] if len(lib_ends) > 1 else 0
        ln = int.from_bytes(lib_wire[st + 3 : st + 5], "big")
        res.lib_last_record_is_alert = lib_wire[st] == 21 or (scn["version"] == "1.3" and lib_wire[st] == 23 and ln == 19)
    assert lib.tx_pipe is not None
    res.lib_link_reset = lib.tx_pipe.was_reset
    parent.counters["offsets"] += 1
    return res


def _execute_sync(parent: World, scn: dict, cut: int | None) -> _Res:
    """same scenario against the blocking SSLStreamTransport over a real socketpair (DESIGN §1)"""
    import math

    from easynetwork.lowlevel.api_sync.transports.socket import SSLStreamTransport

    from vsim.harness import sync_engine
    from vsim.tls import RealTLSPeer

    if scn["closer"] == "lib-concurrent":
        scn = {**scn, "closer": "lib"}  # one thread: reader and closer cannot overlap on the blocking transport
    w = World(parent=parent)
    w.quiet = True
    lib_server = scn["lib_server"]
    peer = RealTLSPeer(w, server_side=not lib_server, version=scn["version"], sizes=scn["p2l_sizes"], delays=scn["p2l_delays"])
    peer.fin_at = cut
    res = _Res()
    sizes = scn["sizes"]
    expected = b"".join(_payload(i, n) for i, n in enumerate(sizes))

    def after_handshake() -> None:
        t = 0.0
        for i, n in enumerate(sizes):
            t += scn["gaps"][i] / 64.0
            w.after(t, lambda i=i, n=n: peer.write(_payload(i, n)))
        if scn["closer"] == "peer":
            t += scn["gaps"][-1] / 64.0
            w.after(t, lambda: peer.close(notify=True))
        else:
            peer.auto_close_reply = True

    peer.on_handshake_done = after_handshake
    tr = None
    try:
        with sync_engine(w) as make_selector:
            try:
                try:
                    tr = SSLStreamTransport(
                        peer.lib_sock,
                        make_context(lib_server, scn["version"]),
                        retry_interval=scn.get("retry_interval", math.inf),
                        server_side=lib_server,
                        server_hostname=None if lib_server else "sim.host",
                        standard_compatible=scn["std"],
                        selector_factory=make_selector,
                    )
                except Exception as e:
                    res.wrap = "exc:" + type(e).__name__
                    peer.pump()
                    res.tr_closed = peer.fin_seen
                    res.lib_sock_closed = peer.fin_seen
                    return res
                res.wrap = "ok"
                got = bytearray()
                buf = bytearray(scn["bufsize"])
                if scn["read_delay"]:
                    from vsim.harness import vsleep

                    vsleep(w, sum(scn["gaps"]) / 64.0 + 1.0)
                while True:
                    if scn["closer"] == "lib" and len(got) >= (scn["stop_at"] if scn["stop_at"] is not None else len(expected)):
                        res.end = ("lib-close",)
                        break
                    try:
                        if scn["use_recv_into"]:
                            n = tr.recv_into(buf, math.inf)
                            data = bytes(buf[:n])
                        else:
                            data = tr.recv(scn["bufsize"], math.inf)
                    except Exception as e:
                        res.end = ("exc", type(e).__name__)
                        break
                    if not data:
                        res.end = ("eof",)
                        break
                    got += data
                res.plain = bytes(got)
                try:
                    tr.close()
                except Exception as e:
                    res.aclose_exc = type(e).__name__
                res.tls_closing = tr.is_closed()
                t0 = w.now
                try:
                    tr.close()
                except Exception as e:
                    res.aclose_exc = "second:" + type(e).__name__
                res.second_close_ok = w.now == t0
                peer.pump()
                res.lib_sock_closed = peer.fin_seen
            except Deadlock:
                res.blocked = True
    finally:
        res.peer_saw_cn = peer.engine.saw_close_notify
        res.peer_error = type(peer.engine.error).__name__ if peer.engine.error is not None else None
        res.total = len(peer.wire_out)
        res.hs_end = peer.hs_end
        res.wire = bytes(peer.wire_out)
        if tr is not None and not tr.is_closed():
            try:
                tr.close()
            except BaseException:
                pass
        peer.dispose()
        parent.counters["offsets"] += 1
    return res


def _record_ends(wire: bytes) -> list[int]:
    out = []
    pos = 0
    while pos + 5 <= len(wire):
        ln = int.from_bytes(wire[pos + 3 : pos + 5], "big")
        pos += 5 + ln
        out.append(pos)
    return out


def _mode(scn: dict) -> str:
    return f"{'srv' if scn['lib_server'] else 'cli'}-tls{scn['version']}-{'std' if scn['std'] else 'nonstd'}"


def _check_after(r: _Res, scn: dict, engine: str, mode: str, where: str) -> None:
    """reads issued after the stream ended with an error: in standard-compatible mode a truncation must never be
    reported as a clean end-of-stream (nor produce data) by a later read either"""
    if scn["std"] and r.end[0] == "exc" and any(x != "exc" for x in r.after):
        raise Violation("later-read-clean-eof", f"first read raised {r.end[1]}, later reads gave {r.after}; {where}", key=f"C09/{engine}/{mode}/later-read-clean-eof")


def _h_async(world: World, tier: str, engine: str = "aio") -> None:
    _execute = _execute_async if engine == "aio" else _execute_sync
    scn = _draw(world)
    if engine == "sync" and scn["closer"] == "lib-concurrent":
        scn["closer"] = "lib"  # one thread: reader and closer cannot overlap on the blocking transport
    world.notes.update(scenario={k: v for k, v in scn.items()})
    sizes = scn["sizes"]
    expected = b"".join(_payload(i, n) for i, n in enumerate(sizes))
    mode = _mode(scn)
    base = _execute(world, scn, None)
    desc = f"scenario={scn}"
    # ---------------- base run: no truncation
    if base.blocked:
        raise Violation("no-cut/blocked", f"deadlock without any cut; {desc}", key=f"C09/{engine}/{mode}/no-cut/blocked")
    if base.wrap != "ok":
        raise Violation("no-cut/handshake", f"wrap() failed without any cut: {base.wrap}; {desc}", key=f"C09/{engine}/{mode}/no-cut/handshake")
    early = scn["stop_at"] is not None
    if early:
        world.fault("close_with_unread_data")
    if early and expected.startswith(base.plain) and scn["stop_at"] <= len(base.plain):
        pass
    elif base.plain != expected:
        raise Violation("no-cut/plaintext", f"read {len(base.plain)} bytes, expected {len(expected)}; {desc}", key=f"C09/{engine}/{mode}/no-cut/plaintext")
    if scn["closer"] == "peer" and base.end != ("eof",):
        raise Violation("no-cut/clean-eof", f"peer sent close_notify then FIN, reader got {base.end}; {desc}", key=f"C09/{engine}/{mode}/no-cut/clean-eof")
    if scn["closer"] == "lib-concurrent":
        # a reader task is blocked in recv while another task closes the transport
        if scn["peer_on_cn"] == "reply" and base.end != ("eof",):
            raise Violation("no-cut/clean-eof", f"peer answered our close_notify with its own, the blocked reader got {base.end}; {desc}", key=f"C09/{engine}/{mode}/no-cut/clean-eof-concurrent")
        if scn["peer_on_cn"] == "drop":
            if scn["std"] and base.end == ("eof",):
                raise Violation("drop/truncation-as-clean-eof", f"the peer hung up without a close_notify after ours; the blocked standard-compatible reader reported a clean end-of-stream; {desc}", key=f"C09/{engine}/{mode}/drop/truncation-as-clean-eof")
            if not scn["std"] and base.end != ("eof",):
                raise Violation("drop/nonstd-raises", f"standard_compatible=False: abrupt end must be reported as end-of-stream, got {base.end}; {desc}", key=f"C09/{engine}/{mode}/drop/nonstd-raises")
    _check_after(base, scn, engine, mode, desc)
    if scn["std"]:
        if early and base.lib_link_reset:
            # the socket was closed with unread bytes: the reset may overtake the alert on its way to the peer, so the clause
            # "closing sends a close notification" is evaluated on what the library handed to its socket
            world.probe("early-close-reset")
            if base.lib_last_record_is_alert is False:
                raise Violation("close-sends-notify", f"standard-compatible aclose() with unread application data: the last TLS record handed to the socket is not an alert (peer error={base.peer_error}); {desc}", key=f"C09/{engine}/{mode}/close-sends-notify-unread")
        elif not base.peer_saw_cn:
            raise Violation("close-sends-notify", f"standard-compatible aclose(){' with unread application data' if early else ''}: reference peer never saw a close_notify (peer error={base.peer_error}); {desc}", key=f"C09/{engine}/{mode}/close-sends-notify{'-unread' if early else ''}")
    else:
        if base.peer_saw_cn and scn["closer"] == "lib":
            raise Violation("nonstd-close-skips-notify", f"standard_compatible=False: aclose() still sent a close_notify; {desc}", key=f"C09/{engine}/{mode}/nonstd-close-skips-notify")
    if not base.lib_sock_closed or not base.tls_closing or not base.second_close_ok:
        raise Violation("no-cut/closed", f"after aclose(): socket closed={base.lib_sock_closed} is_closing={base.tls_closing} second close prompt={base.second_close_ok}; {desc}", key=f"C09/{engine}/{mode}/no-cut/closed")
    world.progress(len(sizes))
    hs_end = base.hs_end
    total = base.total
    assert hs_end is not None
    ends = _record_ends(base.wire)
    if not ends or ends[-1] != total:
        raise Violation("harness/record-parse", f"cannot parse peer wire into records: ends={ends} total={total}", key="C09/harness/record-parse")
    app_ends = [e for e in ends if e > hs_end]
    # application records after the handshake: one per write (sizes <= 16384), then (closer=peer, or reply) the close_notify
    n_app = len(sizes)
    if early and len(app_ends) < n_app:
        world.probe("early-close-no-sweep")  # the peer saw our close_notify before it had written every record: no layout to sweep
        return
    if len(app_ends) < n_app:
        raise Violation("harness/record-count", f"expected >= {n_app} records after the handshake, found {len(app_ends)}", key="C09/harness/record-count")
    data_ends = app_ends[:n_app]
    cn_end = total if len(app_ends) > n_app else None  # None: the peer never sent a close_notify in the base run
    # ---------------- offsets
    if tier == "thorough" and total <= EVERY_OFFSET_MAX:
        offsets = list(range(0, total + 1))
    elif tier == "thorough":
        # a long stream (several 16 KiB records): every offset within 64 bytes of a record boundary, every offset of the
        # handshake, and an even stride over the rest, so that one run stays within minutes
        s = set(range(0, min(total, hs_end + 64) + 1))
        for e in ends:
            s.update(range(max(0, e - 64), min(total, e + 64) + 1))
        stride = -(-total // EVERY_OFFSET_MAX)
        s.update(range(0, total + 1, stride))
        offsets = sorted(s)
        world.probe("every-offset-strided")
    else:
        offsets = []
    if tier == "thorough":
        # cost bound of one run: (number of executions) x (receive calls per execution); a 1-byte receive buffer on a 60 KiB
        # stream makes every execution cost 60000 calls
        calls = max(1, sum(sizes) // max(1, scn["bufsize"]), total // max(1, min(scn["p2l_sizes"])))  # + link events when the cipher-text drips in
        max_exec = max(300, EVERY_OFFSET_CALLS // calls)
        if len(offsets) > max_exec:
            keep = set()
            for e in [0, hs_end] + ends:
                keep.update(range(max(0, e - 3), min(total, e + 5) + 1))
            stride = -(-len(offsets) // max_exec)
            keep.update(offsets[::stride])
            offsets = sorted(k for k in keep if 0 <= k <= total)
            world.probe("every-offset-thinned-for-cost")
    else:
        s = set()
        for e in [0] + ends:
            for d in range(-3, 4):
                s.add(e + d)
            for d in range(1, 6):
                s.add(e + d)
        for _ in range(48):
            s.add(world.choose("offset", total + 1))
        offsets = sorted(k for k in s if 0 <= k <= total)
    world.notes.update(total=total, hs_end=hs_end, record_ends=ends[:40], n_offsets=len(offsets))
    for k in offsets:
        r = _execute(world, scn, k)
        where = f"cut k={k} of {total} (hs_end={hs_end}, record ends={ends}); {desc}"
        # lengths must be reproducible up to the cut (what the peer emits after the cut, e.g. an alert in answer to an
        # abortive close, never reaches the library and does not matter)
        ends_r = [e for e in _record_ends(r.wire) if e <= k]
        if ends_r != [e for e in ends if e <= k][: len(ends_r)]:
            raise Violation("harness/length-drift", f"peer cipher-text layout differs before the cut: {ends_r} vs base {ends}", key="C09/harness/length-drift")
        world.fault("fin_at")
        if r.blocked:
            raise Violation("cut/blocked", f"reader blocks forever; {where}", key=f"C09/{engine}/{mode}/cut/blocked")
        if k < hs_end:
            # inside the handshake: wrap() fails, wrapped transport closed — both modes
            if r.wrap == "ok":
                raise Violation("cut/handshake-succeeded", f"wrap() returned although the peer's handshake bytes were cut; {where}", key=f"C09/{engine}/{mode}/cut/handshake-succeeded")
            if not r.tr_closed or not r.lib_sock_closed:
                raise Violation("cut/handshake-leaves-open", f"failed wrap() left the wrapped transport open (is_closing={r.tr_closed}, socket closed={r.lib_sock_closed}); {where}", key=f"C09/{engine}/{mode}/cut/handshake-leaves-open")
            continue
        if r.wrap != "ok":
            raise Violation("cut/handshake-failed", f"wrap() failed ({r.wrap}) although all handshake bytes were delivered; {where}", key=f"C09/{engine}/{mode}/cut/handshake-failed")
        world.probe("cut-after-handshake")
        # data returned before the cut: prefix of plaintext made of whole records
        whole = 0
        for i, e in enumerate(data_ends):
            if e <= k:
                whole += sizes[i]
        if not expected.startswith(r.plain) or len(r.plain) > whole:
            raise Violation("cut/plaintext-prefix", f"returned {len(r.plain)} bytes, only {whole} bytes of whole records were delivered (prefix ok={expected.startswith(r.plain)}); {where}", key=f"C09/{engine}/{mode}/cut/plaintext-prefix")
        if r.end == ("lib-close",):
            continue
        cn_complete = cn_end is not None and k >= cn_end
        if scn["std"]:
            if r.end == ("eof",) and not cn_complete:
                raise Violation("cut/truncation-as-clean-eof", f"standard-compatible reader reported a clean end-of-stream without the peer's close_notify; {where}", key=f"C09/{engine}/{mode}/cut/truncation-as-clean-eof")
            if cn_complete and r.end != ("eof",):
                raise Violation("cut/close-notify-not-eof", f"close_notify fully delivered but reader got {r.end}; {where}", key=f"C09/{engine}/{mode}/cut/close-notify-not-eof")
            if r.end[0] not in ("eof", "exc"):
                raise Violation("cut/no-outcome", f"reader ended with {r.end}; {where}", key=f"C09/{engine}/{mode}/cut/no-outcome")
        else:
            if r.end != ("eof",):
                raise Violation("cut/nonstd-raises", f"standard_compatible=False: abrupt end must be reported as end-of-stream, got {r.end}; {where}", key=f"C09/{engine}/{mode}/cut/nonstd-raises")
        _check_after(r, scn, engine, mode, where)
        if not r.lib_sock_closed or not r.second_close_ok:
            raise Violation("cut/closed", f"after aclose(): socket closed={r.lib_sock_closed} second close prompt={r.second_close_ok}; {where}", key=f"C09/{engine}/{mode}/cut/closed")


def _h_close_while_writing(world: World) -> None:
    """'closing the transport sends one [close notification]' while another task is in the middle of a back-pressured
    send_all(): the peer has sent its close_notify (the reader saw a clean end-of-stream), does not read for a while,
    a writer is blocked holding the transport's send lock, aclose() is called, then the peer reads again well before the
    shutdown timeout.  Oracle (wire level, standard-compatible mode): the last TLS record the library handed to its
    socket is a close_notify alert (found missing by a seeded change)."""
    version = world.pick("version", ["1.2", "1.3"])
    lib_server = bool(world.choose("lib_server", 2))
    cap = world.pick("cap", [4096, 2048, 16384])
    nbytes = world.pick("wsize", [30000, 70000, 45000])
    t_close = 2 + world.choose("t_close", 6)  # /64 s after the writer started
    t_resume = t_close + 1 + world.choose("t_resume", 40)  # < shutdown timeout (30 s = 1920/64)
    reader_first = bool(world.choose("reader_first", 2))
    w = world
    net = SimNet(w)
    backend = SimAsyncIOBackend(net)
    lib, psock = net.socketpair(capacity_ab=cap)
    w.fault("capacity_small")
    peer = TLSPeer(w, psock, server_side=not lib_server, version=version)
    w.notes.update(harness="close-while-writing", version=version, lib_server=lib_server, cap=cap, nbytes=nbytes, t_close=t_close, t_resume=t_resume)
    out: dict = {}

    async def main() -> None:
        tr = await backend.wrap_stream_socket(lib)
        tls = await AsyncTLSStreamTransport.wrap(tr, make_context(lib_server, version), server_side=lib_server, server_hostname=None if lib_server else "sim.host")
        await asyncio.sleep(1 / 64)
        peer.paused = True
        w.fault("peer_stops_reading")
        peer.close_notify()  # half-close: the peer will not write any more, it may still read
        if reader_first:
            out["eof"] = await tls.recv(100)

        async def writer() -> None:
            try:
                await tls.send_all(b"w" * nbytes)
                out["writer"] = "ok"
            except Exception as e:  # the connection is being closed under it: an error is fine
                out["writer"] = type(e).__name__

        wt = asyncio.get_running_loop().create_task(writer(), name="writer")
        await asyncio.sleep(t_close / 64)
        if wt.done():
            raise Violation("harness/no-backpressure", "the writer finished although the peer is not reading", key="C09/close-while-writing/harness")
        if not reader_first:
            out["eof"] = await tls.recv(100)
        w.after((t_resume - t_close) / 64, peer.resume)
        t0 = w.now
        try:
            await tls.aclose()
            out["aclose"] = "ok"
        except Exception as e:
            out["aclose"] = type(e).__name__
        out["close_took"] = w.now - t0
        await asyncio.wait([wt], timeout=100)
        await asyncio.sleep(1.0)

    try:
        run_async(w, main)
    except Deadlock:
        raise Violation("blocked", f"close-while-writing never finishes; notes={w.notes}", key="C09/close-while-writing/blocked") from None
    if out.get("eof") != b"":
        raise Violation("no-cut/clean-eof", f"peer sent close_notify, reader got {out.get('eof')!r}", key="C09/close-while-writing/clean-eof")
    w.progress()
    wire = b"".join(lib.sent_log)
    ends = _record_ends(wire)
    if not ends or ends[-1] != len(wire):
        raise Violation("harness/record-parse", "cannot parse the library's wire into records", key="C09/close-while-writing/harness-parse")
    last_start = ends[-2] if len(ends) > 1 else 0
    ctype = wire[last_start]
    length = int.from_bytes(wire[last_start + 3 : last_start + 5], "big")
    is_alert = ctype == 21 or (version == "1.3" and ctype == 23 and length == 19)
    if out.get("aclose") == "ok" and out["close_took"] < 25.0 and not is_alert:
        raise Violation(
            "close-sends-notify",
            f"aclose() returned after {out['close_took']:.3f} s (no shutdown timeout) but the last record handed to the socket is type {ctype} length {length}, not a close_notify alert; writer={out.get('writer')} notes={w.notes}",
            key=f"C09/close-while-writing/tls{version}/close-sends-notify",
        )


def evidence_extra(merged: dict) -> dict:
    return {"offsets_executed": merged["counters"].get("offsets", 0), "explanation": "evaluations counts base scenarios; offsets_executed counts (scenario, cut offset) executions"}


HARNESSES = [
    Harness("aio-close-while-writing", _h_close_while_writing, weight=1, wall_limit=120.0),
    Harness("sync-quick", lambda w: _h_async(w, "quick", "sync"), tiers=("quick",), wall_limit=120.0),
    Harness("sync-every-offset", lambda w: _h_async(w, "thorough", "sync"), tiers=("thorough",), wall_limit=900.0),
    Harness("aio-quick", lambda w: _h_async(w, "quick"), tiers=("quick",), wall_limit=120.0),
    Harness("aio-every-offset", lambda w: _h_async(w, "thorough"), tiers=("thorough",), wall_limit=900.0),
    Harness("aio-boundaries", lambda w: _h_async(w, "quick"), tiers=("thorough",), wall_limit=120.0),
]
