"""Serializer matrix (DESIGN §4 "common vocabulary"), shared by C01 / C02 / C05 / C06 / C07.

An :class:`Entry` describes one serializer configuration:

* ``name``            stable identifier (never reuse, never renumber: replay files and keys refer to it);
* ``family``          coarse group used for harness names and violation keys;
* ``make(limit, hostile)``  builds a FRESH serializer (``limit=None`` -> the serializer's default; ``hostile=True`` ->
                      pickle-based entries use the pure-Python restricted unpickler, see ``RestrictedPyUnpickler``);
* ``conv()``          builds a fresh converter or is ``None``;
* ``gen(rng, size, mode)``  a *valid packet* for this serializer (domain stated in ``domain``); ``size`` is "small" or
                      "large" (one packet of ~40-200 KiB on the wire), ``mode`` is "stream" or "oneshot";
* ``expect(sent, mode)``    the value the receiving side must return for ``sent`` (identity except keep_end / stapled / converters);
* ``eq(a, b)``        value equality (type-strict, so that 1 / 1.0 / True or list / tuple are told apart);
* ``sep``             the frame separator when the format has one;
* ``has_limit``       whether ``make(limit=...)`` is meaningful;
* ``hints``           what the byte stream looks like, used by :func:`structural_cuts`.

Everything is deterministic: generators draw only from the ``random.Random`` handed in, which harnesses obtain from
``world.sub_rng`` (API.md rule 1).  Nothing here iterates a set or relies on ``id()``/``hash()`` of strings.
"""
from __future__ import annotations

import base64 as _b64
import dataclasses
import json as _json
import pickle
import re
import struct as _struct
from collections import namedtuple
from typing import Any, Callable, Iterator, Sequence

from easynetwork.converter import AbstractPacketConverter, StapledPacketConverter
from easynetwork.exceptions import DeserializeError, PacketConversionError
from easynetwork.lowlevel._stream import StreamDataProducer
from easynetwork.protocol import BufferedStreamProtocol, DatagramProtocol, StreamProtocol
from easynetwork.serializers.abc import AbstractIncrementalPacketSerializer, BufferedIncrementalPacketSerializer
from easynetwork.serializers.base_stream import AutoSeparatedPacketSerializer, FileBasedPacketSerializer, FixedSizePacketSerializer
from easynetwork.serializers.composite import (
    StapledBufferedIncrementalPacketSerializer,
    StapledIncrementalPacketSerializer,
    StapledPacketSerializer,
)
from easynetwork.serializers.json import JSONEncoderConfig, JSONSerializer
from easynetwork.serializers.line import StringLineSerializer
from easynetwork.serializers.pickle import PicklerConfig, PickleSerializer
from easynetwork.serializers.struct import NamedTupleStructSerializer, StructSerializer
from easynetwork.serializers.wrapper.base64 import Base64EncoderSerializer
from easynetwork.serializers.wrapper.compressor import BZ2CompressorSerializer, ZlibCompressorSerializer

BIG_LIMIT = 1 << 20  # used by C01 for the "large" stream class

# `debug=` option of every serializer (error_info on DeserializeError).  The factories keep the signature
# make(limit, hostile); Entry.serializer(..., debug=...) sets this flag around the call, so that entries defined elsewhere with
# the old signature keep working.  error_info must never change the TYPE of the exception that surfaces.
_DEBUG = False


def _D() -> dict:
    return {"debug": _DEBUG}


# ================================================================================================ restricted pickle
class RestrictedUnpickler(pickle.Unpickler):
    """C unpickler that cannot import anything.  Used for valid traffic (C01/C05)."""

    def find_class(self, module: str, name: str) -> Any:
        raise pickle.UnpicklingError(f"global {module}.{name} is forbidden")

    def persistent_load(self, pid: Any) -> Any:
        raise pickle.UnpicklingError("persistent ids are forbidden")


class RestrictedPyUnpickler(pickle._Unpickler):  # type: ignore[name-defined]
    """Pure-Python unpickler that cannot import anything.  Used for hostile traffic (C06): the C unpickler sizes its
    memo *array* from the LONG_BINPUT index (4 random bytes -> up to 64 GiB), the Python one uses a dict.
    BYTEARRAY8 is refused as well: pickle._Unpickler.load_bytearray8 pre-allocates bytearray(<8-byte length from the wire>)
    (seen: a 458 GiB request that stalled a worker); bytearray is not in any packet domain of the matrix."""

    dispatch = dict(pickle._Unpickler.dispatch)  # type: ignore[attr-defined]

    def find_class(self, module: str, name: str) -> Any:
        raise pickle.UnpicklingError(f"global {module}.{name} is forbidden")

    def persistent_load(self, pid: Any) -> Any:
        raise pickle.UnpicklingError("persistent ids are forbidden")

    def _refuse_bytearray8(self) -> None:
        raise pickle.UnpicklingError("BYTEARRAY8 is forbidden")

    dispatch[pickle.BYTEARRAY8[0]] = _refuse_bytearray8


def _unpickler(hostile: bool):
    return RestrictedPyUnpickler if hostile else RestrictedUnpickler


class _StrictReader:
    """File proxy that turns a short read into EOFError, which is the contract FileBasedPacketSerializer.load_from_file
    must honour ("EOFError: Missing data to create the packet"); pickle itself reports truncation inside an opcode
    argument as UnpicklingError / struct.error."""

    __slots__ = ("_f",)

    def __init__(self, f: Any) -> None:
        self._f = f

    def read(self, n: int = -1) -> bytes:
        data = self._f.read(n)
        if n is not None and n > 0 and len(data) < n:
            raise EOFError("short read")
        return data

    def readline(self) -> bytes:
        line = self._f.readline()
        if not line.endswith(b"\n"):
            raise EOFError("short line")
        return line


# ================================================================================================ minimal subclasses
class RawAutoSep(AutoSeparatedPacketSerializer[bytes, bytes]):
    """Minimal AutoSeparatedPacketSerializer: packets are bytes; a frame containing 0xFF is a format error."""

    __slots__ = ()

    def __init__(self, separator: bytes, *, limit: int | None = None, debug: bool = False) -> None:
        if limit is None:
            super().__init__(separator, debug=debug)
        else:
            super().__init__(separator, limit=limit, debug=debug)

    def serialize(self, packet: bytes) -> bytes:
        return bytes(packet)

    def deserialize(self, data: bytes) -> bytes:
        if b"\xff" in data:
            raise DeserializeError("0xFF is not allowed in a frame")
        return bytes(data)


class RawFixed(FixedSizePacketSerializer[bytes, bytes]):
    """Minimal FixedSizePacketSerializer: packets are bytes of exactly `size`; a frame starting with 0xFF is a format error."""

    __slots__ = ()

    def serialize(self, packet: bytes) -> bytes:
        return bytes(packet)

    def deserialize(self, data: bytes) -> bytes:
        if len(data) != self.packet_size:
            raise DeserializeError("wrong size")
        if data[:1] == b"\xff":
            raise DeserializeError("0xFF is not allowed as first byte")
        return bytes(data)


class PickleFile(FileBasedPacketSerializer[Any, Any]):
    """Minimal FileBasedPacketSerializer backed by pickle with a restricted unpickler (stands in for CBOR/MessagePack)."""

    __slots__ = ("_protocol", "_unpickler_cls")

    def __init__(self, *, protocol: int = 4, unpickler_cls: Any = RestrictedUnpickler, limit: int | None = None, debug: bool = False) -> None:
        if limit is None:
            super().__init__(expected_load_error=Exception, debug=debug)
        else:
            super().__init__(expected_load_error=Exception, limit=limit, debug=debug)
        self._protocol = protocol
        self._unpickler_cls = unpickler_cls

    def dump_to_file(self, packet: Any, file: Any) -> None:
        pickle.Pickler(file, protocol=self._protocol).dump(packet)

    def load_from_file(self, file: Any) -> Any:
        return self._unpickler_cls(_StrictReader(file)).load()


# ================================================================================================ converters
@dataclasses.dataclass
class Person:
    name: str
    age: int
    tags: list


@dataclasses.dataclass(frozen=True)
class PersonView:
    name: str
    age: int
    tags: tuple


def _check_person_dto(packet: Any) -> None:
    if type(packet) is not dict or sorted(packet) != ["age", "name", "tags"]:
        raise PacketConversionError("expected a dict with exactly name/age/tags")
    if type(packet["name"]) is not str or type(packet["age"]) is not int or type(packet["tags"]) is not list:
        raise PacketConversionError("wrong field type")
    for t in packet["tags"]:
        if type(t) is not str:
            raise PacketConversionError("wrong tag type")


class PersonConverter(AbstractPacketConverter[Person, dict]):
    """dataclass <-> dict; anything that is not exactly the DTO shape is a PacketConversionError."""

    __slots__ = ()

    def create_from_dto_packet(self, packet: Any) -> Person:
        _check_person_dto(packet)
        return Person(packet["name"], packet["age"], list(packet["tags"]))

    def convert_to_dto_packet(self, obj: Person) -> dict:
        return {"name": obj.name, "age": obj.age, "tags": list(obj.tags)}


class PersonViewConverter(AbstractPacketConverter[PersonView, dict]):
    __slots__ = ()

    def create_from_dto_packet(self, packet: Any) -> PersonView:
        _check_person_dto(packet)
        return PersonView(packet["name"], packet["age"], tuple(packet["tags"]))

    def convert_to_dto_packet(self, obj: PersonView) -> dict:
        return {"name": obj.name, "age": obj.age, "tags": list(obj.tags)}


# ================================================================================================ equality
def strict_eq(a: Any, b: Any) -> bool:
    """Type-strict deep equality (1 != 1.0 != True, [] != ()).  No NaN in any domain, so == on floats is fine."""
    if type(a) is not type(b):
        return False
    if isinstance(a, (list, tuple)):
        return len(a) == len(b) and all(strict_eq(x, y) for x, y in zip(a, b))
    if isinstance(a, dict):
        if len(a) != len(b):
            return False
        for k, v in a.items():
            if k not in b or not strict_eq(v, b[k]):
                return False
            # keys compare equal; make sure they are also of the same type (1 vs True vs 1.0)
        ka = sorted((type(k).__name__, repr(k)) for k in a)
        kb = sorted((type(k).__name__, repr(k)) for k in b)
        return ka == kb
    if dataclasses.is_dataclass(a):
        return all(strict_eq(getattr(a, f.name), getattr(b, f.name)) for f in dataclasses.fields(a))
    return a == b


def _identity(sent: Any, mode: str) -> Any:
    return sent


# ================================================================================================ value generators
ASCII_WORD = "abcdefghijklmnopqrstuvwxyzABCDEFGHIJKLMNOPQRSTUVWXYZ0123456789 _-"
JSON_SPECIAL = "\"\\/{}[]:,'"
CONTROL = "\n\r\t\x00\x1f\x7f"
BMP = "\u00e9\u20ac\u2603\u00df\u03bb\u0436\u4e2d\u2028\u00a0"
ASTRAL = "\U0001f600\U0001d11e\U0001f0a1"
# characters whose UTF-16-LE encoding contains a CR or LF *byte*
ODD16 = "\u0d41\u410d\u0a41\u410a\u0d0a\u0a0d"


def _len(rng, lo: int = 1) -> int:
    r = rng.random()
    if r < 0.60:
        return rng.randint(lo, 12)
    if r < 0.90:
        return rng.randint(13, 80)
    if r < 0.985:
        return rng.randint(81, 400)
    return rng.randint(401, 1500)


def _text(rng, pool: str, n: int) -> str:
    return "".join(rng.choices(pool, k=n))


_JSTR_POOLS = (
    ASCII_WORD,
    ASCII_WORD + JSON_SPECIAL * 3,
    ASCII_WORD + CONTROL * 2 + JSON_SPECIAL,
    ASCII_WORD + BMP * 3 + ASTRAL * 2 + JSON_SPECIAL,
    JSON_SPECIAL + "\\\\\"\"",
)


def gen_jstr(rng, short: bool = False) -> str:
    pool = rng.choice(_JSTR_POOLS)
    n = rng.randint(0, 6) if short else _len(rng, 0)
    return _text(rng, pool, n)


def _gen_jleaf(rng) -> Any:
    k = rng.randrange(12)
    if k == 0:
        return None
    if k == 1:
        return rng.random() < 0.5
    if k == 2:
        return rng.randint(-9, 9)
    if k == 3:
        return rng.choice((-1, 1)) * rng.choice((2**31, 2**31 - 1, 2**63, 2**64 + 1, 10**30 + 7))
    if k == 4:
        return rng.randint(-(10**18), 10**18)
    if k == 5:
        return rng.uniform(-1e6, 1e6)
    if k == 6:
        return rng.choice((0.0, -0.0, 0.1, 1e300, 5e-324, -2.5e-7, 1e16, float("inf"), float("-inf")))
    return gen_jstr(rng)


def gen_json(rng, depth: int = 0) -> Any:
    """JSON value: no NaN, dict keys are str, no tuples, no lone surrogates, nesting <= 5."""
    r = rng.random()
    if depth >= 4 or r < 0.5:
        return _gen_jleaf(rng)
    n = rng.choice((0, 1, 1, 2, 2, 3, 5))
    if r < 0.75:
        return [gen_json(rng, depth + 1) for _ in range(n)]
    return {gen_jstr(rng, True): gen_json(rng, depth + 1) for _ in range(n)}


def gen_json_top(rng, size: str = "small", mode: str = "stream") -> Any:
    if size == "large":
        # hex-ish text compresses ~2:1, so wrappers still see > 40 KiB; mixed alphabet keeps escapes present
        total = rng.randint(90_000, 200_000)
        out = []
        while total > 0:
            n = min(total, rng.randint(500, 4000))
            out.append(_text(rng, rng.choice((ASCII_WORD, "0123456789abcdef", ASCII_WORD + JSON_SPECIAL + BMP)), n))
            total -= n
        return {"blob": out, "n": len(out)}
    r = rng.random()
    if r < 0.55:
        n = rng.choice((0, 1, 2, 3, 4))
        return {gen_jstr(rng, True): gen_json(rng, 1) for _ in range(n)}
    if r < 0.70:
        return [gen_json(rng, 1) for _ in range(rng.choice((0, 1, 2, 3, 6)))]
    if r < 0.82:
        return gen_jstr(rng)
    return _gen_jleaf(rng)


def gen_pyvalue(rng, depth: int = 0, with_bytes: bool = True) -> Any:
    """Value picklable without any global: None, bool, int, float, str, bytes, list, tuple, dict."""
    r = rng.random()
    if depth >= 3 or r < 0.55:
        k = rng.randrange(8)
        if k == 0:
            return None
        if k == 1:
            return rng.random() < 0.5
        if k == 2:
            return rng.randint(-300, 300)
        if k == 3:
            return rng.choice((-1, 1)) * rng.choice((2**31, 2**63, 2**200 + 3))
        if k == 4:
            return rng.uniform(-1e9, 1e9)
        if k == 5 and with_bytes:
            return rng.randbytes(_len(rng, 0))
        return gen_jstr(rng)
    n = rng.choice((0, 1, 2, 3, 4))
    if r < 0.70:
        return [gen_pyvalue(rng, depth + 1, with_bytes) for _ in range(n)]
    if r < 0.82:
        return tuple(gen_pyvalue(rng, depth + 1, with_bytes) for _ in range(n))
    return {(gen_jstr(rng, True) if rng.random() < 0.7 else rng.randint(-50, 50)): gen_pyvalue(rng, depth + 1, with_bytes) for _ in range(n)}


def gen_py_top(rng, size: str = "small", mode: str = "stream", with_bytes: bool = True) -> Any:
    if size == "large":
        n = rng.randint(45_000, 150_000)
        if with_bytes:
            return {"blob": rng.randbytes(n), "k": [1, 2.5, None]}
        return {"blob": _text(rng, ASCII_WORD + BMP, n // 2), "k": [1, 2.5, None]}
    return gen_pyvalue(rng, 0, with_bytes)


def gen_person(rng, size: str = "small", mode: str = "stream") -> Person:
    if size == "large":
        return Person(gen_jstr(rng, True), rng.randint(0, 150), [_text(rng, ASCII_WORD + BMP, rng.randint(200, 2000)) for _ in range(rng.randint(60, 120))])
    return Person(gen_jstr(rng, rng.random() < 0.7), rng.randint(-5, 10**12), [gen_jstr(rng, True) for _ in range(rng.choice((0, 1, 2, 5)))])


# ================================================================================================ Entry
@dataclasses.dataclass
class Entry:
    name: str
    family: str
    make: Callable[..., Any]  # (limit: int | None, hostile: bool) -> serializer
    gen: Callable[..., Any]  # (rng, size, mode) -> packet
    domain: str
    expect: Callable[[Any, str], Any] = _identity
    eq: Callable[[Any, Any], bool] = strict_eq
    conv: Callable[[], Any] | None = None
    sep: bytes | None = None
    has_limit: bool = False
    hints: tuple = ()
    large: str = "param"  # "param": gen(size="large") works; "only": every packet of this entry is large; "none"
    roundtrip: bool = True  # False: the class accepts the options but no packet survives a stream round trip (C06 only)
    kind: str = ""  # "oneshot" | "incremental" | "buffered" (computed)

    def __post_init__(self) -> None:
        ser = self.make(None, False)
        if isinstance(ser, BufferedIncrementalPacketSerializer):
            self.kind = "buffered"
        elif isinstance(ser, AbstractIncrementalPacketSerializer):
            self.kind = "incremental"
        else:
            self.kind = "oneshot"

    # -- fresh objects (`debug` = the serializers' debug option, for every layer of the entry)
    def serializer(self, limit: int | None = None, hostile: bool = False, debug: bool = False) -> Any:
        global _DEBUG
        saved, _DEBUG = _DEBUG, bool(debug)
        try:
            return self.make(limit if self.has_limit else None, hostile)
        finally:
            _DEBUG = saved

    def converter(self) -> Any:
        return self.conv() if self.conv is not None else None

    def stream_protocol(self, limit: int | None = None, hostile: bool = False, debug: bool = False) -> Any:
        if self.kind == "oneshot":
            return None
        return StreamProtocol(self.serializer(limit, hostile, debug), self.converter())

    def buffered_protocol(self, limit: int | None = None, hostile: bool = False, debug: bool = False) -> Any:
        if self.kind != "buffered":
            return None
        return BufferedStreamProtocol(self.serializer(limit, hostile, debug), self.converter())

    def datagram_protocol(self, limit: int | None = None, hostile: bool = False, debug: bool = False) -> Any:
        return DatagramProtocol(self.serializer(limit, hostile, debug), self.converter())

    def protocol(self, needs: str, limit: int | None = None, hostile: bool = False, debug: bool = False) -> Any:
        if needs == "stream":
            return self.stream_protocol(limit, hostile, debug)
        if needs == "buffered":
            return self.buffered_protocol(limit, hostile, debug)
        if needs == "datagram":
            return self.datagram_protocol(limit, hostile, debug)
        raise ValueError(needs)

    # -- packets
    def gen_packets(self, world: Any, n: int, mode: str = "stream", large: bool = False) -> list:
        rng = world.sub_rng("packets")
        size = "large" if self.large == "only" else "small"
        pkts = [self.gen(rng, size, mode) for _ in range(n)]
        if large and self.large == "param":
            k = rng.randrange(n)
            pkts[k] = self.gen(rng, "large", mode)
            if n > 2 and rng.random() < 0.3:
                pkts[(k + 1) % n] = self.gen(rng, "large", mode)
        return pkts


def produce(protocol: Any, packets: Sequence[Any]) -> tuple[bytes, list[int]]:
    """Bytes produced by the real StreamDataProducer.generate, and the end offset of every packet."""
    producer = StreamDataProducer(protocol)
    parts: list[bytes] = []
    bounds: list[int] = []
    total = 0
    for p in packets:
        for chunk in producer.generate(p):
            parts.append(chunk)
            total += len(chunk)
        bounds.append(total)
    return b"".join(parts), bounds


# ================================================================================================ structural cuts
class LazyCuts:
    """Sequence-like that computes the structural cut positions only when iterated (gen_cuts iterates it only for the
    'structural' family)."""

    def __init__(self, fn: Callable[[], list[int]]):
        self._fn = fn
        self._val: list[int] | None = None

    def _get(self) -> list[int]:
        if self._val is None:
            self._val = self._fn()
        return self._val

    def __iter__(self) -> Iterator[int]:
        return iter(self._get())

    def __len__(self) -> int:
        return len(self._get())

    def __getitem__(self, i):
        return self._get()[i]


def structural_cuts(stream: bytes, bounds: Sequence[int], sep: bytes | None = None, hints: Sequence[str] = (), cap: int = 192) -> list[int]:
    """Interesting cut positions of a produced stream: packet boundaries and their neighbourhood (separators, end markers,
    checksums, headers), inside multi-byte characters, after escape bytes / quotes, inside struct fields, inside
    compressed blocks.  gen_cuts adds -1/0/+1 to whatever is returned."""
    n = len(stream)
    pos: set[int] = set()
    start = 0
    seplen = len(sep) if sep else 0
    for b in bounds:
        for d in range(-5, 6):
            pos.add(b + d)
        for i in range(seplen + 1):
            pos.add(b - seplen + i)
        for d in range(1, 6):
            pos.add(start + d)
        if "blocks" in hints and b - start > 16:
            step = max(1, (b - start) // 12)
            pos.update(range(start + step, b, step))
        if "fields" in hints and b - start <= 96:
            pos.update(range(start, b))
        start = b
    scan = stream if n <= 4096 else stream[:4096]
    if "utf8" in hints:
        pos.update(i for i, c in enumerate(scan) if c & 0xC0 == 0x80)
    if "utf16" in hints:
        pos.update(range(1, min(len(scan), 400), 2))
        pos.update(i for i, c in enumerate(scan) if c in (0x0A, 0x0D, 0xD8, 0xDC))
    if "json" in hints:
        pos.update(i + 1 for i, c in enumerate(scan) if c in (0x5C, 0x22))
        pos.update(i for i, c in enumerate(scan) if c in (0x7B, 0x7D, 0x5B, 0x5D))
    if sep and seplen > 1:
        # occurrences of a proper prefix of the separator inside payloads
        first = sep[0]
        pos.update(i + 1 for i, c in enumerate(scan) if c == first)
    out = sorted(p for p in pos if 0 < p < n)
    if len(out) > cap:
        step = len(out) / cap
        out = [out[int(i * step)] for i in range(cap)]
    return out


# ================================================================================================ families
MATRIX: list[Entry] = []


def _add(e: Entry) -> Entry:
    MATRIX.append(e)
    return e


# ---------------------------------------------------------------- StringLineSerializer
_NEWLINES = {"LF": b"\n", "CR": b"\r", "CRLF": b"\r\n"}


def _line_pool(encoding: str, sep: bytes) -> str:
    if encoding == "ascii":
        cand = ASCII_WORD + "\r\n\t\x00" + JSON_SPECIAL
    elif encoding == "utf-8":
        cand = ASCII_WORD + "\r\n\t\x00" + BMP * 2 + ASTRAL * 2
    else:
        cand = ASCII_WORD + "\r\t\x00" + BMP * 2 + ASTRAL * 2 + ODD16 * 2
    bad = sep[-1]
    return "".join(c for c in cand if bad not in c.encode(encoding))


def _line_entry(newline: str, keep_end: bool, encoding: str) -> Entry:
    sep = _NEWLINES[newline]
    pool = _line_pool(encoding, sep)

    def make(limit, hostile=False):
        if limit is None:
            return StringLineSerializer(newline, encoding=encoding, keep_end=keep_end, **_D())
        return StringLineSerializer(newline, encoding=encoding, keep_end=keep_end, limit=limit, **_D())

    def gen(rng, size="small", mode="stream"):
        if mode == "oneshot" and rng.random() < 0.1:
            return ""  # valid in one-shot mode only (DESIGN §4, D10)
        n = rng.randint(40_000, 150_000) if size == "large" else _len(rng, 1)
        s = _text(rng, pool, n)
        data = s.encode(encoding)
        assert data and sep not in data and (data + sep).find(sep) == len(data), (newline, encoding, s)
        return s

    def expect(sent, mode):
        if keep_end and mode == "stream":
            return sent + sep.decode("ascii")
        return sent

    hints = {"ascii": (), "utf-8": ("utf8",), "utf-16-le": ("utf16",)}[encoding]
    return Entry(
        name=f"line/{newline}/keep_end={int(keep_end)}/{encoding}",
        family="line",
        make=make,
        gen=gen,
        expect=expect,
        domain="non-empty str ('' allowed in one-shot mode) whose encoding neither contains the separator nor forms it with the appended one",
        sep=sep,
        has_limit=True,
        hints=hints,
        # keep_end + utf-16-le: the kept separator is a single byte, so no line decodes; the class accepts the options
        roundtrip=not (keep_end and encoding == "utf-16-le"),
    )


for _nl in ("LF", "CR", "CRLF"):
    for _ke in (False, True):
        for _enc in ("ascii", "utf-8", "utf-16-le"):
            _add(_line_entry(_nl, _ke, _enc))


# ---------------------------------------------------------------- JSONSerializer
def _json_make(use_lines: bool, ensure_ascii: bool):
    def make(limit, hostile=False):
        kw: dict[str, Any] = {"use_lines": use_lines}
        if limit is not None:
            kw["limit"] = limit
        return JSONSerializer(JSONEncoderConfig(ensure_ascii=ensure_ascii), **kw, **_D())

    return make


for _ul in (True, False):
    for _ea in (True, False):
        _add(
            Entry(
                name=f"json/use_lines={int(_ul)}/ensure_ascii={int(_ea)}",
                family="json",
                make=_json_make(_ul, _ea),
                gen=gen_json_top,
                domain="JSON values: None/bool/int/finite-or-infinite float (no NaN)/str without lone surrogates/list/dict with str keys, depth <= 5",
                sep=b"\n" if _ul else None,
                has_limit=True,
                hints=("json",) if _ea else ("json", "utf8"),
            )
        )


# ---------------------------------------------------------------- StructSerializer / NamedTupleStructSerializer
def _struct_plan(fmt: str) -> tuple[str, list[tuple[str, int]]]:
    prefix = fmt[0] if fmt[0] in "@=<>!" else "!"
    body = fmt[1:] if fmt[0] in "@=<>!" else fmt
    fields: list[tuple[str, int]] = []
    for cnt, code in re.findall(r"(\d*)([xcbB?hHiIlLqQfds])", body):
        c = int(cnt) if cnt else 1
        if code == "x":
            continue
        if code == "s":
            fields.append((code, c))
        else:
            fields.extend([(code, 1)] * c)
    return prefix, fields


def _struct_value(rng, prefix: str, code: str, count: int) -> Any:
    if code == "s":
        return rng.randbytes(count)
    if code == "c":
        return rng.randbytes(1)
    if code == "?":
        return rng.random() < 0.5
    if code == "d":
        return rng.choice((0.0, -1.5, 1e308, 5e-324, float("inf"))) if rng.random() < 0.3 else rng.uniform(-1e12, 1e12)
    if code == "f":
        return _struct.unpack("<f", _struct.pack("<f", rng.uniform(-1e6, 1e6)))[0]
    bits = 8 * _struct.calcsize(prefix + code)
    if code.islower():
        lo, hi = -(1 << (bits - 1)), (1 << (bits - 1)) - 1
    else:
        lo, hi = 0, (1 << bits) - 1
    r = rng.random()
    if r < 0.15:
        return lo
    if r < 0.30:
        return hi
    if r < 0.45:
        return rng.choice((0, 1, 10, 13, 255 if hi >= 255 else hi))  # small values: bytes like \n, \r, \0 on the wire
    return rng.randint(lo, hi)


def _struct_entry(fmt: str) -> Entry:
    prefix, fields = _struct_plan(fmt)

    def make(limit, hostile=False):
        return StructSerializer(fmt, **_D())

    def gen(rng, size="small", mode="stream"):
        return tuple(_struct_value(rng, prefix, code, cnt) for code, cnt in fields)

    big = StructSerializer(fmt).packet_size >= 40_000
    return Entry(
        name=f"struct/{fmt}",
        family="struct",
        make=make,
        gen=gen,
        domain="tuples with every field inside the range of its format code; 's' fields exactly N bytes; 'f' values float32-representable; no NaN",
        hints=("fields",),
        large="only" if big else "none",
    )


for _fmt in ("hI", "<bBhHiIqQ", ">d?5s", "@ihq", "=f3x?c", "!10s?d", ">Qxxh", "<?", "@3sqb", ">I65532s"):
    _add(_struct_entry(_fmt))

RecA = namedtuple("RecA", ["name", "age", "score", "ok"])
RecB = namedtuple("RecB", ["tag", "big", "small"])


def _fit_text(rng, pool: str, maxbytes: int, encoding: str, exact: bool = False) -> str:
    out = ""
    used = 0
    want = maxbytes if exact else rng.randint(0, maxbytes)
    for _ in range(want * 2 + 2):
        if used >= want:
            break
        c = rng.choice(pool)
        k = len(c.encode(encoding))
        if used + k > want:
            if exact:
                c, k = "x", 1
            else:
                break
        out += c
        used += k
    if not exact:
        out = out.rstrip("\0")
    return out


def _nt_entry(tag: str, cls: Any, formats: dict, endian: str, encoding: str | None, strip: bool) -> Entry:
    sizes = {f: int(v[:-1] or 1) for f, v in formats.items() if v.endswith("s")}
    fmt = (endian or "!") + "".join(formats[f] for f in cls._fields)
    prefix, plan = _struct_plan(fmt)

    def make(limit, hostile=False):
        return NamedTupleStructSerializer(cls, dict(formats), endian, encoding, "strict", strip, **_D())

    def gen(rng, size="small", mode="stream"):
        vals = []
        for f, (code, cnt) in zip(cls._fields, plan):
            if f in sizes:
                n = sizes[f]
                if encoding is None:
                    v: Any = rng.randbytes(n if not strip else rng.randint(0, n))
                    if strip:
                        v = v.rstrip(b"\0")
                else:
                    pool = ASCII_WORD + "\0" if encoding == "ascii" else ASCII_WORD + BMP + ASTRAL + "\0"
                    v = _fit_text(rng, pool, n, encoding, exact=not strip)
                vals.append(v)
            else:
                vals.append(_struct_value(rng, prefix, code, cnt))
        return cls(*vals)

    return Entry(
        name=f"namedtuple/{tag}",
        family="namedtuple",
        make=make,
        gen=gen,
        domain="named tuples in range; string fields fit their 'Ns' slot, and do not end with NUL when trailing NULs are stripped (exactly N bytes otherwise)",
        hints=("fields",) if encoding != "utf-8" else ("fields", "utf8"),
        large="none",
    )


_FA = {"name": "10s", "age": "I", "score": "d", "ok": "h"}  # "?" is rejected by NamedTupleStructSerializer (isalpha)
_FB = {"tag": "3s", "big": "q", "small": "b"}
_add(_nt_entry("RecA/>/utf-8/strip", RecA, _FA, ">", "utf-8", True))
_add(_nt_entry("RecA/</utf-8/strip", RecA, _FA, "<", "utf-8", True))
_add(_nt_entry("RecA/default/bytes/strip", RecA, _FA, "", None, True))
_add(_nt_entry("RecA/>/ascii/nostrip", RecA, _FA, ">", "ascii", False))
_add(_nt_entry("RecB/@/utf-8/strip", RecB, _FB, "@", "utf-8", True))
_add(_nt_entry("RecB/=/bytes/nostrip", RecB, _FB, "=", None, False))


# ---------------------------------------------------------------- inner serializers for wrappers
def _inner_json(hostile=False):
    return JSONSerializer(**_D())


def _inner_pickle(hostile=False):
    return PickleSerializer(unpickler_cls=_unpickler(hostile), **_D())


_INNER = {
    "json": (_inner_json, gen_json_top, "as json/*", ("b64",)),
    "pickle": (_inner_pickle, gen_py_top, "None/bool/int/float/str/bytes/list/tuple/dict (picklable without globals)", ("b64",)),
}

B64_KEY = _b64.urlsafe_b64encode(bytes(range(32)))


def _b64_entry(alphabet: str, checksum: Any, ckname: str, sep: bytes, inner: str) -> Entry:
    mk_inner, gen, dom, _ = _INNER[inner]

    def make(limit, hostile=False):
        kw: dict[str, Any] = {"alphabet": alphabet, "checksum": checksum, "separator": sep}
        if limit is not None:
            kw["limit"] = limit
        return Base64EncoderSerializer(mk_inner(hostile), **kw, **_D())

    return Entry(
        name=f"base64/{alphabet}/checksum={ckname}/sep={sep.hex()}/{inner}",
        family="base64",
        make=make,
        gen=gen,
        domain=dom,
        sep=sep,
        has_limit=True,
        hints=("b64",),
    )


for _alpha in ("standard", "urlsafe"):
    for _ck, _ckn in ((False, "0"), (True, "1"), (B64_KEY, "key")):
        for _sep in (b"\r\n", b"|", b"<>!"):
            for _in in ("json", "pickle"):
                _add(_b64_entry(_alpha, _ck, _ckn, _sep, _in))


def _comp_entry(family: str, cls: Any, level: int, inner: str) -> Entry:
    mk_inner, gen, dom, _ = _INNER[inner]

    def make(limit, hostile=False):
        return cls(mk_inner(hostile), compress_level=level, **_D())

    return Entry(name=f"{family}/level={level}/{inner}", family=family, make=make, gen=gen, domain=dom, hints=("blocks",))


for _lvl in (1, 6, 9):
    for _in in ("json", "pickle"):
        _add(_comp_entry("zlib", ZlibCompressorSerializer, _lvl, _in))
for _lvl in (1, 6, 9):
    for _in in ("json", "pickle"):
        _add(_comp_entry("bz2", BZ2CompressorSerializer, _lvl, _in))


# ---------------------------------------------------------------- PickleSerializer (one-shot only)
def _pickle_entry(protocol: int, optimize: bool) -> Entry:
    with_bytes = protocol >= 3  # protocols < 3 pickle bytes through the _codecs.encode global

    def make(limit, hostile=False):
        return PickleSerializer(PicklerConfig(protocol=protocol), unpickler_cls=_unpickler(hostile), pickler_optimize=optimize, **_D())

    def gen(rng, size="small", mode="oneshot"):
        return gen_py_top(rng, size, mode, with_bytes)

    return Entry(
        name=f"pickle/protocol={protocol}/optimize={int(optimize)}",
        family="pickle",
        make=make,
        gen=gen,
        domain="None/bool/int/float/str/bytes(protocol>=3)/list/tuple/dict: picklable without globals (restricted unpickler)",
        hints=(),
    )


for _proto in (4, 2, 3, 5):
    for _opt in (False, True):
        _add(_pickle_entry(_proto, _opt))


# ---------------------------------------------------------------- minimal subclasses of the base classes
def _autosep_entry(sep: bytes) -> Entry:
    pool = bytes(b for b in b"abcxyz012 \x00\r\n\x7f\xfe" if b != sep[-1])

    def make(limit, hostile=False):
        return RawAutoSep(sep, limit=limit, **_D())

    def gen(rng, size="small", mode="stream"):
        n = rng.randint(40_000, 150_000) if size == "large" else _len(rng, 1)
        data = bytes(rng.choices(pool, k=n))
        assert data and sep not in data and (data + sep).find(sep) == len(data)
        return data

    return Entry(
        name=f"autosep/sep={sep.hex()}",
        family="autosep",
        make=make,
        gen=gen,
        domain="non-empty bytes without 0xFF that neither contain the separator nor form it with the appended one",
        sep=sep,
        has_limit=True,
        hints=(),
    )


for _sep in (b"\x00", b"ab", b"aab"):
    _add(_autosep_entry(_sep))


def _fixed_entry(size: int) -> Entry:
    def make(limit, hostile=False):
        return RawFixed(size, **_D())

    def gen(rng, size_="small", mode="stream"):
        data = bytearray(rng.randbytes(size))
        if data[0] == 0xFF:
            data[0] = 0xFE
        return bytes(data)

    return Entry(
        name=f"fixed/size={size}",
        family="fixed",
        make=make,
        gen=gen,
        domain="bytes of exactly `size` not starting with 0xFF",
        hints=("fields",),
        large="only" if size >= 40_000 else "none",
    )


for _size in (1, 7, 64, 70_001):
    _add(_fixed_entry(_size))


def _filebased_entry(protocol: int) -> Entry:
    def make(limit, hostile=False):
        return PickleFile(protocol=protocol, unpickler_cls=_unpickler(hostile), limit=limit, **_D())

    def gen(rng, size="small", mode="stream"):
        return gen_py_top(rng, size, mode, True)

    return Entry(
        name=f"filebased/pickle/protocol={protocol}",
        family="filebased",
        make=make,
        gen=gen,
        domain="None/bool/int/float/str/bytes/list/tuple/dict (picklable without globals)",
        has_limit=True,
        hints=("blocks",),
    )


for _proto in (4, 3, 5):
    _add(_filebased_entry(_proto))


# ---------------------------------------------------------------- StapledPacketSerializer forms
def _limit_kw(limit):
    return {} if limit is None else {"limit": limit}


def _json_text(sent, mode):
    return _json.dumps(sent, ensure_ascii=True, separators=(",", ":"))


def _stapled_entries() -> None:
    # (incremental, incremental) -> StapledIncrementalPacketSerializer
    def mk1(limit, hostile=False):
        return StapledPacketSerializer(JSONSerializer(JSONEncoderConfig(ensure_ascii=True)), JSONSerializer(**_limit_kw(limit), **_D()))

    _add(Entry("stapled/incremental/json-ascii>json", "stapled", mk1, gen_json_top, "as json/*", sep=b"\n", has_limit=True, hints=("json",)))

    # (incremental, buffered) -> StapledBufferedIncrementalPacketSerializer
    line_ascii = next(e for e in MATRIX if e.name == "line/LF/keep_end=0/ascii")

    def mk2(limit, hostile=False):
        return StapledPacketSerializer(StringLineSerializer("LF", encoding="ascii"), StringLineSerializer("LF", encoding="utf-8", **_limit_kw(limit), **_D()))

    _add(Entry("stapled/buffered/line-ascii>line-utf8", "stapled", mk2, line_ascii.gen, line_ascii.domain, sep=b"\n", has_limit=True))

    # cross-format: JSON lines are received as text lines
    def mk3(limit, hostile=False):
        return StapledPacketSerializer(JSONSerializer(JSONEncoderConfig(ensure_ascii=True), use_lines=True), StringLineSerializer("LF", encoding="utf-8", **_limit_kw(limit), **_D()))

    def gen3(rng, size="small", mode="stream"):
        v = gen_json_top(rng, size, mode)
        while mode == "stream" and isinstance(v, float) and v in (float("inf"), float("-inf")):
            v = gen_json_top(rng, size, mode)
        return v

    _add(Entry("stapled/buffered/json>line", "stapled", mk3, gen3, "as json/*; received as the compact ASCII JSON text", expect=_json_text, sep=b"\n", has_limit=True, hints=("json",)))

    # explicit classes: the Incremental class upgrades itself when the receiver is buffered, the Buffered class used directly
    def mk4(limit, hostile=False):
        return StapledIncrementalPacketSerializer(
            Base64EncoderSerializer(JSONSerializer(), separator=b"|"), Base64EncoderSerializer(JSONSerializer(**_D()), separator=b"|", **_limit_kw(limit), **_D())
        )

    _add(Entry("stapled/incremental-class/base64-json", "stapled", mk4, gen_json_top, "as json/*", sep=b"|", has_limit=True, hints=("b64",)))

    def mk5b(limit, hostile=False):
        return StapledBufferedIncrementalPacketSerializer(ZlibCompressorSerializer(JSONSerializer(), compress_level=1), ZlibCompressorSerializer(JSONSerializer(**_D()), compress_level=9, **_D()))

    _add(Entry("stapled/buffered-class/zlib1>zlib9/json", "stapled", mk5b, gen_json_top, "as json/*", hints=("blocks",)))

    # (one-shot, one-shot) -> plain StapledPacketSerializer (datagram only)
    def mk6(limit, hostile=False):
        return StapledPacketSerializer(PickleSerializer(PicklerConfig(protocol=4)), PickleSerializer(unpickler_cls=_unpickler(hostile), **_D()))

    _add(Entry("stapled/oneshot/pickle4>pickle-restricted", "stapled", mk6, gen_py_top, "picklable without globals"))


_stapled_entries()


# ---------------------------------------------------------------- protocols with a converter
def _view_expect(sent: Person, mode: str) -> PersonView:
    return PersonView(sent.name, sent.age, tuple(sent.tags))


def _stapled_conv():
    return StapledPacketConverter(PersonConverter(), PersonViewConverter())


def _converter_entries() -> None:
    dom = "Person(name: str, age: int, tags: list[str]) dataclass, converted to a dict DTO"

    def mk_lines(limit, hostile=False):
        return JSONSerializer(use_lines=True, **_limit_kw(limit), **_D())

    def mk_raw(limit, hostile=False):
        return JSONSerializer(JSONEncoderConfig(ensure_ascii=False), use_lines=False, **_limit_kw(limit), **_D())

    def mk_b64(limit, hostile=False):
        return Base64EncoderSerializer(JSONSerializer(**_D()), checksum=True, **_limit_kw(limit), **_D())

    def mk_zlib(limit, hostile=False):
        return ZlibCompressorSerializer(JSONSerializer(**_D()), compress_level=6, **_D())

    _add(Entry("converter/person/json-lines", "converter", mk_lines, gen_person, dom, conv=PersonConverter, sep=b"\n", has_limit=True, hints=("json",)))
    _add(Entry("converter/person/json-raw", "converter", mk_raw, gen_person, dom, conv=PersonConverter, has_limit=True, hints=("json", "utf8")))
    _add(Entry("converter/person/base64-json", "converter", mk_b64, gen_person, dom, conv=PersonConverter, sep=b"\r\n", has_limit=True, hints=("b64",)))
    _add(Entry("converter/person/zlib-json", "converter", mk_zlib, gen_person, dom, conv=PersonConverter, hints=("blocks",)))
    _add(Entry("converter/stapled/json-lines", "converter", mk_lines, gen_person, dom, expect=_view_expect, conv=_stapled_conv, sep=b"\n", has_limit=True, hints=("json",)))
    _add(Entry("converter/stapled/base64-json", "converter", mk_b64, gen_person, dom, expect=_view_expect, conv=_stapled_conv, sep=b"\r\n", has_limit=True, hints=("b64",)))


_converter_entries()


# ---------------------------------------------------------------- "identity" subclasses (appended last: existing entry indices stay put)
# A user subclass is entitled to return the `data: bytes` argument of deserialize() as its packet.  If a base class ever hands
# deserialize() a view of the reused receive buffer instead of bytes, such packets silently change (or become unusable)
# when the next read overwrites the buffer: only a comparison made after the whole stream was received, on the kept
# objects and type-strict, sees it.
class IdentityAutoSep(AutoSeparatedPacketSerializer[bytes, bytes]):
    __slots__ = ()

    def __init__(self, separator: bytes, *, limit: int | None = None, debug: bool = False) -> None:
        if limit is None:
            super().__init__(separator, debug=debug)
        else:
            super().__init__(separator, limit=limit, debug=debug)

    def serialize(self, packet: bytes) -> bytes:
        return packet

    def deserialize(self, data: bytes) -> bytes:
        return data


class IdentityFixed(FixedSizePacketSerializer[bytes, bytes]):
    __slots__ = ()

    def serialize(self, packet: bytes) -> bytes:
        return packet

    def deserialize(self, data: bytes) -> bytes:
        if len(data) != self.packet_size:  # one-shot use: the subclass's deserialize is the only size check there is
            raise DeserializeError("wrong size")
        return data


class LenPrefixFile(FileBasedPacketSerializer[bytes, bytes]):
    """File-based format that is not pickle: 2-byte big-endian length + payload; the packet is what file.read() returned."""

    __slots__ = ()

    def __init__(self, *, limit: int | None = None, debug: bool = False) -> None:
        if limit is None:
            super().__init__(expected_load_error=ValueError, debug=debug)
        else:
            super().__init__(expected_load_error=ValueError, limit=limit, debug=debug)

    def dump_to_file(self, packet: bytes, file: Any) -> None:
        file.write(len(packet).to_bytes(2, "big"))
        file.write(packet)

    def load_from_file(self, file: Any) -> bytes:
        head = file.read(2)
        if len(head) < 2:
            raise EOFError
        n = int.from_bytes(head, "big")
        if n > 60_000:
            raise ValueError("length field out of range")
        data = file.read(n)
        if len(data) < n:
            raise EOFError
        return data


def _identity_entries() -> None:
    for sep in (b"\n", b"\r\n"):
        pool = bytes(b for b in b"abcxyz012 \x00\r\n\x7f\xfe\xff" if b != sep[-1])

        def make(limit, hostile=False, sep=sep):
            return IdentityAutoSep(sep, limit=limit, **_D())

        def gen(rng, size="small", mode="stream", sep=sep, pool=pool):
            n = rng.randint(40_000, 150_000) if size == "large" else _len(rng, 1)
            data = bytes(rng.choices(pool, k=n))
            assert data and sep not in data and (data + sep).find(sep) == len(data)
            return data

        _add(Entry(f"autosep/identity/sep={sep.hex()}", "autosep", make, gen, "non-empty bytes that neither contain the separator nor form it with the appended one; deserialize() returns its argument", sep=sep, has_limit=True))

    for size in (1, 5, 32):

        def make_f(limit, hostile=False, size=size):
            return IdentityFixed(size, **_D())

        def gen_f(rng, size_="small", mode="stream", size=size):
            return rng.randbytes(size)

        _add(Entry(f"fixed/identity/size={size}", "fixed", make_f, gen_f, "bytes of exactly `size`; deserialize() returns its argument", hints=("fields",), large="none"))

    def make_l(limit, hostile=False):
        return LenPrefixFile(limit=limit, **_D())

    def gen_l(rng, size="small", mode="stream"):
        return rng.randbytes(rng.randint(40_000, 59_000) if size == "large" else _len(rng, 0))

    _add(Entry("filebased/lenprefix", "filebased", make_l, gen_l, "bytes of length 0..60000; the packet is the object returned by file.read()", has_limit=True, hints=("blocks",)))


_identity_entries()


# ================================================================================================ lookups
BY_NAME: dict[str, Entry] = {e.name: e for e in MATRIX}
assert len(BY_NAME) == len(MATRIX), "duplicate entry names"

FAMILIES: dict[str, list[Entry]] = {}
for _e in MATRIX:
    FAMILIES.setdefault(_e.family, []).append(_e)


def select(family: str, *, needs: str = "stream", roundtrip: bool | None = None, large: bool | None = None) -> list[Entry]:
    """Entries of a family usable on a receive path.  needs: "stream" (any incremental), "buffered", "datagram" (all)."""
    out = []
    for e in FAMILIES[family]:
        if needs == "stream" and e.kind == "oneshot":
            continue
        if needs == "buffered" and e.kind != "buffered":
            continue
        if roundtrip is not None and e.roundtrip != roundtrip:
            continue
        if large is True and e.large == "none":
            continue
        if large is False and e.large == "only":
            continue
        out.append(e)
    return out


def domains() -> str:
    seen: dict[str, str] = {}
    for e in MATRIX:
        seen.setdefault(e.family, e.domain)
    return "; ".join(f"{k}: {v}" for k, v in seen.items())
