"""C13 — cancel scopes interrupt on time, swallow only their own cancel, honour shields (DESIGN §4 C13).

Generated scope programs (JSON-able trees) are run by a small interpreter on the REAL AsyncIOBackend
(CancelScope / TaskGroup / TaskUtils of ``_asyncio/tasks.py``) under ``SimEventLoop`` (virtual time).
Tier A checks the invariants A1–A6 on every program; tier B compares restricted programs with the reference
interpreter ``models.scopes``.

Program statements (dicts; ``id`` = pre-order number, unique in the program; durations ``k`` are in 1/512 s: sleeps are
multiples of 8 (= 1/64 s), scope deadlines are 8j+4 ("half grid", cannot tie with a sleep that started on the grid)
or 8j (deliberate tie); in tier-B programs task i first sleeps i units so that tasks rarely act at the same instant):

  {"op":"sleep","k":k}             backend.sleep(k/512)                unshielded checkpoint (k == 0 too)
  {"op":"yield"}                   backend.coro_yield()                unshielded checkpoint
  {"op":"syield"}                  backend.cancel_shielded_coro_yield()  shielded checkpoint
  {"op":"scope","kind":K,"k":k,"body":[...]}   K in after|at|timeout|timeout_at|open
  {"op":"cancel","ref":sid}        scopes[sid].cancel() if that scope is open now (enclosing or foreign)
  {"op":"resched","ref":sid,"k":k} scopes[sid].reschedule(now + k/512)  (k < 0: math.inf)
  {"op":"shield","body":[...]}     backend.ignore_cancellation(body())
  {"op":"try","body":[...]}        try: body  except TimeoutError: pass
  {"op":"tg","children":[[...],…],"body":[...]}   backend.create_task_group(), start_soon(children), body
"""
from __future__ import annotations

import asyncio
import math
from typing import Any

from easynetwork.lowlevel.api_async.backend._asyncio.backend import AsyncIOBackend

from models import scopes as ref_model
from vsim.loop import run_async
from vsim.runner import Harness
from vsim.world import HarnessError, StepCap, Violation, World

PROPERTY = "C13"
LEVEL = "exploration"
RULE = (
    "generated scope programs (<=3 tasks incl. task-group children, <=14 statements per task, nesting depth <=4) over sleep/coro_yield/"
    "cancel_shielded_coro_yield/move_on_after/move_on_at/timeout/timeout_at/open_cancel_scope/scope.cancel (enclosing or foreign)/"
    "scope.reschedule/ignore_cancellation/try-except-TimeoutError/create_task_group, plus 0-2 external task.cancel() at chosen virtual times; "
    "run on the real AsyncIOBackend under SimEventLoop; tier A = invariants A1-A6 on every run, tier B = per-task trace equality with "
    "models/scopes.py on runs without ties, external cancels, overlapping cancelled scopes or clock creep. "
    "fault kind cancel_at_time counts every cancellation that became effective (external task.cancel, scope deadline, scope.cancel())"
)
COMPONENTS_REAL = [
    "easynetwork.lowlevel.api_async.backend._asyncio.tasks (CancelScope, TaskGroup, TaskUtils)",
    "easynetwork.lowlevel.api_async.backend._asyncio.backend.AsyncIOBackend (sleep, coro_yield, ignore_cancellation, open_cancel_scope, create_task_group)",
    "easynetwork.lowlevel.api_async.backend.abc (timeout/timeout_at/move_on_after/move_on_at, _timeout_scope)",
    "asyncio.Task / asyncio.TaskGroup / BaseEventLoop._run_once (CPython)",
]
COMPONENTS_STUB = [
    "clock (SimEventLoop.time = world.now; select(0) creeps after 64 zero-wait iterations)",
    "selector (no fds)",
    "task factory: asyncio.Task subclass that only records cancel() calls",
]
ASSUMPTIONS = [
    "a Python subclass of asyncio.Task that overrides cancel() only to record the call behaves like asyncio.Task",
    "virtual CPU time: a busy loop advances the clock by 1/1024 s per iteration after 64 free iterations; time comparisons get that slack",
]
BUDGET = {"quick": 40, "thorough": 480}

U = 512  # time unit of every "k" in a program: 1/512 s
GRID = 8  # sleeps are multiples of 8 units = 1/64 s
HALF = 4  # scope deadlines sit on odd multiples of 4 units = 1/128 s unless a tie is wanted
SCOPE_MSG = "Cancelled by cancel scope "
CHECKPOINTS = ("sleep", "yield", "post")  # unshielded checkpoints of the language ("post" = appended after the body)
MAX_STMTS = 14
MAX_DEPTH = 4
MAX_TASKS = 3


# ===================================================================================================== generator
class _Gen:
    def __init__(self, world: World, mode: int, restricted: bool):
        self.w = world
        self.mode = mode  # 0 calm, 1 scopes fire, 2 scopes + external cancels
        self.restricted = restricted  # tier B flavour: no deliberate ties, every task on its own time phase
        self.next_id = 0
        self.tasks_left = MAX_TASKS
        self.left = 0
        self.task_no = 0
        self.phase = 0

    def nid(self) -> int:
        self.next_id += 1
        return self.next_id

    def ops(self, depth: int) -> list[str]:
        ops = ["sleep", "yield", "scope", "scope", "shield", "syield", "try"]
        if self.mode:
            ops += ["cancel", "cancel", "resched", "scope", "sleep"]
        if self.tasks_left > 0:
            ops.append("tg")
        if depth >= MAX_DEPTH:
            ops = [o for o in ops if o not in ("scope", "shield", "try", "tg")]
        return ops

    def delay(self, tag: str, n: int, absolute: bool = False) -> int:
        """a scope delay/deadline in units of 1/512 s: on the half grid (odd multiple of 1/128 s, cannot tie with a sleep
        that started on the grid) unless a tie is wanted"""
        w = self.w
        j = w.choose(tag, n)
        if self.mode == 0:
            return GRID * 4096 + HALF
        if not self.restricted and w.chance(tag + ".tie", 1, 4):
            return GRID * j  # on the grid: may tie with a sleep
        return GRID * j + HALF + (self.phase if absolute and self.restricted else 0)

    def task_body(self, parent_phase: int, depth: int, nmax: int) -> list[dict]:
        """a new task: in restricted programs it first moves to its own phase (i/512 s) so that tasks rarely act at the same instant"""
        saved_left, saved_phase = self.left, self.phase
        self.left = MAX_STMTS
        no, self.task_no = self.task_no, self.task_no + 1
        out: list[dict] = []
        if self.restricted:
            self.phase = no % 4
            d = (self.phase - parent_phase) % 4
            if d:
                self.left -= 1
                out.append({"op": "sleep", "id": self.nid(), "k": d})
        out += self.body(depth, nmax)
        self.left, self.phase = saved_left, saved_phase
        return out

    def body(self, depth: int, nmax: int) -> list[dict]:
        w = self.w
        n = 1 + w.choose("nstmts", nmax)
        out = []
        for _ in range(n):
            if self.left <= 0:
                break
            out.append(self.stmt(depth))
        return out

    def stmt(self, depth: int) -> dict:
        w = self.w
        self.left -= 1
        op = w.pick("op", self.ops(depth))
        st: dict[str, Any] = {"op": op, "id": self.nid()}
        if op == "sleep":
            st["k"] = GRID * w.choose("sleep", 7)
        elif op == "scope":
            kind = w.pick("kind", ["after", "timeout", "open", "at", "timeout_at"])
            st["kind"] = kind
            if kind == "open":
                st["k"] = -1
            elif kind in ("after", "timeout"):
                st["k"] = self.delay("delay", 8)
            else:
                st["k"] = self.delay("deadline", 28, absolute=True)
            st["body"] = self.body(depth + 1, 4)
        elif op in ("shield", "try"):
            st["body"] = self.body(depth + 1, 3)
        elif op == "cancel":
            st["ref"] = None
        elif op == "resched":
            st["ref"] = None
            st["k"] = -1 if w.chance("resched.inf", 1, 6) else self.delay("resched", 8)
        elif op == "tg":
            nch = 1 + w.choose("nchildren", self.tasks_left)
            self.tasks_left -= nch
            st["children"] = [self.task_body(self.phase, depth + 1, 4) for _ in range(nch)]
            st["body"] = self.body(depth + 1, 3)
        return st

    def program(self) -> dict:
        w = self.w
        ntop = 1 + w.choose("ntasks", MAX_TASKS)
        self.tasks_left = MAX_TASKS - ntop
        tasks = [self.task_body(0, 1, 6) for _ in range(ntop)]
        prog = {"tasks": tasks, "ext": []}
        self.resolve_refs(prog)
        names = task_names(prog)
        if self.mode == 2:
            for _ in range(1 + w.choose("next", 2)):
                prog["ext"].append([w.pick("ext.task", names), 1 + w.choose("ext.t", 40 * GRID)])  # time in 1/512 s
        return prog

    def resolve_refs(self, prog: dict) -> None:
        """cancel/resched targets: an enclosing scope of the same task (innermost first) or any scope of another task"""
        per_task: dict[str, list[int]] = {}
        refs: list[tuple[str, dict, list[int]]] = []

        def walk(name: str, body: list[dict], enclosing: list[int]) -> None:
            for st in body:
                op = st["op"]
                if op == "scope":
                    per_task.setdefault(name, []).append(st["id"])
                    walk(name, st["body"], [st["id"]] + enclosing)
                elif op in ("shield", "try"):
                    walk(name, st["body"], enclosing)
                elif op == "tg":
                    for i, ch in enumerate(st["children"]):
                        walk(f"{name}.{st['id']}c{i}", ch, [])
                    walk(name, st["body"], enclosing)
                elif op in ("cancel", "resched"):
                    refs.append((name, st, list(enclosing)))

        for i, b in enumerate(prog["tasks"]):
            walk(f"T{i}", b, [])
        for name, st, enclosing in refs:
            foreign = [sid for tn in sorted(per_task) if tn != name for sid in per_task[tn]]
            cands = enclosing + foreign
            if not cands:
                st["op"] = "yield"  # nothing to refer to: degrade to a checkpoint
                st.pop("ref", None)
                st.pop("k", None)
                continue
            if enclosing and foreign:
                cands = foreign if self.w.chance("ref.foreign", 1, 3) else enclosing
            st["ref"] = cands[self.w.choose("ref", len(cands))]


def task_names(prog: dict) -> list[str]:
    names: list[str] = []

    def walk(name: str, body: list[dict]) -> None:
        for st in body:
            if st["op"] == "tg":
                for i, ch in enumerate(st["children"]):
                    cn = f"{name}.{st['id']}c{i}"
                    names.append(cn)
                    walk(cn, ch)
            if "body" in st:
                walk(name, st["body"])

    for i, b in enumerate(prog["tasks"]):
        names.append(f"T{i}")
        walk(f"T{i}", b)
    return names


# ===================================================================================================== interpreter
class _Task(asyncio.Task):  # type: ignore[type-arg]
    """asyncio.Task that reports every cancel() call to the running interpreter (observation only).

    Its hash is its creation number in the run instead of its address: asyncio.TaskGroup keeps its children in a
    ``set`` and cancels them in iteration order, which would otherwise make the order of sibling cancellations (and
    with it the trace) depend on memory addresses."""

    def __init__(self, coro: Any, **kw: Any):
        run = _CURRENT[0]
        if run is not None:
            run.task_no += 1
            self._sim_no = run.task_no
        else:  # pragma: no cover
            self._sim_no = 0
        super().__init__(coro, **kw)  # registers the task in a WeakSet: the hash must exist already

    def __hash__(self) -> int:
        return self._sim_no

    def __eq__(self, other: object) -> bool:
        return self is other

    def cancel(self, msg: Any = None) -> bool:
        run = _CURRENT[0]
        res = super().cancel(msg)
        if run is not None:
            run.on_task_cancel(self, msg, res)
        return res


_CURRENT: list[Any] = [None]


class Rec:
    __slots__ = ("task", "sid", "op", "shield", "scopes", "s_seq", "s_t", "polls", "e_seq", "e_t", "out", "by", "extra")

    def __init__(self, task: str, sid: int, op: str, shield: int, scopes: tuple[int, ...], s_seq: int, s_t: float, polls: dict):
        self.task = task
        self.sid = sid
        self.op = op
        self.shield = shield
        self.scopes = scopes  # enclosing scope sids of the same task, innermost first
        self.s_seq = s_seq
        self.s_t = s_t
        self.polls = polls  # sid -> (cancel_called, when) of the enclosing open scopes at statement start
        self.e_seq = -1
        self.e_t = -1.0
        self.out: str | None = None  # ok | cancelled | timeout
        self.by: Any = None  # for cancelled: sid of the scope named in the message, "ext", or "?"
        self.extra: dict[str, Any] = {}

    def brief(self) -> str:
        return f"{self.task}#{self.sid}:{self.op}[{self.s_seq}@{self.s_t * U:g}..{self.e_seq}@{self.e_t * U:g}]={self.out}" + (f"/{self.by}" if self.by is not None else "")


class ScopeInfo:
    __slots__ = ("sid", "task", "kind", "obj", "open", "shield", "parents", "enter_seq", "enter_t", "exit_seq", "exit_t", "body_exc", "called", "caught", "own_cancels", "own_cancels_shielded", "cancelling_enter", "cancelling_exit", "called_seq", "called_t")

    def __init__(self, sid: int, task: str, kind: str):
        self.sid = sid
        self.task = task
        self.kind = kind
        self.obj: Any = None
        self.open = False
        self.shield = 0
        self.parents: tuple[int, ...] = ()
        self.enter_seq = self.exit_seq = -1
        self.enter_t = self.exit_t = -1.0
        self.body_exc: str | None = None
        self.called = False
        self.caught = False
        self.own_cancels = 0  # task.cancel(msg=<this scope>) calls observed while it was open
        self.own_cancels_shielded = 0  # … of which issued while the host task was inside a shielded section
        self.cancelling_enter = self.cancelling_exit = 0
        self.called_seq = -1  # first seq at which cancel_called() was observed True (poll or own cancel statement)
        self.called_t = -1.0


class TaskInfo:
    __slots__ = ("name", "task", "recs", "ext", "outcome", "shield_now", "cancelling_end", "started", "parent_tg", "top_exits")

    def __init__(self, name: str):
        self.name = name
        self.task: Any = None
        self.recs: list[Rec] = []
        self.ext: list[tuple[int, float, str, bool]] = []  # (seq, t, source, accepted) cancel() calls without a scope message
        self.outcome: str | None = None
        self.shield_now = 0
        self.cancelling_end: int | None = None
        self.started = False
        self.top_exits: list[tuple[int, int, int]] = []  # (scope sid, seq, task.cancelling()) at every outermost scope exit


def _classify(exc: BaseException) -> str:
    if isinstance(exc, asyncio.CancelledError):
        return "cancelled"
    if isinstance(exc, TimeoutError):
        return "timeout"
    if isinstance(exc, (Violation, HarnessError)):
        raise exc
    raise HarnessError(f"unexpected exception in interpreted program: {type(exc).__name__}: {exc}")


class Run:
    def __init__(self, world: World, prog: dict):
        self.w = world
        self.prog = prog
        self.backend = AsyncIOBackend()
        self.tasks: dict[str, TaskInfo] = {}
        self.scopes: dict[int, ScopeInfo] = {}
        self.by_msg: dict[str, int] = {}
        self.by_task: dict[Any, TaskInfo] = {}
        self.recs: list[Rec] = []
        self.steps = 0
        self.ext_source = "tg"  # who is calling task.cancel() without message right now
        self.stmt_index = index_program(prog)
        self.task_no = 0

    # ---------------------------------------------------------------- observation
    def on_task_cancel(self, task: Any, msg: Any, accepted: bool) -> None:
        ti = self.by_task.get(task)
        if ti is None:
            return  # the interpreter's main task (runner tear-down)
        w = self.w
        if isinstance(msg, str) and msg.startswith(SCOPE_MSG):
            sid = self.by_msg.get(msg)
            if sid is None:
                raise HarnessError("cancel message of an unknown scope")
            si = self.scopes[sid]
            si.own_cancels += 1
            if ti.shield_now > 0:
                si.own_cancels_shielded += 1
            if si.called_seq < 0:
                si.called_seq, si.called_t = w.seq, w.now
            w.counters["scope_cancel_calls"] += 1
            return
        if msg is not None:
            raise HarnessError(f"unexpected cancel message {msg!r}")
        w.log("xc", ti.name, self.ext_source, accepted, w.now)
        ti.ext.append((w.seq, w.now, self.ext_source, accepted))

    def poll(self, sids: tuple[int, ...]) -> dict:
        out = {}
        for sid in sids:
            si = self.scopes[sid]
            c = si.obj.cancel_called()
            if c and si.called_seq < 0:
                si.called_seq, si.called_t = self.w.seq, self.w.now
            out[sid] = (c, si.obj.when())
        return out

    def start(self, ti: TaskInfo, st: dict, op: str, ctx: tuple) -> Rec:
        w = self.w
        self.steps += 1
        if self.steps > 4000:
            raise StepCap("interpreter step cap")
        w.log("s", ti.name, st["id"], op, w.now)
        r = Rec(ti.name, st["id"], op, ctx[0], ctx[1], w.seq, w.now, self.poll(ctx[1]))
        ti.recs.append(r)
        self.recs.append(r)
        return r

    def finish(self, r: Rec, out: str, exc: BaseException | None = None) -> None:
        w = self.w
        if out == "cancelled" and exc is not None:
            if exc.args and isinstance(exc.args[0], str) and exc.args[0].startswith(SCOPE_MSG):
                r.by = self.by_msg.get(exc.args[0], "?")
            elif not exc.args or exc.args[0] is None:
                r.by = "ext"
            else:
                r.by = "?"
        w.log("f", r.task, r.sid, out, r.by, w.now)
        r.e_seq, r.e_t, r.out = w.seq, w.now, out
        self.poll(r.scopes)
        if out == "ok":
            w.progress(1)

    # ---------------------------------------------------------------- statements
    async def body(self, ti: TaskInfo, body: list[dict], ctx: tuple) -> None:
        for st in body:
            await self.stmt(ti, st, ctx)

    async def stmt(self, ti: TaskInfo, st: dict, ctx: tuple) -> None:
        op = st["op"]
        b = self.backend
        r = self.start(ti, st, op, ctx)
        try:
            if op == "sleep":
                await b.sleep(st["k"] / U)
            elif op == "yield":
                await b.coro_yield()
            elif op == "syield":
                ti.shield_now += 1
                try:
                    await b.cancel_shielded_coro_yield()
                finally:
                    ti.shield_now -= 1
            elif op == "scope":
                await self.scope_stmt(ti, st, ctx, r)
            elif op == "cancel" or op == "resched":
                si = self.scopes.get(st["ref"])
                if si is None or not si.open:
                    r.extra["skipped"] = True
                    self.w.log("skip", ti.name, st["id"])
                else:
                    r.extra["target_task"] = si.task
                    if op == "cancel":
                        r.extra["was_called"] = si.obj.cancel_called()
                        if si.called_seq < 0:
                            si.called_seq, si.called_t = self.w.seq, self.w.now
                        si.obj.cancel()
                    else:
                        when = math.inf if st["k"] < 0 else self.w.now + st["k"] / U
                        r.extra["was_called"] = si.obj.cancel_called()
                        r.extra["when"] = when
                        si.obj.reschedule(when)
                        self.poll((si.sid,))
            elif op == "shield":
                ti.shield_now += 1
                try:
                    await b.ignore_cancellation(self.body(ti, st["body"], (ctx[0] + 1, ctx[1])))
                finally:
                    ti.shield_now -= 1
            elif op == "try":
                try:
                    await self.body(ti, st["body"], ctx)
                except TimeoutError:
                    r.extra["swallowed_timeout"] = True
            elif op == "tg":
                await self.tg_stmt(ti, st, ctx, r)
            else:
                raise HarnessError(f"unknown op {op}")
        except BaseException as exc:
            self.finish(r, _classify(exc), exc)
            raise
        else:
            self.finish(r, "ok")

    async def scope_stmt(self, ti: TaskInfo, st: dict, ctx: tuple, r: Rec) -> None:
        b = self.backend
        w = self.w
        kind, k = st["kind"], st["k"]
        if kind == "open":
            cm: Any = b.open_cancel_scope()
        elif kind == "after":
            cm = b.move_on_after(k / U)
        elif kind == "at":
            cm = b.move_on_at(k / U)
        elif kind == "timeout":
            cm = b.timeout(k / U)
        else:
            cm = b.timeout_at(k / U)
        sid = st["id"]
        si = ScopeInfo(sid, ti.name, kind)
        si.shield = ctx[0]
        si.parents = ctx[1]
        self.scopes[sid] = si
        try:
            with cm as scope:
                si.obj = scope
                self.by_msg[f"{SCOPE_MSG}{id(scope):x}"] = sid
                si.open = True
                si.cancelling_enter = ti.task.cancelling()
                w.log("enter", ti.name, sid, kind, scope.cancel_called(), scope.when() * U, w.now)
                si.enter_seq, si.enter_t = w.seq, w.now
                self.poll((sid,))
                try:
                    await self.body(ti, st["body"], (ctx[0], (sid,) + ctx[1]))
                except BaseException as exc:
                    si.body_exc = _classify(exc)
                    raise
                finally:
                    # still inside the scope: last observation before __exit__
                    self.poll((sid,))
                    w.log("leave", ti.name, sid, si.body_exc, w.now)
                    si.exit_seq, si.exit_t = w.seq, w.now
        finally:
            si.open = False
            si.called = si.obj.cancel_called()
            si.caught = si.obj.cancelled_caught()
            si.cancelling_exit = ti.task.cancelling()
            w.log("exit", ti.name, sid, si.called, si.caught, si.cancelling_exit - si.cancelling_enter, w.now)
            if not ctx[1]:
                ti.top_exits.append((sid, w.seq, si.cancelling_exit))

    async def tg_stmt(self, ti: TaskInfo, st: dict, ctx: tuple, r: Rec) -> None:
        async with self.backend.create_task_group() as tg:
            for i, ch in enumerate(st["children"]):
                name = f"{ti.name}.{st['id']}c{i}"
                ci = self.tasks[name]
                tg.start_soon(self.task_main, ci, ch, True, name=name)
            try:
                await self.body(ti, st["body"], ctx)
            except TimeoutError:
                r.extra["swallowed_timeout"] = True  # keep non-cancel errors out of asyncio.TaskGroup

    async def task_main(self, ti: TaskInfo, body: list[dict], is_child: bool) -> None:
        w = self.w
        ti.task = asyncio.current_task()
        self.by_task[ti.task] = ti
        ti.started = True
        w.log("start", ti.name, w.now)
        try:
            try:
                await self.body(ti, body, (0, ()))
            except TimeoutError:
                w.log("body-timeout", ti.name, w.now)
            ti.cancelling_end = ti.task.cancelling()
            w.log("body-done", ti.name, ti.cancelling_end, w.now)
            # A5: two checkpoints appended after the program
            for j, k in enumerate((None, GRID)):
                st = {"op": "post", "id": -(j + 1)}
                r = self.start(ti, st, "post", (0, ()))
                try:
                    if k is None:
                        await self.backend.coro_yield()
                    else:
                        await self.backend.sleep(k / U)
                except BaseException as exc:
                    self.finish(r, _classify(exc), exc)
                    raise
                else:
                    self.finish(r, "ok")
            ti.outcome = "ok"
            w.log("end", ti.name, "ok", ti.task.cancelling(), w.now)
        except asyncio.CancelledError:
            ti.outcome = "cancelled"
            w.log("end", ti.name, "cancelled", w.now)
            if is_child:
                raise

    # ---------------------------------------------------------------- main
    def fire_ext(self, name: str) -> None:
        ti = self.tasks[name]
        w = self.w
        if ti.task is None or ti.task.done():
            w.log("xc-late", name, w.now)
            return
        self.ext_source = "harness"
        try:
            ti.task.cancel()
        finally:
            self.ext_source = "tg"
        w.fault("cancel_at_time")

    async def main(self) -> None:
        loop = asyncio.get_running_loop()
        loop.set_task_factory(lambda lp, coro, **kw: _Task(coro, loop=lp, **kw))
        for name in task_names(self.prog):
            self.tasks[name] = TaskInfo(name)
        handles = [loop.call_at(t / U, self.fire_ext, name) for name, t in self.prog["ext"]]
        tops = []
        for i, body in enumerate(self.prog["tasks"]):
            ti = self.tasks[f"T{i}"]
            tops.append(loop.create_task(self.task_main(ti, body, False), name=ti.name))
        try:
            await asyncio.wait(tops)
        finally:
            for h in handles:
                h.cancel()
        for t in tops:
            if t.cancelled() or t.exception() is not None:
                raise HarnessError(f"top-level task ended with {t!r}")

    def execute(self) -> None:
        _CURRENT[0] = self
        try:
            run_async(self.w, self.main)
        finally:
            _CURRENT[0] = None
        for ti in self.tasks.values():
            if ti.outcome is None:
                ti.outcome = "unstarted" if not ti.started else "?"


# ===================================================================================================== tier A oracle
def _v(clause: str, msg: str, run: Run, site: str = "") -> Violation:
    key = f"C13/tierA/{clause}" + (f"/{site}" if site else "")
    return Violation(clause, msg + "\n" + describe(run), key=key)


def describe(run: Run) -> str:
    import json

    lines = ["program=" + json.dumps(run.prog, separators=(",", ":"))]
    lines.append("records (task#id:op[start_seq@t..end_seq@t]=outcome/by, t in 1/512 s): " + " ".join(r.brief() for r in run.recs))
    for s in run.scopes.values():
        lines.append(
            f"scope {s.sid} task={s.task} kind={s.kind} under_shield={s.shield} cancel_called={s.called} cancelled_caught={s.caught} "
            f"body_exc={s.body_exc} own_task_cancel_calls={s.own_cancels} (while shielded {s.own_cancels_shielded}) cancelling enter/exit={s.cancelling_enter}/{s.cancelling_exit}"
        )
    for t in run.tasks.values():
        lines.append(f"task {t.name} outcome={t.outcome} external_cancels={[(s, x * U, src, a) for s, x, src, a in t.ext]} cancelling_at_body_end={t.cancelling_end}")
    lines.append(f"creep_iterations={run.w.creep_iterations}")
    return "\n".join(lines)


def d6_class_scopes(run: Run, ti: TaskInfo) -> list[ScopeInfo]:
    """Known finding D6: a scope that asked its host task to cancel (the requests were absorbed by a shielded section
    or otherwise never reached it as an exception) and that exits without a CancelledError passing through."""
    return [s for s in run.scopes.values() if s.task == ti.name and s.exit_seq >= 0 and s.called and s.own_cancels > 0 and s.body_exc != "cancelled"]


def check_tier_a(run: Run) -> None:
    w = run.w
    slack = w.creep_iterations / 1024 + 1e-9
    rec_of: dict[int, Rec] = {r.sid: r for r in run.recs if r.sid > 0}
    cancels_on: dict[int, list[Rec]] = {}
    rescheds_on: dict[int, list[Rec]] = {}
    for r in run.recs:
        if r.op in ("cancel", "resched") and not r.extra.get("skipped"):
            (cancels_on if r.op == "cancel" else rescheds_on).setdefault(run_ref(run, r), []).append(r)

    # ---- A1 / A4: per scope
    for s in run.scopes.values():
        if s.exit_seq < 0:
            raise HarnessError(f"scope {s.sid} never exited")
        r = rec_of[s.sid]
        if s.caught and not s.called:
            raise _v("A1-caught-without-cancel", f"scope {s.sid}: cancelled_caught() is True but cancel_called() is False", run)
        if s.caught and s.body_exc != "cancelled":
            raise _v("A1-caught-without-exception", f"scope {s.sid}: cancelled_caught() is True but no CancelledError reached __exit__ (body_exc={s.body_exc})", run)
        timeout_kind = s.kind in ("timeout", "timeout_at")
        if s.body_exc == "cancelled" and not s.caught and r.out != "cancelled":
            clause = "A1-uncancelled-scope-swallowed" if not s.called else "A4-swallowed-without-caught"
            raise _v(clause, f"scope {s.sid} ({s.kind}, cancel_called={s.called}, cancelled_caught=False): a CancelledError reached __exit__ but the with statement ended {r.out}", run)
        if s.body_exc != "cancelled" and r.out != (s.body_exc or "ok"):
            raise _v("A4-outcome-changed", f"scope {s.sid} ({s.kind}): body ended {s.body_exc or 'ok'} but the with statement ended {r.out}", run)
        if s.caught:
            want = "timeout" if timeout_kind else "ok"
            if r.out != want:
                raise _v("A4-timeout-iff-caught", f"scope {s.sid} ({s.kind}) caught its cancellation but the with statement ended {r.out}, expected {want}", run)
        if timeout_kind and r.out == "timeout" and s.body_exc != "timeout" and not s.caught:
            raise _v("A4-timeout-iff-caught", f"scope {s.sid} ({s.kind}) raised TimeoutError but cancelled_caught() is False", run)

    # ---- A6 (first half): nothing under ignore_cancellation is interrupted, the shielded statement itself completes
    for r in run.recs:
        if (r.shield > 0 or r.op in ("shield", "syield")) and r.out != "ok":
            raise _v("A6-shielded-statement-interrupted", f"{r.brief()} (shield depth {r.shield}) did not finish normally", run, r.op)

    # ---- A2: no unshielded checkpoint inside a cancelled scope completes
    for c in run.recs:
        if c.op not in CHECKPOINTS or c.shield or c.out != "ok":
            continue
        for sid in c.scopes:
            called, when = c.polls[sid]
            if called:
                raise _v("A2-started-after-cancel", f"{c.brief()} started when scope {sid} already had cancel_called()=True and finished normally", run, c.op)
            for x in cancels_on.get(sid, ()):
                if c.s_seq < x.s_seq and x.e_seq < c.e_seq:
                    raise _v("A2-pending-at-cancel", f"{c.brief()} was pending when {x.brief()} cancelled scope {sid}, and finished normally", run, c.op)
            if any(c.s_seq < x.s_seq < c.e_seq for x in rescheds_on.get(sid, ())):
                continue
            if c.e_t > when + slack:
                raise _v("A2-past-deadline", f"{c.brief()} finished normally at t={c.e_t * U:g}/512 although scope {sid} had deadline {when * U:g}/512 (slack {slack:g}s)", run, c.op)

    # ---- A3: who may end cancelled
    for ti in run.tasks.values():
        if not ti.started:
            continue
        accepted = [e for e in ti.ext if e[3]]
        if not ti.ext:
            if ti.outcome == "cancelled":
                raise _v("A3-cancel-escaped", f"task {ti.name} never received an external cancel but ended cancelled", run)
        elif accepted:
            x = accepted[0][0]
            if any(s.task == ti.name and s.exit_seq > x and s.called for s in run.scopes.values()):
                w.probe("ext_and_scope_cancel_in_flight")
                continue
            w.probe("ext_cancel_alone")
            for c in ti.recs:
                if c.op in CHECKPOINTS and not c.shield and c.e_seq > x and c.out != "cancelled":
                    raise _v("A3-external-cancel-lost", f"task {ti.name} got task.cancel() at seq {x} with no cancelled scope around, but {c.brief()} finished {c.out}", run)
            if ti.outcome != "cancelled":
                raise _v("A3-external-cancel-lost", f"task {ti.name} got task.cancel() at seq {x} with no cancelled scope around, but ended {ti.outcome}", run, "task-outcome")

    # ---- A5: nothing left over (last: the known finding D6 lives here)
    for ti in run.tasks.values():
        if not ti.started or ti.ext:
            continue
        for c in ti.recs:
            if c.op == "post" and c.out != "ok":
                raise _v("A5-spurious-cancel-after-scope", f"task {ti.name}: checkpoint appended after the program ended {c.out}/{c.by} although every scope had exited and no external cancel was issued", run)
        left = [(sid, n) for sid, _, n in ti.top_exits if n != 0]
        if ti.cancelling_end:
            left.append((0, ti.cancelling_end))
        if not left:
            continue
        known = d6_class_scopes(run, ti)
        if known:
            w.probe("d6_class_leftover")
            if getattr(w, "avoid_known", False):
                continue
            s = known[0]
            raise _v(
                "A5-leftover-cancelling",
                f"task {ti.name}: task.cancelling() = {left[0][1]} after its outermost scope exited (no external cancel was ever issued). "
                f"Scope {s.sid} ({s.kind}) issued {s.own_cancels} task.cancel() requests ({s.own_cancels_shielded} while the task was shielded), "
                f"exited with body outcome {s.body_exc or 'ok'} and never took them back",
                run,
            )
        raise _v("A5-leftover-cancelling-unexplained", f"task {ti.name}: task.cancelling() = {left} (scope id, count) after outermost scope exit; no external cancel, no scope exited with unabsorbed requests", run)


def run_ref(run: Run, r: Rec) -> int:
    return run.stmt_index[r.sid]["ref"]


def index_program(prog: dict) -> dict[int, dict]:
    out: dict[int, dict] = {}

    def walk(body: list[dict]) -> None:
        for st in body:
            out[st["id"]] = st
            for ch in st.get("children", ()):
                walk(ch)
            if "body" in st:
                walk(st["body"])

    for b in prog["tasks"]:
        walk(b)
    return out


# ===================================================================================================== harnesses
def account(run: Run) -> None:
    w = run.w
    for s in run.scopes.values():
        if s.called:
            w.fault("cancel_at_time")
            w.probe("scope_cancelled_under_shield" if s.shield else "scope_cancelled")
            if s.caught:
                w.probe("scope_caught_timeout" if s.kind.startswith("timeout") else "scope_caught_move_on")
            elif s.body_exc == "cancelled":
                w.probe("scope_cancelled_propagated_outwards")
            else:
                w.probe("scope_cancelled_exited_normally")
            if s.own_cancels_shielded:
                w.probe("scope_cancel_absorbed_by_shield")
    if w.creep_iterations:
        w.probe("creep_run")
    for r in run.recs:
        if r.op in ("cancel", "resched") and not r.extra.get("skipped"):
            w.probe("foreign_" + r.op if r.extra.get("target_task") != r.task else "own_" + r.op)
    if any(t.outcome == "cancelled" for t in run.tasks.values()):
        w.probe("task_ended_cancelled")
    if any(e[2] == "tg" for t in run.tasks.values() for e in t.ext):
        w.probe("task_group_aborted_children")


def _h_tier_a(world: World) -> None:
    mode = world.choose("mode", 3)
    prog = _Gen(world, mode, False).program()
    world.notes.update(mode=mode, program=prog)
    run = Run(world, prog)
    run.execute()
    account(run)
    check_tier_a(run)


# ===================================================================================================== tier B
def observed_result(run: Run) -> dict:
    """the run in the vocabulary of models.scopes.Model.result(): times in 1/512 s"""
    tasks = {}
    for name, ti in sorted(run.tasks.items()):
        if not ti.started:
            continue
        tasks[name] = {"recs": [(r.sid, r.op, r.s_t * U, r.e_t * U, r.out) for r in ti.recs], "outcome": ti.outcome}
    return {"tasks": tasks, "scopes": {sid: (s.called, s.caught) for sid, s in sorted(run.scopes.items())}}


def check_tier_b(run: Run) -> bool:
    """True when the program was inside tier B and compared equal"""
    w = run.w
    if run.prog["ext"]:
        w.probe("tierB_skip_external")
        return False
    try:
        want = ref_model.reference(run.prog)
    except ref_model.NotInTierB as e:
        w.probe("tierB_skip_" + str(e).split(":")[0].replace(" ", "_")[:40])
        return False
    if w.creep_iterations:
        w.probe("tierB_skip_creep")
        return False
    got = observed_result(run)
    for name in sorted(set(want["tasks"]) | set(got["tasks"])):
        a, b = got["tasks"].get(name), want["tasks"].get(name)
        if a is None or b is None:
            raise Violation("B-task-set", f"task {name}: real={'ran' if a else 'did not run'} reference={'ran' if b else 'did not run'}\n" + describe(run), key="C13/tierB/task-set")
        for i in range(max(len(a["recs"]), len(b["recs"]))):
            ra = a["recs"][i] if i < len(a["recs"]) else None
            rb = b["recs"][i] if i < len(b["recs"]) else None
            if ra != rb:
                what = "extra-statement" if rb is None else "missing-statement" if ra is None else "which-statement" if ra[:2] != rb[:2] else "outcome" if ra[4] != rb[4] else "time"
                op = (ra or rb)[1]
                raise Violation(
                    "B-trace-" + what,
                    f"task {name}, statement #{i}: real (id, op, start, end, outcome)={ra} reference={rb} (times in 1/512 s)\nreference trace: {b['recs']}\n" + describe(run),
                    key=f"C13/tierB/trace/{what}/{op}",
                )
        if a["outcome"] != b["outcome"]:
            raise Violation("B-task-outcome", f"task {name}: real outcome {a['outcome']} reference {b['outcome']}\n" + describe(run), key="C13/tierB/task-outcome")
    for sid in sorted(set(want["scopes"]) | set(got["scopes"])):
        a, b = got["scopes"].get(sid), want["scopes"].get(sid)
        if a != b:
            raise Violation("B-scope-state", f"scope {sid}: real (cancel_called, cancelled_caught)={a} reference={b}\n" + describe(run), key="C13/tierB/scope-state")
    w.probe("tierB_compared")
    if any(c for c, _ in want["scopes"].values()):
        w.probe("tierB_compared_with_cancelled_scope")
    return True


def _h_tier_b(world: World) -> None:
    mode = world.choose("mode", 4) != 0  # 1/4 calm
    prog = _Gen(world, 1 if mode else 0, True).program()
    world.notes.update(mode=int(mode), program=prog)
    run = Run(world, prog)
    run.execute()
    account(run)
    check_tier_b(run)
    check_tier_a(run)


HARNESSES = [
    Harness("tierA", _h_tier_a, weight=1),
    Harness("tierB", _h_tier_b, weight=1),
]
