"""C02 — parsing depends only on the bytes; one bad frame = one error (DESIGN §4 C02)."""
from __future__ import annotations

from easynetwork.protocol import BufferedStreamProtocol, StreamProtocol
from easynetwork.serializers.line import StringLineSerializer

from vsim.chunk import CopyDriver, FillDriver, cuts_to_chunks, gen_cuts, run_stream
from vsim.runner import Harness
from vsim.world import Violation, World

PROPERTY = "C02"
LEVEL = "exploration"
RULE = (
    "streams of 1-6 terminated frames of kinds {valid, undecodable, empty, band, oversized} for separator-framed serializers; "
    "chunking families {whole, byte-by-byte, 1 cut, 2 cuts, fixed size, k random cuts, structural cuts around separators}; "
    "both receive paths; limits 8..96; oracle = frame-by-frame reference decoder"
)
COMPONENTS_REAL = ["easynetwork.serializers.*", "easynetwork.protocol", "easynetwork.lowlevel._stream consumers", "easynetwork.exceptions.LimitOverrunError"]
COMPONENTS_STUB = ["the network: replaced by the list of cuts of the byte stream (T1)"]
ASSUMPTIONS = ["frames are generated with alphabets that make junk after an oversized frame attributable (DESIGN C02 oracle 2)"]

LOW = b"abcdefgh"
UP = b"XYZW"


def _gen_line(world: World):
    newline = world.pick("newline", ["LF", "CR", "CRLF"])
    sep = {"LF": b"\n", "CR": b"\r", "CRLF": b"\r\n"}[newline]
    limit = 8 + world.choose("limit", 89)
    keep_end = bool(world.choose("keep_end", 2))
    ser = StringLineSerializer(newline, limit=limit, keep_end=keep_end, encoding="ascii")
    seplen = len(sep)
    safe_max = limit - 2 * seplen - 2  # payload + sep <= limit - sep - 2
    prefix_chars = sep[:-1]  # proper prefix bytes that may legally appear inside payloads
    nframes = 1 + world.choose("nframes", 6)
    frames = []
    rng = world.sub_rng("filler")
    for i in range(nframes):
        kind = world.pick("kind", ["valid", "valid", "undecodable", "empty", "band", "oversized"])
        if safe_max < 1 and kind in ("valid", "undecodable"):
            kind = "empty"
        if kind == "valid":
            n = 1 + world.choose("len", safe_max)
            alpha = LOW + prefix_chars
        elif kind == "undecodable":
            n = 1 + world.choose("len", safe_max)
            alpha = LOW + prefix_chars
        elif kind == "empty":
            n = 0
            alpha = LOW
        elif kind == "band":
            n = safe_max + 1 + world.choose("bandlen", limit + seplen + 1 - safe_max)
            alpha = UP + prefix_chars
        else:
            n = limit + seplen + 2 + world.choose("overlen", 40)
            alpha = UP + prefix_chars
        payload = bytearray(rng.choice(alpha) for _ in range(n))
        if kind == "undecodable":
            payload[rng.randrange(n)] = 0xE9
        # a payload must not contain the separator, also not across its end
        p = bytes(payload)
        while sep in p + sep[:-1] if seplen > 1 else sep in p:
            p = p.replace(sep, b"a" * seplen) if sep in p else p[:-1] + b"a"
        if seplen > 1 and (p + sep).find(sep) != len(p):
            p = p[:-1] + b"a"
        if kind in ("band", "oversized"):
            p = bytes(b if b in alpha else UP[0] for b in p)
            if seplen > 1 and (p + sep).find(sep) != len(p):
                p = p[:-1] + UP[:1]
        frames.append((kind, p))
    return ser, sep, limit, keep_end, frames


def _reference(ser, sep, keep_end, frames):
    """frame-by-frame decoding with fresh one-shot semantics"""
    ref = []
    for kind, p in frames:
        try:
            s = str(p + sep if keep_end else p, "ascii", "strict")
        except UnicodeError:
            ref.append(("err", "IncrementalDeserializeError"))
        else:
            ref.append(("pkt", s))
    return ref


def _is_junk(o, sep) -> bool:
    if o[0] == "err":
        return True
    if o[0] == "pkt":
        allowed = set(UP.decode()) | set(sep.decode())
        return all(ch in allowed for ch in o[1])
    return False


def _match(actual, i, frames, ref, k, sep) -> bool:
    """Can actual[i:] be explained by frames[k:]?"""
    if k == len(frames):
        return i == len(actual)
    kind = frames[k][0]
    if kind not in ("band", "oversized"):
        return i < len(actual) and actual[i] == ref[k] and _match(actual, i + 1, frames, ref, k + 1, sep)
    # unsafe frame: accepted as-is …
    if i < len(actual) and actual[i] == ref[k] and _match(actual, i + 1, frames, ref, k + 1, sep):
        return True
    # … or rejected for its size: >=1 limit error, junk*, then the rest intact
    if i < len(actual) and actual[i] == ("err", "LimitOverrunError"):
        j = i + 1
        while True:
            if _match(actual, j, frames, ref, k + 1, sep):
                return True
            if j < len(actual) and _is_junk(actual[j], sep):
                j += 1
                continue
            return False
    return False


def _h_line(world: World, path: str) -> None:
    ser, sep, limit, keep_end, frames = _gen_line(world)
    stream = b"".join(p + sep for _, p in frames)
    # structural cut positions: around every separator occurrence
    structural = []
    pos = 0
    for _, p in frames:
        pos += len(p)
        structural.extend(range(pos, pos + len(sep) + 1))
        pos += len(sep)
    cuts = gen_cuts(world, len(stream), structural)
    chunks = cuts_to_chunks(stream, cuts)
    ref = _reference(ser, sep, keep_end, frames)
    if path == "copy":
        drv = CopyDriver(StreamProtocol(ser), world)
    else:
        hint = world.pick("hint", [1024, 1, 2, 3, 5, 8, 16, 64, 16384])
        drv = FillDriver(BufferedStreamProtocol(ser), hint, world, fill_mode=world.choose("fill_mode", 2))
    out = run_stream(drv, chunks)
    world.log("run", path, len(frames), len(chunks), tuple(o[0] for o in out))
    world.notes.update(serializer=f"StringLineSerializer(sep={sep!r},limit={limit},keep_end={keep_end})", frames=[(k, p.decode('latin1')) for k, p in frames], chunks=[len(c) for c in chunks][:40], path=path)
    world.progress(sum(1 for o in out if o[0] == "pkt"))
    site = f"line/{path}"
    for o in out:
        if o[0] == "crash":
            raise Violation("no-crash", f"{o} escaped; frames={frames} chunks={[len(c) for c in chunks]}", key=f"C02/{site}/crash/{o[1]}")
    all_safe = all(k not in ("band", "oversized") for k, _ in frames)
    if all_safe:
        if out != ref:
            raise Violation("safe-frames-equal-reference", f"sep={sep!r} limit={limit} keep_end={keep_end} frames={frames} chunks={chunks}\n got {out}\n ref {ref}", key=f"C02/{site}/safe-equal")
        if drv.pending() != 0:
            raise Violation("no-leftover", f"{drv.pending()} bytes held after a stream of complete frames: {drv.held_bytes()!r}", key=f"C02/{site}/leftover")
    else:
        if not _match(out, 0, frames, ref, 0, sep):
            raise Violation("resume-after-rejected-frame", f"sep={sep!r} limit={limit} keep_end={keep_end} frames={frames} chunks={chunks}\n got {out}\n ref {ref}", key=f"C02/{site}/resume")


HARNESSES = [
    Harness("line-copy", lambda w: _h_line(w, "copy")),
    Harness("line-fill", lambda w: _h_line(w, "fill")),
]
