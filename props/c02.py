"""C02 — parsing depends only on the bytes; one bad frame = one error (DESIGN §4 C02).

Tier T1: the "network" is the list of cuts of the byte stream; the two stream consumers are driven directly.
Tier T2: the same cases through SimNet into the real endpoint receive loops (drivers of props/c01.py, see T2_PATHS).
The driver is pluggable (``PATHS``): a later tier pushes the same cases through simulated sockets into the real
endpoint receive loops by registering another ``(protocol class, make_driver(protocol, world))`` pair.

Oracle (exactly the two clauses of the property):
 1. every frame *safely within* the limit  =>  outcome sequence == models.frames.reference_outcomes(stream)
    for every chunking / path / buffer size, and nothing is left over;
 2. otherwise (band / oversized frames present)  =>  models.frames.explains(): an unsafe frame is either accepted
    as the reference says, or answered with >= 1 LimitOverrunError followed by junk made exclusively of that
    frame's own bytes, and every frame that starts after its terminator is intact.
Raw JSON and fixed-size framing have no terminator to resume after: only clause 1 is generated for them, and raw
JSON only over bracket-balanced documents (garbage without frame structure is not claimed).
"""
from __future__ import annotations

import base64
import dataclasses
import hashlib
from typing import Any, Callable, NamedTuple

from easynetwork.exceptions import DeserializeError
from easynetwork.protocol import BufferedStreamProtocol, StreamProtocol
from easynetwork.serializers.base_stream import AutoSeparatedPacketSerializer, FixedSizePacketSerializer
from easynetwork.serializers.json import JSONSerializer
from easynetwork.serializers.line import StringLineSerializer
from easynetwork.serializers.struct import NamedTupleStructSerializer, StructSerializer
from easynetwork.serializers.wrapper.base64 import Base64EncoderSerializer

from models.frames import (
    LIMIT_ERROR,
    Framing,
    NoFrameStructure,
    explains,
    reference_outcomes,
    safe_payload_max,
    same_outcomes,
    split_frames,
)
from props.c01 import AsyncEndpointDriver, SyncEndpointDriver, bounded_cuts
from vsim.chunk import CopyDriver, FillDriver, cuts_to_chunks, gen_cuts, run_stream
from vsim.runner import Harness
from vsim.world import HarnessError, Violation, World

PROPERTY = "C02"
LEVEL = "exploration"
RULE = (
    "streams of 1-8 complete frames of kinds {valid, undecodable-but-well-framed, empty, at-the-limit band, oversized} in any order "
    "for the separator-framed family: StringLineSerializer (LF/CR/CRLF x keep_end x ascii/utf-8/latin-1/utf-16-le), "
    "JSONSerializer(use_lines=True), Base64EncoderSerializer (separators CRLF, '|', '<>!'; both alphabets; with/without checksum) around JSON, "
    "a minimal AutoSeparatedPacketSerializer subclass (1/2/3-byte separators incl. a self-overlapping one); payload alphabets contain "
    "proper prefixes of the separator; plus raw JSON (use_lines=False) over bracket-balanced valid and malformed documents and plain values, "
    "and fixed-size frames (FixedSizePacketSerializer subclass, StructSerializer, NamedTupleStructSerializer) with undecodable frames. "
    "limits 8..128; chunking families {whole, byte-by-byte, 1 cut, 2 cuts, fixed size, k random cuts, structural cuts around separators, "
    "multi-byte characters, escape bytes and frame boundaries}; both receive paths (copy: StreamDataConsumer, fill: "
    "BufferedStreamDataConsumer with buffer size hints 1..16384 and short fills); oracle = frame-by-frame reference decoder "
    "(models/frames.py); a run is non-trivial when the stream was fragmented and at least one packet was delivered; tier T2 (~18 % of the runs): the same streams through SimNet into the four real endpoint receive loops (blocking StreamEndpoint in poll and blocking modes, AsyncStreamEndpoint with gaps / head start / slow receiver; copy and buffer-filling receivers; max_recv_size 1..16384), StreamProtocolParseError from recv_packet mapped to the same outcome vocabulary"
)
COMPONENTS_REAL = [
    "easynetwork.serializers.* (line, json, base64 wrapper, struct, base_stream, tools)",
    "easynetwork.protocol",
    "easynetwork.lowlevel._stream consumers",
    "T2: easynetwork.lowlevel.api_sync.endpoints.stream.StreamEndpoint + SocketStreamTransport, api_async.endpoints.stream.AsyncStreamEndpoint + asyncio stream adapter",
    "easynetwork.exceptions.LimitOverrunError",
]
COMPONENTS_STUB = ["the network: replaced by the list of cuts of the byte stream (T1)", "T2: SimSocket / SimSelector / SimEventLoop, scripted peer, virtual clock"]
ASSUMPTIONS = [
    "frames that may be rejected for their size use an alphabet disjoint from later frames' so that junk after a rejection is attributable (DESIGN C02 oracle 2)",
    "one-shot deserialize() of a fresh serializer instance defines what a frame means",
    "JSONSerializer is not a buffered serializer: the JSON families only have the copy path",
]

LOW = b"abcdefgh"
UP = b"XYZW"
HINTS = [1024, 1, 2, 3, 5, 8, 16, 64, 16384]


# =================================================================================================== drivers (pluggable)
def _drv_copy(protocol: Any, world: World):
    return CopyDriver(protocol, world)


def _drv_fill(protocol: Any, world: World):
    hint = world.pick("hint", HINTS)
    return FillDriver(protocol, hint, world, fill_mode=world.choose("fill_mode", 2))


# path name -> (protocol class wrapped around the serializer, make_driver(protocol, world) -> object with
# feed(bytes) / out / pending() / held_bytes()).  T2 registers e.g. "sync-copy", "aio-fill" here.
PATHS: dict[str, tuple[Callable[[Any], Any], Callable[[Any, World], Any]]] = {
    "copy": (StreamProtocol, _drv_copy),
    "fill": (BufferedStreamProtocol, _drv_fill),
}


# --------------------------------------------------------------------------------------------------- tier T2
# The same streams through SimNet into the four real endpoint receive loops.  The drivers are C01's (props/c01.py),
# reused by import: blocking StreamEndpoint over SocketStreamTransport(SimSocket) under the sync engine (poll mode:
# recv_packet(timeout=0) after every chunk; blocking mode: scripted fragments with delays, then FIN), and
# AsyncStreamEndpoint over the asyncio adapter on SimEventLoop (gaps, head start, slow receiver).  They are deferred:
# feed() records the chunk, finish() runs the scenario.  For C02 a StreamProtocolParseError raised by recv_packet()
# is an outcome ("err", inner class), not the end of the run.
class _C02SyncEndpointDriver(SyncEndpointDriver):
    stop_on_parse_error = False


class _C02AsyncEndpointDriver(AsyncEndpointDriver):
    stop_on_parse_error = False


T2_MAX_CHUNKS = 96  # one chunk = one socket delivery + one or more recv_packet() calls: keep a run at a few ms

T2_PATHS: dict[str, tuple[Callable[[Any], Any], Callable[[Any, World], Any]]] = {
    "t2sync-copy": (StreamProtocol, lambda protocol, world: _C02SyncEndpointDriver(protocol, world, False)),
    "t2sync-fill": (BufferedStreamProtocol, lambda protocol, world: _C02SyncEndpointDriver(protocol, world, False)),
    "t2aio-copy": (StreamProtocol, lambda protocol, world: _C02AsyncEndpointDriver(protocol, world, False)),
    "t2aio-fill": (BufferedStreamProtocol, lambda protocol, world: _C02AsyncEndpointDriver(protocol, world, False)),
}
PATHS.update(T2_PATHS)


# =================================================================================================== case description
@dataclasses.dataclass
class Case:
    family: str  # key component
    desc: str  # human-readable serializer configuration
    cfg: Framing  # reference model configuration
    make: Callable[[], Any]  # serializer under test (a new instance)
    stream: bytes
    frames: list[tuple[str, bytes]]  # (intended kind, payload) -- documentation; the oracle uses the model's split
    unsafe: list[bool]  # per frame: may be rejected for its size
    value_bytes: Callable[[Any], bytes | None]  # canonical bytes of a delivered packet (junk attribution)
    structural: list[int]
    limit: int | None = None
    ws_leftover_ok: bool = False


def _units_payload(rng, units: list[bytes], n: int) -> bytes:
    """a payload of at most n bytes (exactly n when some unit has length 1) drawn from `units`"""
    out = bytearray()
    ones = [u for u in units if len(u) == 1]
    while len(out) < n:
        u = rng.choice(units)
        if len(out) + len(u) > n:
            if not ones:
                break
            u = rng.choice(ones)
        out += u
    return bytes(out)


def _sanitize(p: bytes, sep: bytes, filler: bytes) -> bytes:
    """Make `p` a payload: the only occurrence of `sep` in p+sep is the terminator itself."""
    guard = 0
    while True:
        i = (p + sep).find(sep)
        if i == len(p):
            return p
        # break the occurrence at its last byte that lies inside the payload
        j = min(i + len(sep) - 1, len(p) - 1)
        fill = filler[0]
        if sep[j - i] == fill:
            fill = filler[1]
        p = p[:j] + bytes([fill]) + p[j + 1 :]
        guard += 1
        if guard > 4 * len(p) + 8:
            raise HarnessError(f"cannot sanitize payload {p!r} for separator {sep!r}")


def _more_frames(world: World, have: int, max_frames: int) -> bool:
    """1..max_frames frames; drawn as a stop/continue flag per frame (0 = stop) so that the minimiser can delete the
    choices of one whole frame without shifting the meaning of the others"""
    if have == 0:
        return True
    if have >= max_frames:
        return False
    return world.choose("more_frames", 4) > 0


def _sep_units(alpha: bytes, sep: bytes) -> list[bytes]:
    units = [bytes([b]) for b in alpha]
    for k in range(1, len(sep)):
        units.append(sep[:k])  # proper prefixes of the separator (lone "\r" with CRLF, "<", "<>" …)
    if len(sep) > 1:
        units.append(sep[1:])  # and a proper suffix
    return units


@dataclasses.dataclass
class _SepFamily:
    """payload factory of one separator-framed serializer configuration"""

    sep: bytes
    limit: int
    valid: Callable[[Any, int], bytes | None]  # (rng, maxlen) -> payload of 1..maxlen bytes, or None
    undecodable: Callable[[Any, int], bytes | None]
    big: Callable[[Any, int], bytes]  # (rng, n) -> payload of exactly n bytes from the rejected-frame alphabet
    filler_low: bytes = LOW
    filler_up: bytes = UP
    min_len: int = 1  # shortest payload `valid` can produce


def _gen_sep_frames(world: World, rng, fam: _SepFamily, max_frames: int = 6) -> list[tuple[str, bytes]]:
    sep, limit = fam.sep, fam.limit
    seplen = len(sep)
    safe_max = safe_payload_max(limit, seplen)
    # half of the runs exercise clause 1 (every frame safely within the limit), the other half clause 2
    kinds = ["valid", "valid", "undecodable", "empty"]
    if world.choose("with_unsafe_frames", 2):
        kinds = ["valid", "valid", "undecodable", "empty", "band", "oversized", "band"]
    frames: list[tuple[str, bytes]] = []
    while _more_frames(world, len(frames), max_frames):
        kind = world.pick("kind", kinds)
        p: bytes | None
        if kind in ("valid", "undecodable"):
            if safe_max < 1:
                kind, p = "empty", b""
            else:
                n = 1 + world.choose("len", safe_max)
                if world.chance("at_edge", 1, 4):
                    n = safe_max - world.choose("below_edge", min(3, safe_max))
                if n < fam.min_len <= safe_max:
                    n = fam.min_len + world.choose("len_above_min", safe_max - fam.min_len + 1)
                p = (fam.valid if kind == "valid" else fam.undecodable)(rng, n)
                if p is None:
                    kind, p = "empty", b""
                else:
                    p = _sanitize(p, sep, fam.filler_low)
        elif kind == "empty":
            p = b""
        elif kind == "band":
            n = max(1, safe_max + 1 + world.choose("bandlen", limit + seplen + 1 - safe_max))
            p = _sanitize(fam.big(rng, n), sep, fam.filler_up)
        else:
            n = limit + seplen + 2 + world.choose("overlen", 40)
            p = _sanitize(fam.big(rng, n), sep, fam.filler_up)
        if kind in ("valid", "undecodable", "empty") and len(p) > safe_max and len(p) > 0:
            raise HarnessError(f"generator produced a {kind} payload of {len(p)} > safe {safe_max}")
        frames.append((kind, p))
    return frames


def _sep_case(family: str, desc: str, cfg: Framing, make, fam: _SepFamily, frames, value_bytes, extra_structural=()) -> Case:
    sep = fam.sep
    stream = b"".join(p + sep for _, p in frames)
    structural: list[int] = []
    pos = 0
    for _, p in frames:
        pos += len(p)
        structural.extend(range(pos, pos + len(sep) + 1))
        pos += len(sep)
    structural.extend(extra_structural)
    safe_max = safe_payload_max(fam.limit, len(sep))
    unsafe = [len(p) > safe_max for _, p in frames]
    return Case(family, desc, cfg, make, stream, frames, unsafe, value_bytes, structural, limit=fam.limit)


# --------------------------------------------------------------------------------------------------- line
_LINE_ENC = ["ascii", "utf-8", "latin-1", "utf-16-le"]


def _gen_line(world: World) -> Case:
    newline = world.pick("newline", ["LF", "CR", "CRLF"])
    sep = {"LF": b"\n", "CR": b"\r", "CRLF": b"\r\n"}[newline]
    limit = 8 + world.choose("limit", 89)
    keep_end = bool(world.choose("keep_end", 2))
    encoding = _LINE_ENC[world.choose("encoding", 6) % 4]  # ascii twice as often, utf-8 twice as often
    rng = world.sub_rng("filler")

    if encoding == "utf-16-le":
        good = [bytes([b, 0]) for b in LOW] + [bytes([b, 0]) for b in sep[:-1]] + [b"\xe9\x00", b"\xac\x20"]
        bad = [b"\x00\xd8", b"a"]  # lone surrogate, odd length
    elif encoding == "utf-8":
        good = _sep_units(LOW, sep) + [b"\xc3\xa9", b"\xe2\x82\xac"]
        bad = [b"\xe9", b"\xe2\x82", b"\xff"]
    else:
        good = _sep_units(LOW, sep)
        bad = [b"\xe9", b"\xff"] if encoding == "ascii" else []

    def valid(rng, n):
        p = _units_payload(rng, good, n)
        return p if p else None

    def undecodable(rng, n):
        if not bad:
            return valid(rng, n)
        b = rng.choice(bad)
        if len(b) > n:
            return valid(rng, n)
        p = _units_payload(rng, good, n - len(b))
        cut = rng.randrange(len(p) + 1)
        if encoding == "utf-16-le":
            cut -= cut % 2
        return p[:cut] + b + p[cut:]

    def big(rng, n):
        return _units_payload(rng, _sep_units(UP, sep), n)

    fam = _SepFamily(sep, limit, valid, undecodable, big)
    frames = _gen_sep_frames(world, rng, fam)

    def make():
        return StringLineSerializer(newline, limit=limit, keep_end=keep_end, encoding=encoding)

    def value_bytes(v):
        try:
            return v.encode(encoding)
        except (UnicodeError, AttributeError):
            return None

    cfg = Framing("separator", make, separator=sep, decode_with_separator=keep_end)
    desc = f"StringLineSerializer({newline!r}, limit={limit}, keep_end={keep_end}, encoding={encoding!r})"
    # cuts inside multi-byte characters
    extra = []
    stream = b"".join(p + sep for _, p in frames)
    for i, b in enumerate(stream):
        if b >= 0x80:
            extra.append(i)
    return _sep_case("line", desc, cfg, make, fam, frames, value_bytes, extra[:32])


# --------------------------------------------------------------------------------------------------- JSON texts
def _json_text(rng, maxlen: int) -> bytes | None:
    """compact JSON text of 1..maxlen bytes whose first byte is one of { [ " (self-delimited document)"""
    if maxlen < 2:
        return None
    for _ in range(8):
        n = rng.randint(2, maxlen)
        shape = rng.choice(["str", "list", "obj", "nested", "uni", "esc", "brace-in-str", "empty"])
        if shape == "str":
            t = b'"' + bytes(rng.choice(LOW) for _ in range(n - 2)) + b'"'
        elif shape == "list":
            items = []
            while len(b"[" + b",".join(items) + b"]") < n - 2:
                items.append(str(rng.randint(0, 999)).encode())
            t = b"[" + b",".join(items) + b"]"
        elif shape == "obj":
            t = b'{"' + bytes([rng.choice(LOW)]) + b'":"' + bytes(rng.choice(LOW) for _ in range(max(0, n - 8))) + b'"}'
        elif shape == "nested":
            t = b'{"a":[1,{"b":"' + bytes(rng.choice(LOW) for _ in range(max(0, n - 18))) + b'"}]}'
        elif shape == "uni":
            t = b'["' + b"\xc3\xa9" * max(1, (n - 4) // 2) + b'"]'
        elif shape == "esc":
            t = b'"' + rng.choice([b'a\\"b', b"\\\\", b'\\"', b"c\\\\\\\"d", b"\\u00e9", b"\\n"]) + b'"'
        elif shape == "brace-in-str":
            t = rng.choice([b'{"a":"]"}', b'["}{"]', b'"}{"', b'{"[":"\\"}"}', b'["a]","[b"]'])
        else:
            t = rng.choice([b"[]", b"{}", b'""', b"[[]]", b'{"a":{}}'])
        if 2 <= len(t) <= maxlen:
            return t
    return rng.choice([b"[]", b"{}", b'""'])


_BAD_BALANCED = [
    b'{"a":}',
    b"[1,,2]",
    b'{"k":"\xff"}',
    b'"ab\xfe"',
    b"[tru]",
    b'{"a" 1}',
    b"[1 2]",
    b"{,}",
    b'["\xc3"]',
    b'{"a":1,}',
    b"[01]",
    b'"a\x01b"',
    b'{"a":[1,{"b":}]}',
    b'["\\x"]',
    b'[{"a":"\xe9"}]',
]


def _json_bad_balanced(rng, maxlen: int) -> bytes | None:
    """malformed but bracket-balanced document of <= maxlen bytes"""
    cands = [t for t in _BAD_BALANCED if len(t) <= maxlen]
    if not cands:
        return None
    t = rng.choice(cands)
    # grow by wrapping: still balanced, still malformed
    for _ in range(rng.randrange(4)):
        w = rng.choice([(b"[", b"]"), (b'{"w":', b"}"), (b"[1,", b"]")])
        if len(w[0]) + len(t) + len(w[1]) > maxlen:
            break
        t = w[0] + t + w[1]
    return t


_BAD_LINE_ONLY = [b'{"a":1', b"abc", b"}{", b'"open', b"[1,2", b"\xff\xfe", b"1 2", b"nul"]


def _json_up_text(rng, n: int) -> bytes:
    """rejected-frame alphabet for JSON lines: a JSON string of UP letters (valid if accepted) or bare UP letters"""
    if n >= 2 and rng.randrange(2):
        return b'"' + bytes(rng.choice(UP) for _ in range(n - 2)) + b'"'
    return bytes(rng.choice(UP) for _ in range(n))


def _json_value_bytes(v: Any) -> bytes | None:
    import json

    try:
        return json.dumps(v, ensure_ascii=False, separators=(",", ":")).encode("utf-8")
    except (TypeError, ValueError, UnicodeError):
        return None


# --------------------------------------------------------------------------------------------------- JSON lines
def _gen_jsonl(world: World) -> Case:
    limit = 8 + world.choose("limit", 89)
    sep = b"\n"
    rng = world.sub_rng("filler")

    def valid(rng, n):
        if rng.randrange(4) == 0:
            t = rng.choice([b"1", b"-12", b"null", b"true", b"3.5", b"false", b"1e3"])
            return t if len(t) <= n else (b"7" if n >= 1 else None)
        return _json_text(rng, n) or (b"7" if n >= 1 else None)

    def undecodable(rng, n):
        if rng.randrange(2):
            t = _json_bad_balanced(rng, n)
            if t is not None:
                return t
        cands = [t for t in _BAD_LINE_ONLY if len(t) <= n]
        return rng.choice(cands) if cands else None

    fam = _SepFamily(sep, limit, valid, undecodable, _json_up_text)
    frames = _gen_sep_frames(world, rng, fam)

    def make():
        return JSONSerializer(limit=limit, use_lines=True)

    cfg = Framing("separator", make, separator=sep)
    extra = [i + 1 for i, b in enumerate(b"".join(p + sep for _, p in frames)) if b == 0x5C or b >= 0x80]
    return _sep_case("jsonl", f"JSONSerializer(limit={limit}, use_lines=True)", cfg, make, fam, frames, _json_value_bytes, extra[:32])


# --------------------------------------------------------------------------------------------------- base64 around JSON
def _gen_b64(world: World) -> Case:
    sep = world.pick("separator", [b"\r\n", b"|", b"<>!"])
    checksum = bool(world.choose("checksum", 2))
    alphabet = world.pick("alphabet", ["urlsafe", "standard"])
    limit = (64 if checksum else 16) + world.choose("limit", 65)
    rng = world.sub_rng("filler")
    enc = base64.urlsafe_b64encode if alphabet == "urlsafe" else base64.standard_b64encode

    def token(inner: bytes) -> bytes:
        if checksum:
            inner = inner + hashlib.sha256(inner).digest()
        return enc(inner)

    def max_inner(n: int) -> int:  # largest inner JSON length whose token fits into n bytes
        raw = (n // 4) * 3
        return raw - (32 if checksum else 0)

    def sprinkle(rng, t: bytes, n: int) -> bytes:
        """insert proper prefixes of the separator: not in the base64 alphabet, discarded by the lenient decoder"""
        units = [sep[:k] for k in range(1, len(sep))]
        while units and len(t) < n and rng.randrange(3) == 0:
            u = rng.choice(units)
            if len(t) + len(u) > n:
                break
            cut = rng.randrange(len(t) + 1)
            t = t[:cut] + u + t[cut:]
        return t

    def valid(rng, n):
        m = max_inner(n)
        if m < 1:
            return None
        inner = rng.choice([b"1", b"7", b"0"]) if m < 2 or rng.randrange(5) == 0 else (_json_text(rng, m) or b"7")
        return sprinkle(rng, token(inner), n)

    def undecodable(rng, n):
        how = rng.choice(["json", "digest", "padding", "chars"])
        m = max_inner(n)
        if how == "json" and m >= 2:
            bad = _json_bad_balanced(rng, m) or rng.choice([t for t in _BAD_LINE_ONLY if len(t) <= m] or [b"}{"])
            if len(bad) <= m:
                return token(bad)
        t = valid(rng, n)
        if t is None:
            return bytes(rng.choice(LOW) for _ in range(min(n, 1 + rng.randrange(5)))) or None
        if how == "digest" and checksum and len(t) > 8:
            i = len(t) - 6
            c = t[i : i + 1]
            return t[:i] + (b"A" if c != b"A" else b"B") + t[i + 1 :]
        if how == "padding":
            return t.rstrip(b"=")[:-1] or b"a"
        return t[: max(1, len(t) // 2)]

    def big(rng, n):
        return _units_payload(rng, _sep_units(UP, sep), n)

    fam = _SepFamily(sep, limit, valid, undecodable, big, min_len=48 if checksum else 4)
    frames = _gen_sep_frames(world, rng, fam)

    def make():
        return Base64EncoderSerializer(JSONSerializer(), alphabet=alphabet, checksum=checksum, separator=sep, limit=limit)

    def value_bytes(v):
        try:
            return make().serialize(v)
        except Exception:  # noqa: BLE001
            return None

    cfg = Framing("separator", make, separator=sep)
    desc = f"Base64EncoderSerializer(JSONSerializer(), alphabet={alphabet!r}, checksum={checksum}, separator={sep!r}, limit={limit})"
    return _sep_case("b64", desc, cfg, make, fam, frames, value_bytes)


# --------------------------------------------------------------------------------------------------- AutoSeparated subclass
class BytesFramesSerializer(AutoSeparatedPacketSerializer[bytes, bytes]):
    """Minimal AutoSeparatedPacketSerializer subclass: packets are the frames themselves; 0xE9 / 0xFF make a frame invalid."""

    __slots__ = ()

    def serialize(self, packet: bytes) -> bytes:
        return bytes(packet)

    def deserialize(self, data: bytes) -> bytes:
        if b"\xe9" in data or b"\xff" in data:
            raise DeserializeError("forbidden byte in frame")
        return bytes(data)


_AUTOSEPS = [b"\n", b"\r\n", b"<>!", b"|", b"::", b"aab", b"\x00", b"\x00\x00\x01", b"aba"]


def _gen_autosep(world: World) -> Case:
    sep = world.pick("separator", _AUTOSEPS)
    limit = 8 + world.choose("limit", 89)
    rng = world.sub_rng("filler")
    good = _sep_units(LOW, sep)

    def valid(rng, n):
        return _units_payload(rng, good, n) or None

    def undecodable(rng, n):
        p = bytearray(_units_payload(rng, good, n))
        if not p:
            return None
        p[rng.randrange(len(p))] = rng.choice([0xE9, 0xFF])
        return bytes(p)

    def big(rng, n):
        return _units_payload(rng, _sep_units(UP, sep), n)

    # fillers must not be able to re-create the separator
    low = bytes(b for b in LOW if b not in sep) or b"gh"
    fam = _SepFamily(sep, limit, valid, undecodable, big, filler_low=low, filler_up=UP)
    frames = _gen_sep_frames(world, rng, fam)

    def make():
        return BytesFramesSerializer(sep, limit=limit)

    cfg = Framing("separator", make, separator=sep)
    return _sep_case("autosep", f"BytesFramesSerializer(separator={sep!r}, limit={limit})", cfg, make, fam, frames, lambda v: bytes(v) if isinstance(v, bytes) else None)


# --------------------------------------------------------------------------------------------------- raw JSON
_JSON_WS = [b" ", b"\n", b"\t", b"\r"]


def _gen_jsonraw(world: World) -> Case:
    limit = 8 + world.choose("limit", 89)
    rng = world.sub_rng("filler")
    safe = limit - 2  # leading whitespace + document (+ terminator of a plain value) <= limit - 2
    frames: list[tuple[str, bytes]] = []
    parts: list[bytes] = []
    while _more_frames(world, len(frames), 8):
        kind = world.pick("kind", ["valid", "valid", "undecodable", "plain", "valid", "plain-bad"])
        lead = b"".join(rng.choice(_JSON_WS) for _ in range(world.choose("lead_ws", 3)))
        room = safe - len(lead)
        n = 2 + world.choose("len", max(1, room - 1))
        if world.chance("at_edge", 1, 4):
            n = room
        term = b""
        if kind == "valid":
            doc = _json_text(rng, n)
        elif kind == "undecodable":
            doc = _json_bad_balanced(rng, n)
        elif kind == "plain":
            doc = rng.choice([b"1", b"-12", b"null", b"true", b"3.5", b"false", b"1e3", b"123456789"])
            term = rng.choice(_JSON_WS)
        else:
            doc = rng.choice([b"nul", b"12a", b"tru", b"-", b"1.2.3", b"NaN0"])
            term = rng.choice(_JSON_WS)
        if doc is None or len(lead) + len(doc) + len(term) > safe:
            kind, lead, doc, term = "valid", b"", rng.choice([b"[]", b"{}", b'""']), b""
        frames.append((kind, doc))
        parts.append(lead + doc + term)
    tail_ws = b"".join(rng.choice(_JSON_WS) for _ in range(world.choose("tail_ws", 3)))
    stream = b"".join(parts) + tail_ws

    def make():
        return JSONSerializer(limit=limit, use_lines=False)

    cfg = Framing("json-raw", make)
    structural: list[int] = []
    pos = 0
    for part in parts:
        pos += len(part)
        structural.append(pos)
    structural.extend(i + 1 for i, b in enumerate(stream) if b == 0x5C or b == 0x22 or b >= 0x80)
    return Case(
        "jsonraw",
        f"JSONSerializer(limit={limit}, use_lines=False)",
        cfg,
        make,
        stream,
        frames,
        [False] * len(frames),
        _json_value_bytes,
        structural[:64],
        limit=limit,
        ws_leftover_ok=True,
    )


# --------------------------------------------------------------------------------------------------- fixed size
class FixedBlockSerializer(FixedSizePacketSerializer[bytes, bytes]):
    """Minimal FixedSizePacketSerializer subclass: a block containing 0xE9 or starting with 0xFF is invalid."""

    __slots__ = ()

    def serialize(self, packet: bytes) -> bytes:
        return bytes(packet)

    def deserialize(self, data: bytes) -> bytes:
        if b"\xe9" in data or data[:1] == b"\xff":
            raise DeserializeError("invalid block")
        return bytes(data)


class Rec(NamedTuple):
    name: str
    n: int
    flag: int


def _gen_fixed(world: World) -> Case:
    variant = world.pick("variant", ["block", "struct", "namedtuple"])
    rng = world.sub_rng("filler")
    if variant == "block":
        size = 1 + world.choose("size", 12)

        def make():
            return FixedBlockSerializer(size)

        desc = f"FixedBlockSerializer(size={size})"
        bad_span = (0, size)
    elif variant == "struct":
        fmt = world.pick("format", ["!Hb", "<I", ">3sx?", "!5s", "<hhB"])

        def make():
            return StructSerializer(fmt)

        size = make().packet_size
        desc = f"StructSerializer({fmt!r})"
        bad_span = None  # every block decodes
    else:
        endian = world.pick("endianness", ["!", "<"])
        width = 2 + world.choose("name_width", 5)

        def make():
            return NamedTupleStructSerializer(Rec, {"name": f"{width}s", "n": "H", "flag": "b"}, format_endianness=endian, encoding="utf-8")

        size = make().packet_size
        desc = f"NamedTupleStructSerializer(Rec, name={width}s n=H flag=b, endianness={endian!r}, utf-8)"
        bad_span = (0, width)
    frames: list[tuple[str, bytes]] = []
    while _more_frames(world, len(frames), 8):
        kind = world.pick("kind", ["valid", "valid", "undecodable"])
        block = bytearray(rng.choice(LOW) for _ in range(size))
        if variant == "namedtuple" and rng.randrange(3) == 0:
            k = rng.randrange(width + 1)
            block[k:width] = b"\0" * (width - k)  # padded string field
        if kind == "undecodable" and bad_span is not None:
            block[rng.randrange(bad_span[0], bad_span[1])] = 0xE9
        frames.append((kind, bytes(block)))
    stream = b"".join(p for _, p in frames)
    structural = [k * size for k in range(1, len(frames))]
    cfg = Framing("fixed", make, size=size)
    return Case("fixed", desc, cfg, make, stream, frames, [False] * len(frames), lambda v: None, structural)


# =================================================================================================== the harness
GENERATORS: dict[str, Callable[[World], Case]] = {
    "line": _gen_line,
    "jsonl": _gen_jsonl,
    "b64": _gen_b64,
    "autosep": _gen_autosep,
    "jsonraw": _gen_jsonraw,
    "fixed": _gen_fixed,
}


def _short(out) -> list:
    return [(o[0], o[1]) if o[0] != "crash" else o for o in out]


def run_case(world: World, family: str, path: str) -> None:
    case = GENERATORS[family](world)
    stream = case.stream
    # the model's own view of the stream
    try:
        mframes, tail = split_frames(case.cfg, stream)
        ref = reference_outcomes(case.cfg, stream)
    except NoFrameStructure as exc:
        raise HarnessError(f"generator left the model's domain at {exc.pos}: {stream!r}") from None
    if len(mframes) != len(case.frames) or [f.payload(stream) for f in mframes] != [p for _, p in case.frames]:
        raise HarnessError(f"model split {[f.payload(stream) for f in mframes]} != generated {case.frames} ({case.desc})")
    if any(o[0] == "crash" for o in ref):
        raise HarnessError(f"one-shot reference crashed on a generated frame: {ref} {case.frames}")

    if path in T2_PATHS:
        cuts = bounded_cuts(world, len(stream), case.structural, T2_MAX_CHUNKS)
    else:
        cuts = gen_cuts(world, len(stream), case.structural)
    chunks = cuts_to_chunks(stream, cuts)
    wrap, make_driver = PATHS[path]
    drv = make_driver(wrap(case.make()), world)
    out = run_stream(drv, chunks)
    finish = getattr(drv, "finish", None)
    if finish is not None:  # deferred (T2) drivers run the whole scenario here
        finish()
        out = drv.out

    world.log("run", path, family, len(case.frames), len(chunks), tuple(o[0] for o in out))
    world.notes.update(
        serializer=case.desc,
        frames=[(k, p.decode("latin1")) for k, p in case.frames],
        chunks=[len(c) for c in chunks][:40],
        path=path,
    )
    world.progress(sum(1 for o in out if o[0] == "pkt"))
    if any(case.unsafe):
        world.probe("stream-with-unsafe-frame")
    if any(o == ("err", LIMIT_ERROR) for o in out):
        world.probe("limit-error-raised")
    if any(o[0] == "err" and o[1] != LIMIT_ERROR for o in out):
        world.probe("parse-error-raised")

    site = f"{family}/{path}"
    sizes = [len(c) for c in chunks]
    t2 = {k: world.notes[k] for k in ("max_recv_size", "t2_mode", "retry_interval", "gap", "head_start", "slow_receiver") if k in world.notes}
    ctx = f"{case.desc}\n frames={case.frames}\n stream={stream!r}\n chunk sizes={sizes} {t2 or ''}\n got {_short(out)}\n ref {ref}"
    for o in out:
        if o[0] == "crash":
            raise Violation("no-crash", f"{o} escaped; {ctx}", key=f"C02/{site}/crash/{o[1]}")
    if not any(case.unsafe):
        if not same_outcomes(out, ref):
            raise Violation("safe-frames-equal-reference", ctx, key=f"C02/{site}/safe-equal")
        held = drv.held_bytes() if drv.pending() else b""
        if held and not (case.ws_leftover_ok and not held.strip(b" \t\n\r")):
            raise Violation("no-leftover", f"{len(held)} bytes held after a stream of complete frames: {held!r}; {ctx}", key=f"C02/{site}/leftover")
    else:
        sep = case.cfg.separator
        own = [stream[f.start : f.term_end] for f in mframes]

        def junk_ok(k: int, o: tuple) -> bool:
            if o[0] == "err":
                return True
            if o[0] != "pkt":
                return False
            vb = case.value_bytes(o[1])
            return vb is not None and vb in own[k]

        if not explains(out, ref, case.unsafe, junk_ok):
            raise Violation("resume-after-rejected-frame", f"unsafe={case.unsafe} sep={sep!r}\n {ctx}", key=f"C02/{site}/resume")


def _harness(family: str, path: str, weight: int = 1) -> Harness:
    return Harness(f"{family}-{path}", lambda w: run_case(w, family, path), weight=weight)


# T1 runs cost ~0.5 ms, T2 runs a few ms: T1 weights x6, every T2 harness weight 1 (20 of 110 = 18 % of the runs)
_T1 = [("line", 2, True), ("jsonl", 1, False), ("b64", 1, True), ("autosep", 2, True), ("jsonraw", 2, False), ("fixed", 1, True)]
HARNESSES = []
for _family, _w, _buffered in _T1:
    HARNESSES.append(_harness(_family, "copy", 6 * _w))
    if _buffered:
        HARNESSES.append(_harness(_family, "fill", 6 * _w))
for _family, _w, _buffered in _T1:
    for _path in T2_PATHS:
        if _buffered or _path.endswith("-copy"):
            HARNESSES.append(_harness(_family, _path, 1))
