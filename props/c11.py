"""C11 — a timeout is a budget for the whole blocking operation (DESIGN §4 C11).

One simulated caller runs a drawn sequence of blocking operations with timeouts chosen *relative to the moment the world
makes the operation completable* (well before / exactly at / just after / long after / 0 / None).  The world knows that
moment exactly: receive = the write time of the packet's last byte on a link that delivers whole and at once; send = the
first time at which link capacity + cumulative read credit of the peer covers everything written so far plus the packet;
datagram = its injection time.  Oracle (function ``judge``): elapsed virtual time <= budget; budget 0 => no select() with a
positive wait and no time passes; TimeoutError only if the completion moment is not strictly inside [start, start+budget)
(exact ties are generated on purpose and accept both outcomes); an iterator's budget is the sum over its next() calls.

Every harness builds a ``Ctx`` (selector hooks + oracle state) and judges its calls with ``Ctx.judge``.
Lock contention (``thr-*`` harnesses, vsim.threads baton scheduler): a second simulated thread sits inside a blocking call of
the same TCPNetworkClient / UDPNetworkClient and holds its receive or send lock until a chosen virtual time L; the judged
caller (thread 0) needs the lock AND its own data; a zero budget must not even wait for the lock.
Blocking TLS (``sync-tls``): SSLStreamTransport over a real socketpair bridged to the reference TLS peer; cipher-text of one
record per message is drip-fed on an explicit schedule; a record is completable when its last cipher-text byte was written.
"""
from __future__ import annotations

import asyncio
import math
import socket as _socket
from typing import Any, Callable

from easynetwork.clients.async_tcp import AsyncTCPNetworkClient
from easynetwork.clients.async_udp import AsyncUDPNetworkClient
from easynetwork.clients.tcp import TCPNetworkClient
from easynetwork.clients.udp import UDPNetworkClient
from easynetwork.lowlevel.api_sync.endpoints.stream import StreamEndpoint
from easynetwork.lowlevel.api_sync.transports.socket import SocketStreamTransport
from easynetwork.protocol import BufferedStreamProtocol, DatagramProtocol, StreamProtocol
from easynetwork.serializers.line import StringLineSerializer

from vsim.backend import SimAsyncIOBackend, sim_sockets
from vsim.harness import CallFaults, Peer, draw_rate, sync_engine, vsleep
from vsim.loop import run_async
from vsim.runner import Harness
from vsim.sock import EVENT_READ, EVENT_WRITE, Delivery, SimNet, SimSelector, SimSocket, patched_clock
from vsim.world import Violation, World

PROPERTY = "C11"
LEVEL = "exploration"
RULE = (
    "1-4 blocking operations per run: recv_packet / iter_received_packets (1-3 next calls, optional sleeps between them) / "
    "send_packet on StreamEndpoint(SocketStreamTransport), TCPNetworkClient, UDPNetworkClient, and async iter_received_packets on "
    "AsyncTCPNetworkClient / AsyncUDPNetworkClient; arrival schedule per packet in {all at once, drip-feed 1 byte every d, random "
    "bursts, long silence then everything, last byte never}; d in {1,2,4,8}/64 s; retry_interval in {inf, d/2, 3d}; timeout in "
    "{None, 0, exact tie with the completion moment, before it by d/2|d|3d, after it by d/2, after it by 10d, d/2|d|3d}; "
    "spurious early select wake-ups, injected EAGAIN/EINTR; send: link capacity 4..64 bytes, peer read credit granted in steps at "
    "drawn times, short writes; thr-*: a holder thread inside recv_packet(None) / back-pressured send_packet(None) of the same "
    "client keeps the receive / send lock until L in {1,4,10,30}d, the caller starts at {1,2,5,12,40}d, scheduler switch_den in "
    "{2,3,6}; thr-x-*: cross-lock case, the holder keeps the OTHER lock (send lock while the caller receives, receive lock while "
    "the caller sends; TCP and UDP) until L in {10,30,60,200}d and the caller's operation is completable regardless of L; sync-tls: TLS 1.2/1.3, library as client or server, handshake flights dripped by a (sizes, delays) script with "
    "handshake_timeout in {60, 8d, 40d}, then 1-3 records fed byte-wise / in bursts / after a silence / last byte never; "
    "sync-overshoot-*: 1-3 recv_packet (StreamEndpoint, TCPNetworkClient, UDPNetworkClient) / back-pressured send_packet calls with "
    "retry_interval in d/{1,2,8,32} and T = {3,10,25,60}(+0|1/4|1/2) retry intervals, every select() that expires idle returns late "
    "(select_overshoot: constant {1/16,1/4,1,3} retry intervals | wait rounded up to a timer granule {1.5,2,4,8} retry intervals | a "
    "random 1/{2,3,5} of the wake-ups), completion at s + T x {1/2, 3/4, 1, 1+1/64, 2, never}; allowed: T + lateness of the LAST "
    "select() of the call only (every earlier lateness is measurable with the clock), and no select() may start after s + T; "
    "iter-budget-{sync,aio}-{tcp,udp}: 1-2 iterators over 1-5 packets arriving whole (gaps {0,1,4,20}d, last one may never come), each "
    "packet malformed with probability 1/2 (invalid UTF-8: next() raises Stream/DatagramProtocolParseError, the caller skips it and calls "
    "next() again on the SAME iterator), 0-2 further next() calls after the iterator stopped on its timeout, pauses between the calls "
    "(not charged); every next() is judged against what is left of the iterator's T, whatever the outcome of the previous ones (D34); "
    "non-trivial = a fault kind fired and >=1 operation completed with a value"
)
COMPONENTS_REAL = [
    "easynetwork.lowlevel.api_sync.transports.base_selector._retry",
    "easynetwork.lowlevel.api_sync.transports.socket.SocketStreamTransport / SocketDatagramTransport",
    "easynetwork.lowlevel.api_sync.transports.abc.StreamWriteTransport.send_all",
    "easynetwork.lowlevel.api_sync.endpoints.stream / datagram",
    "easynetwork.lowlevel._utils.ElapsedTime, lock_with_timeout (uncontended and contended by a second simulated thread)",
    "easynetwork.lowlevel.api_sync.transports.socket.SSLStreamTransport (handshake, recv, send_all) + OpenSSL via ssl",
    "CPython threading (Lock via vsim.threads.SimLock, Thread start/join)",
    "easynetwork.clients.tcp / udp / async_tcp / async_udp, easynetwork.clients._iter (budget kept across parse errors and after exhaustion)",
    "easynetwork asyncio backend (timeout scopes, stream and datagram endpoints), CPython asyncio loop",
]
COMPONENTS_STUB = [
    "socket (SimSocket; for TLS a real AF_UNIX socketpair pumped by the simulator)",
    "selector (SimSelector subclass with early spurious wake-ups; sync-overshoot-*: idle waits that return late)",
    "time.perf_counter / loop.time (world clock)",
    "peer (scripted, credit-based reader; reference ssl.SSLObject peer for TLS)",
    "OS thread scheduling (baton scheduler: one runnable thread at a time, switches at lock/select/start/join/sleep)",
]
ASSUMPTIONS = [
    "processing takes no virtual time: the clock only moves inside select()/sleep",
    "sync-overshoot-*: only a select() whose whole timeout expired idle returns late; what became ready meanwhile is reported by "
    "that same select(); the lateness of the last select() of a call is granted as slack, nothing else; no EAGAIN/EINTR injection there",
    "completion moment of a send assumes a greedy sender (writes whenever the socket is writable); the library is one",
    "asyncio engine: the arrival model assumes a timed-out receive loses no bytes (C10; D5 fixed in /repo e60fd44), so ties "
    "and zero budgets are generated on the buffer-filling path too",
    "thr-*: the holder finishes exactly at L (checked: HARNESS-ERROR otherwise); only the judged caller can contend on a lock, so "
    "world.stats['lock_contention'] during its call counts its own blocking lock waits; select() calls of the holder are not charged",
    "sync-tls: OpenSSL returns a record as soon as all its cipher-text is readable and one recv returns at most one record "
    "(bufsize 4096 >= payload); for timeout 0 only the non-blocking clause is asserted; for the handshake only the budget clause; "
    "send_all never has to wait (socketpair buffer >> data), so it is completable at once",
]
BUDGET = {"quick": 40, "thorough": 480}

EPS = 1e-9


# ============================================================================================== context, selector, oracle
class Ctx:
    def __init__(self, world: World, site: str):
        self.world = world
        self.site = site
        self.pos_waits = 0
        self.deadline: float | None = None
        self.what = ""
        self.early_den = 0
        self.early_steps: tuple[float, ...] = (1 / 256,)
        self.log: list[tuple] = []
        self.completed = 0
        # late wake-ups (sync-overshoot harnesses): over(timeout) -> by how much a select() that expired idle returns late;
        # last_over = lateness of the judged caller's most recent select() (the only slack the budget clause grants)
        self.over: Callable[[float], float] | None = None
        self.last_over = 0.0
        self.n_over = 0
        self.late: list[tuple[float, float]] = []  # (nominal expiry, actual return) of the late select() calls of this call
        world.c11 = self  # type: ignore[attr-defined]

    def fail(self, clause: str, op: str, msg: str) -> None:
        v = Violation(clause, f"{msg}\n  site={self.site} history={self.log}\n  scenario={self.world.notes}", key=f"C11/{self.site}/{op}/{clause}")  # type: ignore[attr-defined]
        self.world.fail(v)

    # ---- called by C11Selector before every select()
    def on_select(self, timeout: float | None) -> None:
        sched = getattr(self.world, "sched", None)
        if sched is not None and sched.active and sched.current is not None and sched.current.idx != 0:
            return  # threads engine: a select() of the lock-holder thread, not of the judged caller (thread 0)
        self.last_over = 0.0
        if timeout is None or timeout > 0:
            self.pos_waits += 1
        if self.deadline is not None and self.world.now > self.deadline + EPS:
            self.fail("budget", self.what, f"{self.what}: the call is about to wait again (select timeout={timeout}) at t={self.world.now}, but its whole budget ended at t={self.deadline}")

    def begin(self, what: str, budget: float | None) -> tuple[float, int]:
        self.what = what
        self.deadline = None if budget is None else self.world.now + budget
        self.last_over = 0.0
        self.late = []
        return self.world.now, self.pos_waits

    def end(self) -> None:
        self.deadline = None

    def seen(self, tc: float | None) -> float | None:
        """the moment the caller could first act on a completion at tc: if tc falls after the nominal expiry of a select()
        that returned late, the caller was stuck inside that select() until it returned (a wake-up before the nominal
        expiry is never late)"""
        if tc is not None:
            for a, b in self.late:
                if a < tc <= b:
                    return b
        return tc

    def judge(self, op: str, budget: float | None, s: float, e: float, pos_waits: int, outcome: str, tc: float | None, sync: bool = True, lock_waits: int = 0, slack: float = 0.0) -> None:
        """budget: what is left of the timeout for this call (None = unbounded); tc: when the world made it completable;
        slack: lateness of the LAST select() of the call (a selector that returned late is outside the library's control; the
        lateness of every earlier select() was measurable by the library and is part of the budget: never summed up)"""
        w = self.world
        elapsed = e - s
        self.log.append((op, budget, s, e, outcome, tc))
        w.log("judge", self.site, op, budget, s, e, outcome, tc)
        if outcome == "value":
            self.completed += 1
            w.progress()
        if budget is None:
            if outcome == "timeout":
                self.fail("timeout-without-deadline", op, f"{op} without a timeout raised TimeoutError at t={e}")
            return
        if elapsed > budget + slack + EPS:
            late = f"; select() returned late {self.n_over} times, the last select() of the call by {slack} s (the only lateness the call cannot account for)" if self.n_over else ""
            self.fail("budget", op, f"{op} with {budget} s left of its timeout took {elapsed} virtual seconds (t={s}..{e}), outcome={outcome}{late}")
        if budget <= 0:
            if elapsed > 0 or (sync and pos_waits) or lock_waits:
                self.fail("zero-timeout-blocked", op, f"{op} with a zero budget waited: {pos_waits} select() calls with a positive wait, {lock_waits} blocking lock waits, {elapsed} s passed")
            w.probe("zero-budget-" + outcome)
            return
        if outcome == "timeout":
            if tc is not None and tc < s + budget:
                self.fail("timeout-justified", op, f"{op} raised TimeoutError at t={e} (start {s}, budget {budget}) although the world made it completable at t={tc} < {s + budget}")
            w.probe("timeout-at-tie" if tc is not None and tc == s + budget else "timeout-justified")
        elif outcome == "value" and tc is not None and tc == s + budget:
            w.probe("value-at-tie")


class C11Selector(SimSelector):
    """reports to Ctx; with a per-run probability wakes up early with a spurious ready key (nothing is ready)"""

    def select(self, timeout: float | None = None):
        ctx: Ctx = self.world.c11  # type: ignore[attr-defined]
        ctx.on_select(timeout)
        w = self.world
        if ctx.early_den and (timeout is None or timeout > 0) and w.chance("early", 1, ctx.early_den):
            dt = w.pick("early.dt", ctx.early_steps)
            if timeout is not None:
                dt = min(dt, timeout)
            ready = super().select(dt)
            if not ready:
                keys = [k for fd, k in self._fd_to_key.items() if fd in w.fd_table]
                if keys:
                    w.fault("spurious_ready")
                    w.log("spurious", "sel", dt)
                    return [(keys[0], keys[0].events & (EVENT_READ | EVENT_WRITE))]
            return ready
        if ctx.over is None or timeout is None or timeout <= 0:
            return super().select(timeout)
        ready = super().select(timeout)
        if ready:
            return ready
        # the whole timeout expired idle: the selector returns late (timer granularity, loaded machine, slow wake-up);
        # world events keep running meanwhile and what became ready in the meantime is reported
        ov = ctx.over(timeout)
        if ov > 0:
            target = w.now + ov
            while w.now < target:
                w.advance(None, until=target)
            ctx.last_over = ov
            ctx.late.append((w.now - ov, w.now))
            ctx.n_over += 1
            w.fault("select_overshoot")
            w.log("overshoot", "sel", timeout, ov)
            ready = self._ready_now()
        return ready


def _choose_T(world: World, s: float, tc: float | None, d: float, *, none_ok: bool = True, zero_ok: bool = True, tie_ok: bool = True, offgrid: float = 0.0) -> float | None:
    """timeout relative to the completion moment; index 0 (boring) = no timeout"""
    kind = world.pick("T.kind", ["none", "way-after", "just-after", "tie", "before", "small", "zero"])
    rel = None if tc is None else tc - s
    if kind == "none":
        if none_ok and tc is not None:
            return None
        kind = "small"
    if kind == "zero":
        if zero_ok:
            return 0
        kind = "small"
    if kind == "small" or rel is None or rel <= 0:
        return world.pick("T.small", (d, d / 2, 3 * d)) + offgrid
    if kind == "tie":
        return rel + (offgrid if not tie_ok else 0.0)
    if kind == "before":
        x = rel - world.pick("T.before", (d / 2, d, 3 * d))
        return (x if x > 0 else rel / 2) + offgrid
    if kind == "just-after":
        return rel + d / 2 + offgrid
    return rel + 10 * d + offgrid


# ============================================================================================== arrival schedules
def _gen_frames(world: World, n: int) -> tuple[list[str], list[bytes]]:
    rng = world.sub_rng("payload")
    values = ["".join(rng.choice("abcdefgh") for _ in range(1 + rng.randrange(12))) for _ in range(n)]
    return values, [v.encode() + b"\n" for v in values]


def _arrivals(world: World, frames: list[bytes], d: float, calm: bool) -> tuple[list[tuple[float, bytes]], list[float | None]]:
    """(write time, bytes) list on the d/… grid and, per frame, the time its last byte is written (None = never).
    calm (fault-free baseline): every frame arrives in one piece, none is starved."""
    writes: list[tuple[float, bytes]] = []
    tcs: list[float | None] = []
    t = world.pick("arr.first", (0, 1, 5)) * d
    for i, f in enumerate(frames):
        kind = 0 if calm else world.choose("arr.kind", 4)
        starve = not calm and i == len(frames) - 1 and world.chance("arr.starve", 1, 5)
        if starve:
            f = f[:-1]
            world.fault("stall_peer")
        last = t
        if kind == 0:
            writes.append((t, f))
        elif kind == 1:  # drip-feed
            world.fault("frag")
            for j in range(len(f)):
                last = t + j * d
                writes.append((last, f[j : j + 1]))
        elif kind == 2:  # bursts
            world.fault("frag")
            pos = 0
            tt = t
            while pos < len(f):
                k = 1 + world.choose("arr.burst", 5)
                writes.append((tt, f[pos : pos + k]))
                last = tt
                pos += k
                tt += world.pick("arr.gap", (0, 1, 3)) * d
        else:  # long silence, then everything
            world.fault("delay")
            last = t + world.pick("arr.silence", (20, 40, 100)) * d
            writes.append((last, f))
        tcs.append(None if starve else last)
        t = last + world.pick("arr.next", (0, 1, 4, 20)) * d
    return [(tw, b) for tw, b in writes if b], tcs


def _swarm(world: World, ctx: Ctx, d: float, sock: SimSocket | None, ops: tuple[str, ...], calm: bool) -> None:
    if calm:
        return
    ctx.early_den = draw_rate(world, "sw.early", (0, 0, 6, 2))
    ctx.early_steps = (d / 4, d / 2, d, 3 * d)
    if sock is not None:
        ea = draw_rate(world, "sw.eagain", (0, 0, 8, 3))
        ei = draw_rate(world, "sw.eintr", (0, 0, 8, 3))
        if ea or ei:
            sock.fault_plan = CallFaults(world, ea, ei, ops=ops)


def _draw_common(world: World) -> tuple[float, float]:
    d = world.pick("delta", (4, 1, 2, 8)) / 64.0
    retry = world.pick("retry", (math.inf, d / 2, 3 * d))
    return d, retry


# ============================================================================================== sync: call runner
def _sync_call(ctx: Ctx, op: str, budget: float | None, tc: float | None, fn: Callable[[], Any], ok_exc: tuple[type[BaseException], ...] = ()) -> str:
    """run one blocking library call and judge it; returns 'value' | 'timeout' | 'error' (an exception of ok_exc: the call
    completed by consuming something the caller can skip, e.g. a malformed packet; only the time clauses are judged)"""
    w = ctx.world
    w.log("call", ctx.site, op, budget)
    s, p0 = ctx.begin(op, budget)
    l0 = w.stats["lock_contention"]  # threads engine: blocking lock acquisitions (only the judged caller can contend)

    def lw() -> int:
        return w.stats["lock_contention"] - l0

    try:
        fn()
    except StopIteration as e:
        ctx.end()
        if not isinstance(e.__cause__, TimeoutError):
            ctx.fail("unexpected-exception", op, f"{op}: iterator stopped because of {e.__cause__!r}")
        ctx.judge(op, budget, s, w.now, ctx.pos_waits - p0, "timeout", ctx.seen(tc), lock_waits=lw(), slack=ctx.last_over)
        return "timeout"
    except TimeoutError:
        ctx.end()
        ctx.judge(op, budget, s, w.now, ctx.pos_waits - p0, "timeout", ctx.seen(tc), lock_waits=lw(), slack=ctx.last_over)
        return "timeout"
    except ok_exc:
        ctx.end()
        ctx.judge(op, budget, s, w.now, ctx.pos_waits - p0, "error", tc, lock_waits=lw(), slack=ctx.last_over)
        return "error"
    except Exception as e:
        ctx.end()
        ctx.fail("unexpected-exception", op, f"{op} raised {type(e).__name__}: {e}")
    ctx.end()
    ctx.judge(op, budget, s, w.now, ctx.pos_waits - p0, "value", tc, lock_waits=lw(), slack=ctx.last_over)
    return "value"


def _sync_recv_ops(world: World, ctx: Ctx, obj: Any, tcs: list[float | None], d: float, has_iter: bool) -> None:
    """recv_packet / iter_received_packets sequences against the per-packet completion times tcs"""
    got = 0

    def tc_of(i: int) -> float | None:
        return tcs[i] if i < len(tcs) else None

    for _ in range(1 + world.choose("ops", 4)):
        vsleep(world, world.pick("pause", (0, 1, 5)) * d)
        use_iter = has_iter and bool(world.choose("op.iter", 2))
        if not use_iter:
            T = _choose_T(world, world.now, tc_of(got), d)
            if _sync_call(ctx, "recv_packet", T, tc_of(got), lambda: obj.recv_packet(timeout=T)) == "value":
                got += 1
            continue
        m = 1 + world.choose("iter.n", 3)
        target = got + world.choose("iter.target", m)
        T = _choose_T(world, world.now, tc_of(target), d, none_ok=all(tc_of(j) is not None for j in range(got, got + m)))
        it = obj.iter_received_packets(timeout=T)
        remaining = T
        for j in range(m):
            if j:
                vsleep(world, world.pick("iter.pause", (0, 1, 5)) * d)  # time outside the iterator is not charged
            s = world.now
            out = _sync_call(ctx, "iter.next", remaining, tc_of(got), lambda: next(it))
            if remaining is not None:
                remaining = max(0.0, remaining - (world.now - s))
            if out != "value":
                break
            got += 1


# ============================================================================================== harness: blocking receive
def _h_sync_recv(world: World, target: str) -> None:
    calm = world.choose("swarm", 3) == 0
    d, retry = _draw_common(world)
    path = world.pick("path", ["copy", "buffered"])
    ser = StringLineSerializer()
    proto: Any = StreamProtocol(ser) if path == "copy" else BufferedStreamProtocol(ser)
    n = 1 + world.choose("npkt", 3)
    values, frames = _gen_frames(world, n)
    writes, tcs = _arrivals(world, frames, d, calm)
    mrs = world.pick("mrs", (1024, 1, 3, 8))
    ctx = Ctx(world, f"sync-recv-{target}/{path}")
    net = SimNet(world)
    lib, ps = net.socketpair()
    peer = Peer(world, ps)
    for t, data in writes:
        peer.write_at(t, data)
    _swarm(world, ctx, d, lib, ("recv",), calm)
    world.notes.update(target=target, path=path, delta=d, retry_interval=retry, max_recv_size=mrs, completable_at=tcs, writes=[(t, len(b)) for t, b in writes][:40], early_den=ctx.early_den)
    with sync_engine(world, selector_cls=C11Selector) as make_selector:
        if target == "endpoint":
            obj: Any = StreamEndpoint(SocketStreamTransport(lib, retry, selector_factory=make_selector), proto, mrs)
        else:
            obj = TCPNetworkClient(lib, proto, max_recv_size=mrs, retry_interval=retry)
        try:
            _sync_recv_ops(world, ctx, obj, tcs, d, has_iter=target == "client")
        finally:
            obj.close()


# ============================================================================================== harness: blocking send
class CreditPeer(Peer):
    """reads at most `credit` bytes in total; credit is granted in steps at scripted times (order-insensitive, so
    the library can have written exactly capacity + credit(t) bytes by time t if it writes greedily)"""

    def __init__(self, world: World, sock: SimSocket):
        super().__init__(world, sock)
        self.credit: float = 0
        self.grants: list[tuple[float, float]] = []  # (time, cumulative credit)

    def _on_visible(self) -> None:
        self._drain()

    def _drain(self) -> None:
        left = self.credit - len(self.received)
        if left > 0:
            self.pull(None if left == math.inf else int(left))

    def grant_at(self, t: float, k: float) -> None:
        total = (self.grants[-1][1] if self.grants else 0) + k
        self.grants.append((t, total))

        def fire() -> None:
            self.credit = total
            self.world.log("credit", self.sock.label, total if total != math.inf else -1)
            self._drain()

        self.world.at(t, fire)

    def completable_at(self, s: float, need: float) -> float | None:
        """first t >= s with credit(t) >= need"""
        if need <= 0:
            return s
        for t, total in self.grants:
            if total >= need:
                return max(s, t)
        return None


def _h_sync_send(world: World, target: str) -> None:
    calm = world.choose("swarm", 3) == 0
    d, retry = _draw_common(world)
    cap = world.pick("cap", (16, 4, 8, 64))
    ctx = Ctx(world, f"sync-send-{target}")
    net = SimNet(world)
    lib, ps = net.socketpair(capacity_ab=cap)
    peer = CreditPeer(world, ps)
    t = 0.0
    if not calm:  # calm (fault-free baseline): the peer reads everything from the start, nothing ever has to wait
        world.fault("capacity_small")
        world.fault("peer_stops_reading")
        t = world.pick("grant.first", (0, 1, 5)) * d
        for _ in range(world.choose("grants", 6)):
            peer.grant_at(t, world.pick("grant.k", (cap, 1, cap // 2, 3 * cap)))
            t += world.pick("grant.gap", (1, 3, 10)) * d
    peer.grant_at(t, math.inf)  # finally the peer reads everything: operations without a timeout terminate
    if not calm:
        net.short_write_den = draw_rate(world, "sw.short", (0, 0, 4, 2))
        ctx.early_den = draw_rate(world, "sw.early", (0, 0, 6, 2))
        ctx.early_steps = (d / 4, d / 2, d, 3 * d)
        ea = draw_rate(world, "sw.eagain", (0, 0, 8, 3))
        ei = draw_rate(world, "sw.eintr", (0, 0, 8, 3))
        if ea or ei:
            lib.fault_plan = CallFaults(world, ea, ei, ops=("send",))
    proto = StreamProtocol(StringLineSerializer())
    world.notes.update(target=target, delta=d, retry_interval=retry, capacity=cap, grants=[(t, c if c != math.inf else "inf") for t, c in peer.grants], short_write_den=net.short_write_den, early_den=ctx.early_den)
    rng = world.sub_rng("payload")
    assert lib.tx_pipe is not None
    with sync_engine(world, selector_cls=C11Selector) as make_selector:
        if target == "endpoint":
            obj: Any = StreamEndpoint(SocketStreamTransport(lib, retry, selector_factory=make_selector), proto, 1024)
        else:
            obj = TCPNetworkClient(lib, proto, retry_interval=retry)
        try:
            for _ in range(1 + world.choose("ops", 4)):
                vsleep(world, world.pick("pause", (0, 1, 5)) * d)
                size = world.pick("size", (cap // 2, 1, cap, cap + 1, 2 * cap + 3, 5 * cap))
                packet = "".join(rng.choice("abcdefgh") for _ in range(max(1, size - 1)))
                nbytes = len(packet) + 1
                tc = peer.completable_at(world.now, lib.tx_pipe.total_written + nbytes - cap)
                T = _choose_T(world, world.now, tc, d)
                _sync_call(ctx, "send_packet", T, tc, lambda: obj.send_packet(packet, timeout=T))
        finally:
            obj.close()


# ============================================================================================== harness: blocking UDP
def _h_sync_udp(world: World) -> None:
    calm = world.choose("swarm", 3) == 0
    d, retry = _draw_common(world)
    ctx = Ctx(world, "sync-udp")
    net = SimNet(world)
    lib = SimSocket(net, _socket.AF_INET, _socket.SOCK_DGRAM, 0, "lib")
    remote = ("10.0.0.9", 9000)
    net.bind(lib, ("10.0.0.1", 0))
    lib.connect(remote)
    n = 1 + world.choose("npkt", 3)
    values, frames = _gen_frames(world, n)
    tcs: list[float | None] = []
    t = world.pick("arr.first", (0, 1, 5)) * d
    for i, v in enumerate(values):
        if not calm and i == n - 1 and world.chance("arr.starve", 1, 5):
            tcs.append(None)
            world.fault("dgram_loss")
            break
        tcs.append(t)
        world.at(t, lambda v=v: net.inject_dgram(lib, v.encode(), remote))
        gap = world.pick("arr.next", (0, 1, 4) if calm else (0, 1, 4, 20, 100))
        if gap >= 20:
            world.fault("delay")
        t += gap * d
    _swarm(world, ctx, d, lib, ("recvfrom", "sendto"), calm)
    proto = DatagramProtocol(StringLineSerializer())
    world.notes.update(target="udp", delta=d, retry_interval=retry, completable_at=tcs, early_den=ctx.early_den)
    with sync_engine(world, selector_cls=C11Selector):
        obj = UDPNetworkClient(lib, proto, retry_interval=retry)
        try:
            got = 0
            for _ in range(1 + world.choose("ops", 4)):
                vsleep(world, world.pick("pause", (0, 1, 5)) * d)
                kind = world.choose("op.kind", 3)
                tc = tcs[got] if got < len(tcs) else None
                if kind == 2:  # a datagram send never has to wait: completable at once
                    T = _choose_T(world, world.now, world.now, d)
                    _sync_call(ctx, "send_packet", T, world.now, lambda: obj.send_packet("ping", timeout=T))
                    continue
                if kind == 0:
                    T = _choose_T(world, world.now, tc, d)
                    if _sync_call(ctx, "recv_packet", T, tc, lambda: obj.recv_packet(timeout=T)) == "value":
                        got += 1
                    continue
                m = 1 + world.choose("iter.n", 3)
                target = got + world.choose("iter.target", m)
                tct = tcs[target] if target < len(tcs) else None
                T = _choose_T(world, world.now, tct, d, none_ok=all(j < len(tcs) and tcs[j] is not None for j in range(got, got + m)))
                it = obj.iter_received_packets(timeout=T)
                remaining = T
                for j in range(m):
                    if j:
                        vsleep(world, world.pick("iter.pause", (0, 1, 5)) * d)
                    s = world.now
                    out = _sync_call(ctx, "iter.next", remaining, tcs[got] if got < len(tcs) else None, lambda: next(it))
                    if remaining is not None:
                        remaining = max(0.0, remaining - (world.now - s))
                    if out != "value":
                        break
                    got += 1
        finally:
            obj.close()


# ============================================================================================== harness: late select() returns
def _h_sync_overshoot(world: World, target: str) -> None:
    """Many idle retry-interval wake-ups, each select() returning LATE (fault ``select_overshoot``).

    A select(w) that expires idle returns at w + ov instead of w: ov constant (1/16 .. 3 retry intervals), or the wait is
    rounded up to a timer granule g > retry_interval (poll(2): 1 ms granule with a sub-millisecond retry_interval), or a
    random subset of the wake-ups is late.  retry_interval in d/{1,2,8,32}, T = 3..60 retry intervals (+ a fraction), so a
    call needs up to 60 wake-ups.  The library reads the (virtual) clock around every select(), so every lateness but
    the last one is visible to it: total waiting <= T + lateness of the LAST select() of the call, never T + sum.
    The operation is made completable at s + T x {2, 1/2, 1 (tie), 3/4, never, 1 + a little}; no EAGAIN/EINTR here (a call
    that finds nothing to read after a late wake-up past its deadline may time out: nothing to judge there)."""
    calm = world.choose("swarm", 3) == 0
    d = world.pick("delta", (4, 1, 2, 8)) / 64.0
    retry = d / world.pick("retry.div", (2, 8, 32, 1))
    ctx = Ctx(world, f"sync-overshoot-{target}")
    mode = "none" if calm else world.pick("over.mode", ["const", "granule", "random", "none"])
    over_desc: Any = None
    if mode == "const":
        k = world.pick("over.k", (1 / 4, 1 / 16, 1, 3))
        over_desc = k
        ctx.over = lambda timeout: k * retry
    elif mode == "granule":
        g = retry * world.pick("over.g", (2, 1.5, 4, 8))
        over_desc = g
        ctx.over = lambda timeout: math.ceil(timeout / g) * g - timeout
    elif mode == "random":
        den = world.pick("over.den", (2, 3, 5))
        over_desc = den
        ctx.over = lambda timeout: world.pick("over.k", (1 / 4, 1, 3, 1 / 16)) * retry if world.chance("over", 1, den) else 0.0
    if not calm:
        ctx.early_den = draw_rate(world, "sw.early", (0, 0, 6))
        ctx.early_steps = (retry / 4, retry / 2, retry, 3 * retry)
    net = SimNet(world)
    ser = StringLineSerializer()
    cap = world.pick("cap", (16, 4, 64)) if target == "send" else 0
    peer: Any = None
    remote = ("10.0.0.9", 9000)
    if target == "udp":
        lib = SimSocket(net, _socket.AF_INET, _socket.SOCK_DGRAM, 0, "lib")
        net.bind(lib, ("10.0.0.1", 0))
        lib.connect(remote)
    elif target == "send":
        lib, ps = net.socketpair(capacity_ab=cap)
        peer = CreditPeer(world, ps)
        if not calm:
            world.fault("capacity_small")
            world.fault("peer_stops_reading")
    else:
        lib, ps = net.socketpair()
        peer = Peer(world, ps)
    world.notes.update(target="overshoot-" + target, delta=d, retry_interval=retry, over_mode=mode, over_param=over_desc, early_den=ctx.early_den, capacity=cap)
    with sync_engine(world, selector_cls=C11Selector) as make_selector:
        if target == "endpoint":
            obj: Any = StreamEndpoint(SocketStreamTransport(lib, retry, selector_factory=make_selector), StreamProtocol(ser), 1024)
        elif target == "udp":
            obj = UDPNetworkClient(lib, DatagramProtocol(ser), retry_interval=retry)
        else:
            obj = TCPNetworkClient(lib, StreamProtocol(ser), retry_interval=retry)
        try:
            armed: float | None = None  # completion moment of an operation the world has armed and nobody has consumed yet
            plan: list[tuple] = []
            for i in range(1 + world.choose("ops", 3)):
                vsleep(world, world.pick("pause", (0, 1, 5)) * d)
                s = world.now
                T = (world.pick("T.n", (10, 3, 25, 60)) + world.pick("T.frac", (0, 1 / 2, 1 / 4))) * retry
                packet = "p%d" % i
                if target == "send":
                    packet = "m" * (cap + world.pick("size", (1, cap, 3 * cap)))  # + newline: never fits, has to wait for credit
                if armed is None:
                    rel = world.pick("arr.rel", (2, 1 / 2, 1, 3 / 4, None, 1 + 1 / 64)) if not calm else world.pick("arr.rel", (1 / 2, 1 / 4))
                    if rel is not None:
                        armed = s + T * rel
                        if rel > 1:
                            world.fault("delay")
                        if target == "send":
                            peer.grant_at(armed, len(packet) + 1)
                        elif target == "udp":
                            world.at(armed, lambda packet=packet: net.inject_dgram(lib, packet.encode(), remote))
                        else:
                            peer.write_at(armed, packet.encode() + b"\n")
                    else:
                        world.fault("stall_peer")
                tc = armed
                plan.append((s, T, tc))
                world.notes.update(ops=plan)
                if target == "send":
                    out = _sync_call(ctx, "send_packet", T, tc, lambda: obj.send_packet(packet, timeout=T))
                    if out != "value":
                        break  # a timed-out send leaves half a packet behind: nothing more to model
                else:
                    out = _sync_call(ctx, "recv_packet", T, tc, lambda: obj.recv_packet(timeout=T))
                if out == "value":
                    armed = None
            if ctx.n_over >= 8:
                world.probe("overshoot>=8-in-a-run")
        finally:
            obj.close()


# ============================================================================================== harness: one iterator, one budget
def _iter_items(world: World, d: float, calm: bool) -> list[tuple[float | None, bool, str]]:
    """(arrival time | None = never, well-formed?, text) of 1-5 packets; each arrives whole.  calm: all well-formed, all arrive"""
    n = 1 + world.choose("nitem", 5)
    rng = world.sub_rng("payload")
    items: list[tuple[float | None, bool, str]] = []
    t = world.pick("arr.first", (1, 0, 5)) * d
    for i in range(n):
        good = calm or not world.chance("item.bad", 1, 2)
        text = "".join(rng.choice("abcdefgh") for _ in range(1 + rng.randrange(10)))
        if not calm and i == n - 1 and world.chance("arr.starve", 1, 4):
            items.append((None, good, text))
            break
        items.append((t, good, text))
        gap = world.pick("arr.next", (1, 0, 4) if calm else (1, 0, 4, 20))
        if gap >= 20:
            world.fault("delay")
        t += gap * d
    return items


def _h_iter_budget(world: World, kind: str) -> None:
    """iter_received_packets(timeout=T): ONE budget for every next() of the iterator object, whatever their outcome.

    1-5 packets arrive whole at drawn times; some are malformed (invalid UTF-8 for StringLineSerializer): next() raises
    StreamProtocolParseError / DatagramProtocolParseError, the caller skips it and calls next() again on the SAME iterator.
    After the iterator stopped (StopIteration caused by TimeoutError) the caller calls next() 0-2 more times (with pauses).
    Oracle (Ctx.judge per next() with what is left of T): the sum of the waits of all next() calls of one iterator <= T;
    once nothing is left a next() does not wait at all; time between the calls is not charged.  kind: sync-tcp
    (TCPNetworkClient, copy/buffered), sync-udp, aio-tcp, aio-udp."""
    from easynetwork.exceptions import DatagramProtocolParseError, StreamProtocolParseError

    is_aio = kind.startswith("aio")
    is_udp = kind.endswith("udp")
    calm = world.choose("swarm", 3) == 0
    d, retry = _draw_common(world)
    path = "dgram" if is_udp else world.pick("path", ["copy", "buffered"])
    ser = StringLineSerializer()
    items = _iter_items(world, d, calm)
    tcs = [t for t, _, _ in items]
    ctx = Ctx(world, f"iter-budget-{kind}/{path}")
    net = SimNet(world)
    remote = ("10.0.0.9", 9000)
    op = "iter.anext" if is_aio else "iter.next"
    parse_errors = (StreamProtocolParseError, DatagramProtocolParseError)

    def raw(good: bool, text: str) -> bytes:
        return text.encode() if good else b"\xff\xfe" + text.encode()

    def wire(lib: SimSocket, ps: SimSocket | None) -> None:
        peer = Peer(world, ps) if ps is not None else None
        for t, good, text in items:
            if t is None:
                world.fault("dgram_loss" if is_udp else "stall_peer")
                continue
            if not good:
                world.fault("dgram_corrupt" if is_udp else "bitflip")
            if peer is not None:
                peer.write_at(t, raw(good, text) + b"\n")
            else:
                world.at(t, lambda good=good, text=text: net.inject_dgram(lib, raw(good, text), remote))

    def tc_of(i: int) -> float | None:
        return tcs[i] if i < len(tcs) else None

    def make_lib() -> tuple[SimSocket, SimSocket | None]:
        if is_udp:
            lib = SimSocket(net, _socket.AF_INET, _socket.SOCK_DGRAM, 0, "lib")
            net.bind(lib, ("10.0.0.1", 0))
            lib.connect(remote)
            return lib, None
        return net.socketpair()

    world.notes.update(target="iter-budget-" + kind, path=path, delta=d, retry_interval=None if is_aio else retry, items=[(t, good) for t, good, _ in items])
    state = {"got": 0}
    iters: list[dict] = []

    def plan_iterator() -> tuple[float, int]:
        """(T, extra next() calls after the stop) for an iterator created now"""
        target = state["got"] + world.choose("iter.target", 3)
        T = _choose_T(world, world.now, tc_of(target), d, none_ok=False)
        assert T is not None
        extra = world.choose("iter.extra", 3)
        iters.append({"created": world.now, "T": T, "extra": extra, "calls": []})
        world.notes.update(iterators=iters)
        return T, extra

    def op_of(stopped: int) -> str:
        """own op name (= own violation key) for the two situations in which the iterator has to remember time spent in a
        next() that returned no packet"""
        calls = iters[-1]["calls"]
        return op + ("-after-stop" if stopped else "-after-parse-error" if calls and calls[-1] == "error" else "")

    def account(out: str, stopped: int) -> None:
        iters[-1]["calls"].append(out)
        if len(iters[-1]["calls"]) > len(items) + iters[-1]["extra"] + 2:  # every call but extra + 1 of them consumes a packet
            from vsim.world import StepCap

            world.fail(StepCap(f"{ctx.site}: {len(iters[-1]['calls'])} next() calls for {len(items)} packets: {iters[-1]['calls']}"))
        if out == "error":
            world.probe("iter-parse-error-skipped")
        if out != "timeout":
            state["got"] += 1
            if stopped:
                world.probe("iter-packet-after-stop")
        elif stopped:
            world.probe("iter-next-after-stop")

    if not is_aio:
        lib, ps = make_lib()
        wire(lib, ps)
        _swarm(world, ctx, d, lib, ("recvfrom",) if is_udp else ("recv",), calm)
        world.notes.update(early_den=ctx.early_den)
        with sync_engine(world, selector_cls=C11Selector):
            if is_udp:
                obj: Any = UDPNetworkClient(lib, DatagramProtocol(ser), retry_interval=retry)
            else:
                proto: Any = StreamProtocol(ser) if path == "copy" else BufferedStreamProtocol(ser)
                obj = TCPNetworkClient(lib, proto, max_recv_size=world.pick("mrs", (1024, 1, 3, 8)), retry_interval=retry)
            try:
                for _ in range(1 + world.choose("iters", 2)):
                    vsleep(world, world.pick("pause", (0, 1, 5)) * d)
                    T, extra = plan_iterator()
                    it = obj.iter_received_packets(timeout=T)
                    remaining = T
                    stopped = 0
                    first = True
                    while True:
                        if not first:
                            vsleep(world, world.pick("iter.pause", (0, 1, 5)) * d)  # time outside the iterator is not charged
                        first = False
                        s = world.now
                        out = _sync_call(ctx, op_of(stopped), remaining, tc_of(state["got"]), lambda: next(it), ok_exc=parse_errors)
                        remaining = max(0.0, remaining - (world.now - s))
                        account(out, stopped)
                        if out == "timeout":
                            if stopped >= extra:
                                break
                            stopped += 1
            finally:
                obj.close()
        return

    world.FREE_ZERO_WAITS = 1 << 30  # type: ignore[misc]  # no creep: exact clock (as in aio-iter-*)
    backend = SimAsyncIOBackend(net)

    async def main() -> None:
        lib, ps = make_lib()
        wire(lib, ps)
        if is_udp:
            obj: Any = AsyncUDPNetworkClient(lib, DatagramProtocol(ser), backend=backend)
        else:
            proto: Any = StreamProtocol(ser) if path == "copy" else BufferedStreamProtocol(ser)
            obj = AsyncTCPNetworkClient(lib, proto, backend=backend, max_recv_size=world.pick("mrs", (1024, 3, 8)))
        await obj.wait_connected()
        try:
            for _ in range(1 + world.choose("iters", 2)):
                await asyncio.sleep(world.pick("pause", (0, 1, 5)) * d)
                T, extra = plan_iterator()
                it = obj.iter_received_packets(timeout=T)
                remaining = T
                stopped = 0
                first = True
                while True:
                    if not first:
                        await asyncio.sleep(world.pick("iter.pause", (0, 1, 5)) * d)
                    first = False
                    opn = op_of(stopped)
                    world.log("call", ctx.site, opn, remaining)
                    s, _p = ctx.begin(opn, None)
                    tc = tc_of(state["got"])
                    try:
                        await it.__anext__()
                    except StopAsyncIteration as e:
                        if not isinstance(e.__cause__, TimeoutError):
                            ctx.fail("unexpected-exception", opn, f"iterator stopped because of {e.__cause__!r}")
                        out = "timeout"
                    except parse_errors:
                        out = "error"
                    except Exception as e:
                        ctx.fail("unexpected-exception", opn, f"raised {type(e).__name__}: {e}")
                    else:
                        out = "value"
                    ctx.judge(opn, remaining, s, world.now, 0, out, tc, sync=False)
                    remaining = max(0.0, remaining - (world.now - s))
                    account(out, stopped)
                    if out == "timeout":
                        if stopped >= extra:
                            break
                        stopped += 1
        finally:
            await obj.aclose()

    with sim_sockets(net), patched_clock(world):
        run_async(world, main)


# ============================================================================================== harness: async iterators
def _h_aio_iter(world: World, kind: str) -> None:
    calm = world.choose("swarm", 3) == 0
    d = world.pick("delta", (4, 1, 2, 8)) / 64.0
    path = world.pick("path", ["copy", "buffered"]) if kind == "tcp" else "dgram"
    exact = True  # ties and zero budgets on every path (D5, which lost bytes on the fill path there, is fixed: /repo e60fd44)
    ctx = Ctx(world, f"aio-iter-{kind}/{path}")
    net = SimNet(world)
    backend = SimAsyncIOBackend(net)
    n = 1 + world.choose("npkt", 4)
    values, frames = _gen_frames(world, n)
    ser = StringLineSerializer()
    if kind == "tcp":
        writes, tcs = _arrivals(world, frames, d, calm)
    else:
        writes, tcs = [], []
    world.FREE_ZERO_WAITS = 1 << 30  # type: ignore[misc]  # no creep: exact clock (nothing here busy-loops legitimately)
    world.notes.update(target="aio-" + kind, path=path, delta=d)
    offgrid_n = [0]

    def offgrid() -> float:
        if exact:
            return 0.0
        offgrid_n[0] += 1
        return 2.0 ** -(12 + offgrid_n[0])

    async def main() -> None:
        if kind == "tcp":
            lib, ps = net.socketpair()
            peer = Peer(world, ps)
            for t, data in writes:
                peer.write_at(t, data)
            proto: Any = StreamProtocol(ser) if path == "copy" else BufferedStreamProtocol(ser)
            obj: Any = AsyncTCPNetworkClient(lib, proto, backend=backend, max_recv_size=world.pick("mrs", (1024, 3, 8)))
        else:
            lib = SimSocket(net, _socket.AF_INET, _socket.SOCK_DGRAM, 0, "lib")
            remote = ("10.0.0.9", 9000)
            net.bind(lib, ("10.0.0.1", 0))
            lib.connect(remote)
            t = world.pick("arr.first", (0, 1, 5)) * d
            for i, v in enumerate(values):
                if not calm and i == n - 1 and world.chance("arr.starve", 1, 5):
                    tcs.append(None)
                    world.fault("dgram_loss")
                    break
                tcs.append(t)
                world.at(t, lambda v=v: net.inject_dgram(lib, v.encode(), remote))
                gap = world.pick("arr.next", (0, 1, 4) if calm else (0, 1, 4, 20, 100))
                if gap >= 20:
                    world.fault("delay")
                t += gap * d
            obj = AsyncUDPNetworkClient(lib, DatagramProtocol(ser), backend=backend)
        await obj.wait_connected()
        world.notes.update(completable_at=list(tcs))
        got = 0

        def tc_of(i: int) -> float | None:
            return tcs[i] if i < len(tcs) else None

        try:
            for _ in range(1 + world.choose("ops", 4)):
                await asyncio.sleep(world.pick("pause", (0, 1, 5)) * d)
                m = 1 + world.choose("iter.n", 3)
                target = got + world.choose("iter.target", m)
                T = _choose_T(world, world.now, tc_of(target), d, none_ok=all(tc_of(j) is not None for j in range(got, got + m)), zero_ok=exact, tie_ok=exact, offgrid=offgrid())
                it = obj.iter_received_packets(timeout=T)
                remaining = T
                for j in range(m):
                    if j:
                        await asyncio.sleep(world.pick("iter.pause", (0, 1, 5)) * d)
                    world.log("call", ctx.site, "iter.anext", remaining)
                    s, _ = ctx.begin("iter.anext", None)
                    tc = tc_of(got)
                    try:
                        await it.__anext__()
                    except StopAsyncIteration as e:
                        if not isinstance(e.__cause__, TimeoutError):
                            ctx.fail("unexpected-exception", "iter.anext", f"iterator stopped because of {e.__cause__!r}")
                        ctx.judge("iter.anext", remaining, s, world.now, 0, "timeout", tc, sync=False)
                        break
                    except Exception as e:
                        ctx.fail("unexpected-exception", "iter.anext", f"raised {type(e).__name__}: {e}")
                    ctx.judge("iter.anext", remaining, s, world.now, 0, "value", tc, sync=False)
                    got += 1
                    if remaining is not None:
                        remaining = max(0.0, remaining - (world.now - s))
                    if not exact and remaining is not None and remaining <= 0:
                        break  # cannot happen off-grid; never poll with an expired deadline on the fill path
        finally:
            await obj.aclose()

    with sim_sockets(net), patched_clock(world):
        run_async(world, main)


# ============================================================================================== harness: blocking TLS
def _h_sync_tls(world: World) -> None:
    """SSLStreamTransport over a real socketpair whose far end is the reference TLS peer (vsim.tls.RealTLSPeer).

    Handshake: the peer's own cyclic (sizes, delays) script drips its flights; only the budget clause is judged for the
    constructor (handshake_timeout) because the completion moment of a handshake is not decidable from outside.
    Data phase: the peer encrypts one record per message up front and this harness feeds the cipher-text to the library's
    socket on an explicit schedule (same arrival kinds as the plain harness), so a record is completable exactly when its
    last cipher-text byte has been written to the socketpair (OpenSSL returns a record only when it is whole; one recv
    returns at most one record, bufsize >= every payload)."""
    from easynetwork.lowlevel.api_sync.transports.socket import SSLStreamTransport

    from vsim.tls import RealTLSPeer, make_context

    calm = world.choose("swarm", 3) == 0
    d, retry = _draw_common(world)
    version = world.pick("version", ["1.3", "1.2"])
    lib_server = bool(world.choose("lib_server", 2))
    if calm:
        sizes, delays = [1 << 30], [0]
    else:
        sizes = [world.pick("hs.size", [1 << 30, 1, 7, 100, 600]) for _ in range(1 + world.choose("hs.nsizes", 3))]
        delays = [world.choose("hs.delay", 3) for _ in range(1 + world.choose("hs.ndelays", 3))]
        sizes = [max(x, 40) if any(delays) else x for x in sizes]  # bound the virtual length of a delayed handshake
        if sizes != [1 << 30]:
            world.fault("frag")
        if any(delays):
            world.fault("delay")
    hs_timeout = world.pick("hs.timeout", (60.0, 60.0, 8 * d, 40 * d))
    ctx = Ctx(world, f"sync-tls/{version}")
    if not calm:
        ctx.early_den = draw_rate(world, "sw.early", (0, 0, 6, 2))
        ctx.early_steps = (d / 4, d / 2, d, 3 * d)
    n = 1 + world.choose("npkt", 3)
    rng = world.sub_rng("payload")
    payloads = [bytes(rng.randrange(256) for _ in range(1 + rng.randrange(120))) for _ in range(n)]
    peer = RealTLSPeer(world, server_side=not lib_server, version=version, sizes=sizes, delays=delays)
    world.notes.update(target="tls", version=version, lib_server=lib_server, delta=d, retry_interval=retry, hs_script=(sizes, delays), hs_timeout=hs_timeout, early_den=ctx.early_den)
    tr = None
    try:
        with sync_engine(world, selector_cls=C11Selector) as make_selector:
            world.log("call", ctx.site, "handshake", hs_timeout)
            s, p0 = ctx.begin("handshake", hs_timeout)
            try:
                tr = SSLStreamTransport(
                    peer.lib_sock,
                    make_context(lib_server, version),
                    retry,
                    handshake_timeout=hs_timeout,
                    server_side=lib_server,
                    server_hostname=None if lib_server else "sim.host",
                    standard_compatible=False,
                    selector_factory=make_selector,
                )
            except TimeoutError:
                ctx.end()
                ctx.judge("handshake", hs_timeout, s, world.now, ctx.pos_waits - p0, "timeout", None)
                return
            ctx.end()
            ctx.judge("handshake", hs_timeout, s, world.now, ctx.pos_waits - p0, "value", None)
            # ---- take over the delivery of the peer's cipher-text
            peer.pump()
            if peer.out_pending:
                peer.far.send(bytes(peer.out_pending))
                peer.out_pending.clear()
            peer._schedule = lambda: None  # type: ignore[method-assign]
            records = []
            for pl in payloads:
                peer.engine.write(pl)
                records.append(peer.engine.take_output())
            if any(not r for r in records):
                from vsim.world import HarnessError

                raise HarnessError("reference TLS engine produced no record for a write after the handshake")
            writes, tcs = _arrivals(world, records, d, calm)
            h = world.now

            def far_send(data: bytes) -> None:
                k = peer.far.send(data)
                if k != len(data):
                    from vsim.world import HarnessError

                    raise HarnessError("socketpair buffer full")
                world.log("vis", "real", k)

            for t, data in writes:
                world.at(h + t, lambda data=data: far_send(data))
            tcs = [None if t is None else h + t for t in tcs]
            world.notes.update(completable_at=list(tcs), record_lengths=[len(r) for r in records])
            got = 0
            for _ in range(1 + world.choose("ops", 4)):
                vsleep(world, world.pick("pause", (0, 1, 5)) * d)
                if world.choose("op.send", 4) == 3:
                    data = b"x" * world.pick("send.size", (1, 100, 5000))
                    T = _choose_T(world, world.now, world.now, d)  # the socketpair buffer is never full here: completable at once
                    _sync_call(ctx, "send_all", T, world.now, lambda: tr.send_all(data, math.inf if T is None else T))
                    continue
                tc = tcs[got] if got < len(tcs) else None
                T = _choose_T(world, world.now, tc, d)
                box: list[bytes] = []
                out = _sync_call(ctx, "recv", T, tc, lambda: box.append(tr.recv(4096, math.inf if T is None else T)))
                if out == "value":
                    if got >= len(payloads) or box[0] != payloads[got]:
                        ctx.fail("unexpected-exception", "recv", f"recv returned {box[0][:20]!r}… ({len(box[0])} bytes), expected record #{got} ({len(payloads[got]) if got < len(payloads) else None} bytes): the world model of this harness does not hold")
                    got += 1
    finally:
        try:
            if tr is not None and not tr.is_closed():
                tr.close()
        finally:
            peer.dispose()


# ============================================================================================== harness: lock contention
def _h_thr(world: World, kind: str) -> None:
    """A second simulated thread (the holder) sits inside a blocking call of the SAME client and therefore holds its
    receive (or send) lock until virtual time L; the judged caller (thread 0) starts an operation on that lock at time s.

    World model: the holder consumes the first packet / datagram (complete at L) or sends the first packet (completable
    at L); the caller's operation needs the lock (free from L on) AND its own data (next packet complete at D >= L, resp.
    credit for holder bytes + its own bytes), so it is completable at tc = max(L, D) = D."""
    import threading
    import time

    from vsim.threads import Scheduler

    calm = world.choose("swarm", 3) == 0
    d, retry = _draw_common(world)
    ctx = Ctx(world, f"thr-{kind}")
    net = SimNet(world)
    sched = Scheduler(world, switch_den=world.pick("switch_den", (3, 2, 6)))
    world.sched = sched  # type: ignore[attr-defined]
    # calm (baseline): the holder is served at once and is gone before the caller starts -> no contention
    L = 0.0 if calm else world.pick("hold", (4, 1, 10, 30)) * d
    s0 = world.pick("start", (1, 2, 5, 12, 40)) * d  # caller's first operation starts here (> 0: the holder owns the lock by then)
    n = 1 + world.choose("npkt", 3)
    values, frames = _gen_frames(world, n + 1)
    ser = StringLineSerializer()
    peer: Any = None
    tcs: list[float | None] = []
    holder_bytes = 0
    cap = 0
    if kind == "tcp-recv":
        lib, ps = net.socketpair()
        peer = Peer(world, ps)
        f0 = frames[0]
        if L > 0 and len(f0) > 1 and world.choose("hold.split", 2):
            peer.write_at(L / 2, f0[:1])  # the holder wakes up once in between, still holding the lock
            peer.write_at(L, f0[1:])
        else:
            peer.write_at(L, f0)
        writes, tcs = _arrivals(world, frames[1:], d, calm)
        for t, data in writes:  # stream order: the caller's packets follow the holder's
            peer.write_at(L + t, data)
        tcs = [None if t is None else L + t for t in tcs]
    elif kind == "udp-recv":
        lib = SimSocket(net, _socket.AF_INET, _socket.SOCK_DGRAM, 0, "lib")
        remote = ("10.0.0.9", 9000)
        net.bind(lib, ("10.0.0.1", 0))
        lib.connect(remote)
        world.at(L, lambda: net.inject_dgram(lib, values[0].encode(), remote))
        t = L + world.pick("arr.first", (0, 1, 5)) * d
        for i, v in enumerate(values[1:]):
            if not calm and i == n - 1 and world.chance("arr.starve", 1, 5):
                tcs.append(None)
                world.fault("dgram_loss")
                break
            tcs.append(t)
            world.at(t, lambda v=v: net.inject_dgram(lib, v.encode(), remote))
            t += world.pick("arr.next", (0, 1, 4) if calm else (0, 1, 4, 20)) * d
    else:  # tcp-send
        cap = world.pick("cap", (16, 4, 8, 64))
        lib, ps = net.socketpair(capacity_ab=cap)
        peer = CreditPeer(world, ps)
        holder_bytes = cap + 1 + world.choose("hold.extra", 2 * cap)  # does not fit: the holder has to wait for credit
        if calm:
            peer.grant_at(0.0, math.inf)
        else:
            world.fault("capacity_small")
            world.fault("peer_stops_reading")
            peer.grant_at(L, holder_bytes - cap)  # exactly what the holder needs, at L
            t = L
            for _ in range(world.choose("grants", 5)):
                t += world.pick("grant.gap", (0, 1, 3, 10)) * d
                peer.grant_at(t, world.pick("grant.k", (cap, 1, cap // 2, 3 * cap)))
            peer.grant_at(t + world.pick("grant.gap", (1, 3, 10)) * d, math.inf)
    if not calm:
        ctx.early_den = draw_rate(world, "sw.early", (0, 0, 6, 2))
        ctx.early_steps = (d / 4, d / 2, d, 3 * d)
    world.notes.update(target=kind, delta=d, retry_interval=retry, lock_released_at=L, caller_starts_at=s0, completable_at=list(tcs), early_den=ctx.early_den, switch_den=sched.switch_den)
    holder_out: list[Any] = []

    with sync_engine(world, selector_cls=C11Selector), sched:
        if kind == "tcp-recv":
            obj: Any = TCPNetworkClient(lib, StreamProtocol(ser), retry_interval=retry)
        elif kind == "tcp-send":
            obj = TCPNetworkClient(lib, StreamProtocol(ser), retry_interval=retry)
        else:
            obj = UDPNetworkClient(lib, DatagramProtocol(ser), retry_interval=retry)

        def hold() -> None:
            try:
                if kind == "tcp-send":
                    obj.send_packet("h" * (holder_bytes - 1), timeout=None)
                    holder_out.append(("sent", world.now))
                else:
                    holder_out.append(("got", obj.recv_packet(timeout=None), world.now))
            except Exception as e:
                holder_out.append(("exc", type(e).__name__, str(e)))

        th = threading.Thread(target=hold, name="holder")
        try:
            th.start()
            time.sleep(s0)  # virtual; everybody else runs until blocked: the holder is inside its call (or done)
            got = 0

            def tc_of(i: int) -> float | None:
                return tcs[i] if i < len(tcs) else None

            for opi in range(1 + world.choose("ops", 3)):
                if opi:
                    time.sleep(world.pick("pause", (0, 1, 5)) * d)
                if kind == "tcp-send":
                    size = world.pick("size", (cap // 2, 1, cap, cap + 1, 2 * cap + 3))
                    packet = "m" * max(1, size - 1)
                    assert lib.tx_pipe is not None
                    # everything the holder has not written yet goes first (it owns the lock), then this packet
                    before = max(lib.tx_pipe.total_written, holder_bytes)
                    tc = peer.completable_at(world.now, before + len(packet) + 1 - cap)
                    T = _choose_T(world, world.now, tc, d)
                    _sync_call(ctx, "send_packet", T, tc, lambda: obj.send_packet(packet, timeout=T))
                    continue
                use_iter = bool(world.choose("op.iter", 2))
                if not use_iter:
                    T = _choose_T(world, world.now, tc_of(got), d)
                    if _sync_call(ctx, "recv_packet", T, tc_of(got), lambda: obj.recv_packet(timeout=T)) == "value":
                        got += 1
                    continue
                m = 1 + world.choose("iter.n", 3)
                target = got + world.choose("iter.target", m)
                T = _choose_T(world, world.now, tc_of(target), d, none_ok=all(tc_of(j) is not None for j in range(got, got + m)))
                it = obj.iter_received_packets(timeout=T)
                remaining = T
                for j in range(m):
                    if j:
                        time.sleep(world.pick("iter.pause", (0, 1, 5)) * d)
                    s = world.now
                    out = _sync_call(ctx, "iter.next", remaining, tc_of(got), lambda: next(it))
                    if remaining is not None:
                        remaining = max(0.0, remaining - (world.now - s))
                    if out != "value":
                        break
                    got += 1
            th.join()
        finally:
            if world.fatal is None and th.is_alive():
                th.join()
            obj.close()
    if not holder_out or holder_out[0][0] == "exc":
        ctx.fail("unexpected-exception", "holder", f"the lock-holder thread did not complete normally: {holder_out}")
    if abs(holder_out[0][-1] - L) > EPS and not calm:
        from vsim.world import HarnessError

        raise HarnessError(f"world model wrong: the holder finished at {holder_out[0][-1]}, expected {L}")


def _h_thr_cross(world: World, kind: str) -> None:
    """Cross-lock case: the holder thread keeps the OTHER lock of the same client until L — it is stuck in a back-pressured
    send_packet(None) (send lock) while the caller receives, or inside recv_packet(None) (receive lock) while the caller
    sends.  The caller's operation does not need that lock: it is completable as soon as its own bytes are visible /
    its own bytes fit, regardless of L; a zero budget must not wait for any lock."""
    import threading
    import time

    from vsim.threads import Scheduler

    calm = world.choose("swarm", 3) == 0
    d, retry = _draw_common(world)
    ctx = Ctx(world, f"thr-x-{kind}")
    net = SimNet(world)
    sched = Scheduler(world, switch_den=world.pick("switch_den", (3, 2, 6)))
    world.sched = sched  # type: ignore[attr-defined]
    L = 0.0 if calm else world.pick("hold", (30, 10, 60, 200)) * d  # long: most caller operations start while it is held
    s0 = world.pick("start", (1, 2, 5, 12)) * d
    n = 1 + world.choose("npkt", 3)
    values, frames = _gen_frames(world, n + 1)
    ser = StringLineSerializer()
    tcs: list[float | None] = []
    cap = world.pick("cap", (16, 4, 8, 64))
    holder_bytes = cap + 1 + world.choose("hold.extra", 2 * cap)
    peer: Any = None
    if kind == "udp-recvlock-send":
        lib: Any = SimSocket(net, _socket.AF_INET, _socket.SOCK_DGRAM, 0, "lib")
        remote = ("10.0.0.9", 9000)
        net.bind(lib, ("10.0.0.1", 0))
        lib.connect(remote)
        world.at(L, lambda: net.inject_dgram(lib, values[0].encode(), remote))
    else:
        lib, ps = net.socketpair(capacity_ab=cap)
        peer = CreditPeer(world, ps)
        if kind == "tcp-sendlock-recv":
            # holder: needs holder_bytes - cap of credit, granted at L; caller: packets arrive on their own schedule
            if calm:
                peer.grant_at(0.0, math.inf)
            else:
                world.fault("capacity_small")
                world.fault("peer_stops_reading")
                peer.grant_at(L, math.inf)
            writes, tcs = _arrivals(world, frames[1:], d, calm)
            for t, data in writes:
                peer.write_at(t, data)
        else:  # tcp-recvlock-send: holder's packet arrives at L; caller's sends are back-pressured by the credit peer
            peer.write_at(L, frames[0])
            t = 0.0
            if not calm:
                world.fault("capacity_small")
                world.fault("peer_stops_reading")
                t = world.pick("grant.first", (0, 1, 5)) * d
                for _ in range(world.choose("grants", 6)):
                    peer.grant_at(t, world.pick("grant.k", (cap, 1, cap // 2, 3 * cap)))
                    t += world.pick("grant.gap", (1, 3, 10)) * d
            peer.grant_at(t, math.inf)
    if not calm:
        ctx.early_den = draw_rate(world, "sw.early", (0, 0, 6, 2))
        ctx.early_steps = (d / 4, d / 2, d, 3 * d)
    world.notes.update(target="x-" + kind, delta=d, retry_interval=retry, other_lock_released_at=L, caller_starts_at=s0, completable_at=list(tcs), capacity=cap, early_den=ctx.early_den, switch_den=sched.switch_den)
    holder_out: list[Any] = []

    with sync_engine(world, selector_cls=C11Selector), sched:
        if kind == "udp-recvlock-send":
            obj: Any = UDPNetworkClient(lib, DatagramProtocol(ser), retry_interval=retry)
        else:
            obj = TCPNetworkClient(lib, StreamProtocol(ser), retry_interval=retry)

        def hold() -> None:
            try:
                if kind == "tcp-sendlock-recv":
                    obj.send_packet("h" * (holder_bytes - 1), timeout=None)
                    holder_out.append(("sent", world.now))
                else:
                    holder_out.append(("got", obj.recv_packet(timeout=None), world.now))
            except Exception as e:
                holder_out.append(("exc", type(e).__name__, str(e)))

        th = threading.Thread(target=hold, name="holder")
        try:
            th.start()
            time.sleep(s0)
            got = 0

            def tc_of(i: int) -> float | None:
                return tcs[i] if i < len(tcs) else None

            for opi in range(1 + world.choose("ops", 3)):
                if opi:
                    time.sleep(world.pick("pause", (0, 1, 5)) * d)
                if kind == "udp-recvlock-send":
                    T = _choose_T(world, world.now, world.now, d)
                    _sync_call(ctx, "send_packet", T, world.now, lambda: obj.send_packet("ping", timeout=T))
                    continue
                if kind == "tcp-recvlock-send":
                    size = world.pick("size", (cap // 2, 1, cap, cap + 1, 2 * cap + 3))
                    packet = "m" * max(1, size - 1)
                    tc = peer.completable_at(world.now, lib.tx_pipe.total_written + len(packet) + 1 - cap)
                    T = _choose_T(world, world.now, tc, d)
                    _sync_call(ctx, "send_packet", T, tc, lambda: obj.send_packet(packet, timeout=T))
                    continue
                if not world.choose("op.iter", 2):
                    T = _choose_T(world, world.now, tc_of(got), d)
                    if _sync_call(ctx, "recv_packet", T, tc_of(got), lambda: obj.recv_packet(timeout=T)) == "value":
                        got += 1
                    continue
                m = 1 + world.choose("iter.n", 3)
                target = got + world.choose("iter.target", m)
                T = _choose_T(world, world.now, tc_of(target), d, none_ok=all(tc_of(j) is not None for j in range(got, got + m)))
                it = obj.iter_received_packets(timeout=T)
                remaining = T
                for j in range(m):
                    if j:
                        time.sleep(world.pick("iter.pause", (0, 1, 5)) * d)
                    s = world.now
                    out = _sync_call(ctx, "iter.next", remaining, tc_of(got), lambda: next(it))
                    if remaining is not None:
                        remaining = max(0.0, remaining - (world.now - s))
                    if out != "value":
                        break
                    got += 1
            th.join()
        finally:
            if world.fatal is None and th.is_alive():
                th.join()
            obj.close()
    if not holder_out or holder_out[0][0] == "exc":
        ctx.fail("unexpected-exception", "holder", f"the lock-holder thread did not complete normally: {holder_out}")
    if abs(holder_out[0][-1] - L) > EPS and not calm:
        from vsim.world import HarnessError

        raise HarnessError(f"world model wrong: the holder finished at {holder_out[0][-1]}, expected {L}")


HARNESSES = [
    Harness("sync-recv-endpoint", lambda w: _h_sync_recv(w, "endpoint"), weight=2),
    Harness("sync-recv-client", lambda w: _h_sync_recv(w, "client"), weight=3),
    Harness("sync-send-endpoint", lambda w: _h_sync_send(w, "endpoint"), weight=1),
    Harness("sync-send-client", lambda w: _h_sync_send(w, "client"), weight=2),
    Harness("sync-udp", _h_sync_udp, weight=2),
    Harness("aio-iter-tcp", lambda w: _h_aio_iter(w, "tcp"), weight=2),
    Harness("aio-iter-udp", lambda w: _h_aio_iter(w, "udp"), weight=1),
    Harness("sync-tls", _h_sync_tls, weight=2),
    Harness("thr-tcp-recv", lambda w: _h_thr(w, "tcp-recv"), weight=2),
    Harness("thr-tcp-send", lambda w: _h_thr(w, "tcp-send"), weight=1),
    Harness("thr-udp-recv", lambda w: _h_thr(w, "udp-recv"), weight=1),
    Harness("thr-x-tcp-sendlock-recv", lambda w: _h_thr_cross(w, "tcp-sendlock-recv"), weight=2),
    Harness("thr-x-tcp-recvlock-send", lambda w: _h_thr_cross(w, "tcp-recvlock-send"), weight=1),
    Harness("thr-x-udp-recvlock-send", lambda w: _h_thr_cross(w, "udp-recvlock-send"), weight=1),
    Harness("sync-overshoot-endpoint", lambda w: _h_sync_overshoot(w, "endpoint"), weight=1),
    Harness("sync-overshoot-client", lambda w: _h_sync_overshoot(w, "client"), weight=1),
    Harness("sync-overshoot-udp", lambda w: _h_sync_overshoot(w, "udp"), weight=1),
    Harness("sync-overshoot-send", lambda w: _h_sync_overshoot(w, "send"), weight=1),
    Harness("iter-budget-sync-tcp", lambda w: _h_iter_budget(w, "sync-tcp"), weight=1),
    Harness("iter-budget-sync-udp", lambda w: _h_iter_budget(w, "sync-udp"), weight=1),
    Harness("iter-budget-aio-tcp", lambda w: _h_iter_budget(w, "aio-tcp"), weight=1),
    Harness("iter-budget-aio-udp", lambda w: _h_iter_budget(w, "aio-udp"), weight=1),
]
