"""C04 — send_packet writes exactly the packet's bytes and always terminates (DESIGN §4 C04).

Harnesses
  sync-sendmsg  SocketStreamTransport over SimSocket, sendmsg path (constants.SC_IOV_MAX in {real, 2, 3}),
                through StreamEndpoint.send_packet or TCPNetworkClient.send_packet, timeouts {None, large, small, 0}
  sync-send     same with constants.SC_IOV_MAX = 0 (base class path: join + send_all)
  aio-adapter   AsyncioTransportStreamSocketAdapter over SimSocket on SimEventLoop (backend.wrap_stream_socket),
                through AsyncStreamEndpoint.send_packet or AsyncTCPNetworkClient.send_packet
  aio-tls       AsyncTLSStreamTransport.wrap(backend.wrap_stream_socket(SimSocket)) against the reference vsim.tls.TLSPeer
                (TLS 1.2/1.3, both roles), through AsyncStreamEndpoint.send_packet or send_all_from_iterable; socket faults
                (short writes, EAGAIN/EINTR, reset from call n on, small capacity, slow/paused peer) start after the handshake;
                oracle on the plaintext the peer decrypted, loop goes idle, aclose() (close_notify exchange) completes
  sync-tls      SSLStreamTransport over a real in-process socketpair whose far end is vsim.tls.RealTLSPeer; fault space =
                small SO_SNDBUF, peer that reads late / periodically / never (finite timeout) / stops reading and goes away;
                timeouts {None, large, small}; oracle on the peer's plaintext, elapsed <= timeout (watchdog inside select()),
                a TLS EOF error (is_ssl_eof_error: what the TCP clients turn into ConnectionAbortedError) counts as the
                connection error of this transport

History (aio-adapter, aio-tls; a quarter of their runs): one send_packet whose packet is larger than the (small) link is issued
while the peer does not read at all, under the caller's time budget (backend.timeout(1/64 | 0.25 | 2 s)): it is suspended by
backpressure and abandoned (TimeoutError within the budget); the peer then reads everything (the later sends are issued
after the queue drained, or at once); every later send_packet on the healthy connection must return (or fail with a
connection error if the link breaks): a send still pending after 4000 virtual seconds blocks forever
(C04/<family>/blocks-forever[/after-abandoned-send]; the bound now guards every async send).  Bytes after an abandoned
send: earlier packets exactly once + SOME prefix of the abandoned packet (documented: impossible to know how much was sent)
+ exactly the later packets (C04/<family>/bytes-equal/after-abandoned-send).

History "failed serialization" (all harnesses except sync-tls, chunk-list packets; a fifth of the runs, a third in aio-tls, never
together with the abandoned-send history): the serializer of one packet raises a private exception after having produced k of
its n chunks (k in 0..n; ChunkListSerializer meets the _CRASH sentinel); the call fails with that exception (wrapped in
RuntimeError by the endpoints' StreamDataProducer, as it is through the bare transport); the peer then reads everything and
the link drains; later packets are sent.  Timing-aware oracle (_CrashLedger; a byte oracle on the final stream cannot tell
'sent at failure time' from 'sent later'): at the drained point after the failed call the peer holds the earlier packets + at
most a prefix of the k chunks produced (C04/<family>/bytes-prefix/failed-serialization); every later send_packet that
returns adds exactly its own bytes to the peer's stream, measured at the next drained point, and nothing follows at the end
but a prefix of a send that failed with TimeoutError/ConnectionError (C04/<family>/bytes-equal/after-failed-serialization;
D27: the async TLS transport kept the chunks of the failed packet in its backlog and sent them in front of the next packet).

Oracle (exactly the property statement): on normal return the peer's byte stream == concatenation of the chunks
of all packets sent so far; on TimeoutError / ConnectionError it is a prefix of that; nothing else may escape;
virtual elapsed <= timeout; termination: no run of socket calls that neither transfer a byte nor are told to block
(send tap below + SimNet livelock detector), at most one zero-length socket call per chunk, no more bytes handed to the
socket than the packet holds, after an async send the loop goes idle and aclose() completes.

Findings made by this check (all fixed in /repo, listed as `fixed` in known_findings.json, so nothing is avoided:
empty chunks and zero-chunk packets are generated everywhere; `world.avoid_known` is not consulted):
  C04/sync-sendmsg/spin/empty-chunk                     D2  sendmsg window of empty views never consumed
  C04/aio-adapter/spin/empty-chunk (+ aclose-hangs/...) D3  empty view left in asyncio's write queue
  C04/aio-adapter/send-raises/AssertionError/zero-chunks D11 packet with no chunk -> asyncio writelines() asserts
  C04/aio-adapter/bytes-equal/returned-before-flush     D12 writelines() path returned before the data was flushed
  C04/aio-tls/bytes-equal/after-failed-serialization    D27 async TLS send_all_from_iterable() kept the chunks produced before the
                                                        serializer raised and sent them in front of the next packet
  C04/aio-adapter/send-raises/AttributeError/after-connection-lost  D25 send_packet (writelines path) issued after the connection was
                                                        lost in the background raised AttributeError (found by the history above)
`window_trigger()` is the exact input class of D2/D3; it only selects the key of a spin violation.
"""
from __future__ import annotations

import asyncio
import asyncio.selector_events as _aio_sel
import errno
import hashlib
import math
import ssl
from typing import Any, Callable

from easynetwork.clients.async_tcp import AsyncTCPNetworkClient
from easynetwork.clients.tcp import TCPNetworkClient
from easynetwork.lowlevel import _utils as _en_utils, constants as _en_constants
from easynetwork.lowlevel.api_async.endpoints.stream import AsyncStreamEndpoint
from easynetwork.lowlevel.api_async.transports.utils import aclose_forcefully
from easynetwork.lowlevel.api_sync.endpoints.stream import StreamEndpoint
from easynetwork.lowlevel.api_async.transports.tls import AsyncTLSStreamTransport
from easynetwork.lowlevel.api_sync.transports.socket import SocketStreamTransport, SSLStreamTransport
from easynetwork.protocol import StreamProtocol
from easynetwork.serializers.abc import AbstractIncrementalPacketSerializer, AbstractPacketSerializer
from easynetwork.serializers.wrapper.compressor import BZ2CompressorSerializer

from vsim.backend import SimAsyncIOBackend, sim_sockets
from vsim.harness import CallFaults, Peer, draw_rate, swarm_selector, sync_engine
from vsim.loop import loop_goes_idle, run_async, wait_until
from vsim.runner import Harness
from vsim.sock import Delivery, SimNet, SimSocket
from vsim.tls import RealTLSPeer, TLSPeer, make_context
from vsim.world import Deadlock, HarnessError, StepCap, Violation, World

PROPERTY = "C04"
LEVEL = "exploration"
RULE = (
    "1-3 packets per connection; a packet is a generated chunk list (0-12 chunks, sizes 0..70000, empty chunks first/middle/last/"
    "consecutive) yielded by a list-backed incremental serializer, or a payload through the real BZ2CompressorSerializer "
    "(leading empty chunk); transports: SocketStreamTransport with sendmsg (SC_IOV_MAX real/2/3) and without (SC_IOV_MAX=0), "
    "AsyncioTransportStreamSocketAdapter, AsyncTLSStreamTransport (reference TLS peer, TLS 1.2/1.3, both roles, <= 70000 bytes per packet), "
    "SSLStreamTransport (real socketpair + reference TLS peer; faults = small SO_SNDBUF and peer reading late/periodically/never/dying); "
    "via low-level endpoints and TCP clients; blocking timeouts None/large/small/0; per "
    "socket call: full, short write, injected EAGAIN/EINTR, ECONNRESET/EPIPE from call n on, small link capacity with a peer that "
    "reads at once / slowly / never (never only with a finite timeout), spurious writability; async transports (adapter, TLS), a quarter "
    "of the runs: history = a send_packet larger than the link is suspended (peer not reading) and abandoned by backend.timeout(1/64|0.25|2 s), "
    "the peer then reads everything, later sends (after the drain / at once, also after a background ECONNRESET/EPIPE) must terminate; "
    "history 'failed serialization' (chunk-list packets, all transports but sync-tls; 1/5 of the runs, 1/3 in aio-tls): the serializer of "
    "one packet raises after k of its n chunks (k in 0..n), the link drains, later packets are sent: the peer's stream at each drained point "
    "must grow by exactly the bytes of the send that returned (nothing of the failed packet later on); "
    "oracle: byte-exact equality on return, prefix on TimeoutError/ConnectionError (after an abandoned async send: earlier packets + a prefix "
    "of the abandoned one + exactly the later ones), elapsed <= timeout, every async send ends within 4000 virtual seconds (blocks-forever), "
    "livelock/spin detectors, aclose() completes"
)
COMPONENTS_REAL = [
    "easynetwork.lowlevel.api_sync.transports.socket.SocketStreamTransport (+ base_selector._retry, abc.send_all*)",
    "easynetwork.lowlevel._utils.adjust_leftover_buffer / ElapsedTime / lock_with_timeout",
    "easynetwork.lowlevel.api_sync.endpoints.stream.StreamEndpoint, easynetwork.clients.tcp.TCPNetworkClient",
    "easynetwork.lowlevel.api_async.backend._asyncio.stream.socket (adapter, StreamReaderBufferedProtocol), _flow_control",
    "easynetwork.lowlevel.api_async.endpoints.stream.AsyncStreamEndpoint, easynetwork.clients.async_tcp.AsyncTCPNetworkClient",
    "easynetwork.serializers.wrapper.compressor.BZ2CompressorSerializer, easynetwork.protocol.StreamProtocol, _stream.StreamDataProducer",
    "CPython asyncio _SelectorSocketTransport.writelines/_write_sendmsg/_adjust_leftover_buffer, BaseEventLoop._run_once",
    "easynetwork.lowlevel.api_async.transports.tls.AsyncTLSStreamTransport, api_sync.transports.socket.SSLStreamTransport, OpenSSL on both ends",
]
COMPONENTS_STUB = ["socket object (SimSocket; sync-tls: real AF_UNIX socketpair pumped by the simulator)", "selector (SimSelector)", "clock (world.now)", "peer (scripted reader; TLS: independent stdlib ssl engine)"]
ASSUMPTIONS = [
    "a stream send never reports 0 bytes for non-empty data and a zero-length send returns 0 without blocking (Linux behaviour)",
    "bytes written before an injected ECONNRESET/EPIPE are still delivered to the peer (the error is local to later calls)",
    "TLS: cipher-text content is not reproducible (OpenSSL RNG), traces use lengths only; single-threaded use of a kernel socketpair is deterministic",
]
BUDGET = {"quick": 40, "thorough": 480}


# --------------------------------------------------------------------------------------------------- payload bytes
def _make_pattern(n: int) -> bytes:
    out = bytearray()
    i = 0
    while len(out) < n:
        out += hashlib.sha256(b"c04-pattern-%d" % i).digest()
        i += 1
    return bytes(out[:n])


_PATTERN = _make_pattern(13 * 70000 + 64)  # position-identifying filler: duplicated / dropped / reordered bytes show up


# --------------------------------------------------------------------------------------------------- serializers
class _SerializerCrash(Exception):
    """private exception raised by ChunkListSerializer when it meets the _CRASH sentinel"""


_CRASH = object()  # element of a chunk-list packet: the serializer raises _SerializerCrash when it gets there


class ChunkListSerializer(AbstractIncrementalPacketSerializer[list, Any]):
    """packet = list of chunks; incremental_serialize yields them as they are (and fails at the _CRASH sentinel)"""

    __slots__ = ()

    def incremental_serialize(self, packet):
        for chunk in packet:
            if chunk is _CRASH:
                raise _SerializerCrash("serializer failed after having produced some chunks")
            yield chunk

    def incremental_deserialize(self):  # pragma: no cover - receive side unused
        raise NotImplementedError
        yield


class RawSerializer(AbstractPacketSerializer[bytes, bytes]):
    __slots__ = ()

    def serialize(self, packet: bytes) -> bytes:
        return packet

    def deserialize(self, data: bytes) -> bytes:
        return data


# --------------------------------------------------------------------------------------------------- known classes
def window_trigger(sizes: list[int], iov: int) -> int | None:
    """Index i such that the sendmsg loop reaches a state whose first `iov` buffers are all empty (D2 / D3).

    The leftover deque always starts at index 0 or right after a completely sent non-empty chunk (leading empty
    views are only dropped together with following bytes); the call is stuck iff such a window holds no byte."""
    n = len(sizes)
    starts = [0] + [j + 1 for j, s in enumerate(sizes) if s > 0]
    for i in starts:
        if i < n and not any(sizes[i : i + iov]):
            return i
    return None


# --------------------------------------------------------------------------------------------------- generators
_SIZE_CLASSES = ("small", "empty", "small", "empty", "medium", "large")


def _gen_sizes(world: World) -> list[int]:
    n = (1 + world.choose("nchunks", 13)) % 13  # 1,2,...,12,0
    sizes = []
    for _ in range(n):
        cls = world.pick("chunk.class", _SIZE_CLASSES)
        if cls == "empty":
            sizes.append(0)
        elif cls == "small":
            sizes.append(1 + world.choose("chunk.small", 16))
        elif cls == "medium":
            sizes.append(17 + world.choose("chunk.medium", 2000))
        else:
            sizes.append(world.pick("chunk.large", (4096, 16384, 65535, 65536, 65537, 70000, 30000)))
    return sizes


def _materialise(sizes: list[int], offset: int) -> list[bytes]:
    out = []
    pos = offset % 64
    for s in sizes:
        out.append(_PATTERN[pos : pos + s])
        pos += s
    return out


class _Workload:
    """what to send on one connection: protocol, packets, expected chunk lists"""

    def __init__(self, world: World, max_packets: int = 3, max_total: int | None = None):
        self.kind = world.pick("packet.kind", ("chunks", "chunks", "chunks", "bz2"))
        npackets = 1 + world.choose("npackets", max_packets)
        self.packets: list[Any] = []
        self.expected: list[list[bytes]] = []
        self.sizes: list[list[int]] = []
        if self.kind == "chunks":
            self.protocol = StreamProtocol(ChunkListSerializer())
            for p in range(npackets):
                sizes = _gen_sizes(world)
                if max_total is not None:  # keep expensive (TLS) runs modest: clip once the packet reaches max_total bytes
                    room = max_total
                    for j, n in enumerate(sizes):
                        sizes[j] = min(n, room)
                        room -= sizes[j]
                chunks = _materialise(sizes, 7 * p)
                self.packets.append(chunks)
                self.expected.append(list(chunks))
                self.sizes.append(sizes)
        else:
            level = world.pick("bz2.level", (9, 1, 6))
            ser = BZ2CompressorSerializer(RawSerializer(), compress_level=level)
            ref = BZ2CompressorSerializer(RawSerializer(), compress_level=level)
            self.protocol = StreamProtocol(ser)
            for p in range(npackets):
                n = world.pick("bz2.len", (10, 0, 1, 300, 5000, 40000))
                compressible = bool(world.choose("bz2.compressible", 2))
                payload = (b"abcd" * (n // 4 + 1))[:n] if compressible else _PATTERN[p : p + n]
                chunks = list(ref.incremental_serialize(payload))
                self.packets.append(payload)
                self.expected.append(chunks)
                self.sizes.append([len(c) for c in chunks])
        if any(not s for ss in self.sizes for s in ss):
            world.probe("empty_chunk")
        if any(not ss for ss in self.sizes):
            world.probe("zero_chunks")
        for ss in self.sizes:
            if ss and ss[0] == 0:
                world.probe("empty_first")
            if ss and ss[-1] == 0:
                world.probe("empty_last")
            if any(a == 0 and b == 0 for a, b in zip(ss, ss[1:])):
                world.probe("empty_consecutive")

    def total(self) -> int:
        return sum(sum(ss) for ss in self.sizes)

    crash: tuple[int, int] | None = None  # (packet index, number of chunks produced before the serializer raises)

    def draw_crash(self, world: World, den: int = 5) -> bool:
        """history: the serializer of ONE packet raises after having produced k of its n chunks (k in 0..n); at least one
        later packet follows.  From then on `expected`/`sizes` of that packet are the k chunks actually produced."""
        if self.kind != "chunks" or not world.chance("history.crash", 1, den):
            return False
        c = world.choose("crash.at", len(self.packets))
        n = len(self.sizes[c])
        k = (n - world.choose("crash.k", n + 1)) if n else 0  # 0 -> after all n chunks, ..., n -> before the first one
        if c == len(self.packets) - 1:
            self.repeat_first()  # copies the intact packet 0 (c == 0 included: done before the sentinel is inserted)
        chunks = self.expected[c]
        self.packets[c] = [*chunks[:k], _CRASH, *chunks[k:]]
        self.expected[c] = list(chunks[:k])
        self.sizes[c] = list(self.sizes[c][:k])
        self.crash = (c, k)
        world.probe("serializer_crash_packet")
        if any(self.sizes[c]):
            world.probe("serializer_crash_after_bytes_produced")
        return True

    def repeat_first(self) -> None:
        """one more packet (same content as the first one): the send issued after an abandoned one"""
        self.packets.append(self.packets[0])
        self.expected.append(list(self.expected[0]))
        self.sizes.append(list(self.sizes[0]))


class _SendTap:
    """fault-plan wrapper on the library's socket: counts send/sendmsg calls and is the termination oracle.

    A send call is *idle* when, since the previous call, no byte was accepted by the socket and the socket was not
    genuinely full (room == 0, i.e. the caller was legitimately told to wait).  Injected EAGAIN/EINTR do not
    count as progress (CallFaults injects at most 3 in a row), so more than `limit` consecutive idle calls means
    the caller re-issues the same fruitless call forever."""

    def __init__(self, world: World, inner: Callable[[SimSocket, str], Any] | None, limit: int = 64):
        self.world = world
        self.inner = inner
        self.sends = 0
        self.idle = 0
        self.limit = limit
        self.last_written = 0
        self.spin_key: Callable[[], str] = lambda: "C04/spin"
        self.describe: Callable[[], str] = lambda: ""
        self.family = ""
        # per send_packet call (set by begin()): bytes the call may hand to the socket, virtual deadline
        self.byte_budget: int | None = None
        self.start_written = 0
        self.deadline: float | None = None
        self.timeout: float | None = None

    def begin(self, sock: SimSocket, nbytes: int | None, timeout: float | None) -> None:
        p = sock.tx_pipe
        self.start_written = p.total_written if p is not None else 0
        self.byte_budget = nbytes
        self.timeout = timeout
        self.deadline = None if timeout is None else self.world.now + timeout

    def end(self) -> None:
        self.byte_budget = None
        self.deadline = None

    def __call__(self, sock: SimSocket, op: str):
        if op == "send":
            self.sends += 1
            p = sock.tx_pipe
            written = p.total_written if p is not None else 0
            if written != self.last_written or (p is not None and p.room() <= 0 and not p.reader_closed):
                self.idle = 0
            else:
                self.idle += 1
            self.last_written = written
            if self.byte_budget is not None and written - self.start_written > self.byte_budget:
                budget, self.byte_budget = self.byte_budget, None
                self.world.fail(
                    Violation(
                        "bytes-overrun",
                        f"send_packet of a {budget}-byte packet has already handed {written - self.start_written} bytes to the socket and keeps sending; {self.describe()}",
                        key=f"C04/{self.family}/bytes-overrun",
                    )
                )
            if self.deadline is not None and self.world.now > self.deadline + 1e-9:
                deadline, self.deadline = self.deadline, None
                self.world.fail(
                    Violation(
                        "time-budget",
                        f"send_packet(timeout={self.timeout}) is still issuing socket calls {self.world.now - deadline} virtual seconds after its deadline; {self.describe()}",
                        key=f"C04/{self.family}/time-budget/still-running",
                    )
                )
            if self.idle > self.limit:
                self.idle = 0
                self.world.fail(
                    Violation(
                        "spin",
                        f"{self.limit} consecutive send calls on {sock.label} that neither moved a byte nor found the socket full: the send never terminates; {self.describe()}",
                        key=self.spin_key(),
                    )
                )
        return self.inner(sock, op) if self.inner is not None else None


class _SlowReader:
    """peer that reads k bytes every d seconds (bounded number of ticks, then reads everything)"""

    def __init__(self, world: World, peer: Peer, k: int, d: float, start: float = 0.0, max_ticks: int = 600):
        self.world, self.peer, self.k, self.d = world, peer, k, d
        self.stop = False
        self.ticks = 0
        self.max_ticks = max_ticks
        peer.reading = False
        world.after(start, self._tick)

    def _tick(self) -> None:
        if self.stop:
            return
        self.ticks += 1
        if self.ticks > self.max_ticks:
            self.peer.resume_reading()
            return
        self.peer.pull(self.k)
        self.world.after(self.d, self._tick)


class _Link:
    """one simulated connection with its swarm-drawn fault configuration"""

    def __init__(self, world: World, total_bytes: int, *, allow_never: bool, force_small: bool = False):
        self.world = world
        net = self.net = SimNet(world)
        net.livelock_limit = 300
        # a third of the runs are fault-free (baseline): big link, no delay, no injected errors, peer reads at once
        # (force_small: the caller already decided that this run is a faulty one and needs real backpressure)
        self.baseline = baseline = (not force_small) and world.choose("swarm.faults", 3) == 0
        if baseline:
            self.capacity = 1 << 21
            self.lib, psock = net.socketpair(capacity_ab=self.capacity)
            self.peer = Peer(world, psock)
            self.slow = None
            self.peer_mode = "reads"
            self.fail_from = None
            self.tap = _SendTap(world, None)
            self.lib.fault_plan = self.tap
            self.sel_opts = {}
            return
        cap_kind = world.pick("link.capacity", ("small", "medium") if force_small else ("big", "small", "medium"))
        if cap_kind == "big":
            capacity = 1 << 21
        elif cap_kind == "small":
            capacity = 1 + world.choose("link.cap.small", 64)
        else:
            capacity = 1000 + world.choose("link.cap.medium", 40) * 500
        if cap_kind != "big":
            capacity = max(capacity, total_bytes // 300 + 1)  # bound the number of partial writes per run
            world.fault("capacity_small")
        self.capacity = capacity
        # fragmentation of what the peer sees is irrelevant here (the peer only counts bytes); what matters is how long
        # bytes stay in flight (they occupy link capacity), so only the delivery delay is drawn
        dsel = world.choose("link.delay", 3)
        if dsel:
            world.fault("delay")
        delivery = Delivery(0, 1, {0: (0,), 1: (1,), 2: tuple(range(0, 9))}[dsel])
        self.lib, psock = net.socketpair(delivery_ab=delivery, capacity_ab=capacity)
        self.peer = Peer(world, psock)
        self.slow: _SlowReader | None = None
        modes = ["reads", "slow"] + (["never"] if allow_never else [])
        self.peer_mode = "reads" if cap_kind == "big" else world.pick("peer.mode", modes)
        if self.peer_mode == "slow":
            steps = 1 + world.choose("peer.steps", 48)
            k = max(1, total_bytes // steps)
            d = (1 + world.choose("peer.period", 8)) / 64.0
            start = world.choose("peer.start", 4) / 64.0
            self.slow = _SlowReader(world, self.peer, k, d, start)
            world.fault("peer_stops_reading")
        elif self.peer_mode == "never":
            self.peer.pause_reading()
        net.short_write_den = draw_rate(world, "sw.short", (0, 8, 2))
        plan = CallFaults(world, eagain_den=draw_rate(world, "sw.eagain", (0, 16, 4)), eintr_den=draw_rate(world, "sw.eintr", (0, 16, 4)))
        self.fail_from: tuple[int, int] | None = None
        if world.chance("sw.fail_from", 1, 5):
            n = world.choose("fail.n", 24)
            code = world.pick("fail.errno", (errno.ECONNRESET, errno.EPIPE))
            plan.fail_from["send"] = (n, code)
            self.fail_from = (n, code)
        self.tap = _SendTap(world, plan)
        self.lib.fault_plan = self.tap
        self.sel_opts = {"spurious_den": draw_rate(world, "sw.spurious", (0, 0, 0, 6))}

    def check_installed(self) -> None:
        if self.lib.fault_plan is not self.tap:
            raise HarnessError("C04: the send tap / fault plan is not installed on the library's socket")

    def zero_sends_since(self, trace_pos: int) -> int:
        label = self.lib.label
        return sum(1 for t in self.world.trace[trace_pos:] if t[0] == "send" and t[1] == label and t[2] == 0)

    def settle(self) -> None:
        """the harness is done sending: let the peer read everything that was handed to the socket"""
        if self.slow is not None:
            self.slow.stop = True
        self.peer.reading = True
        self.peer.pull()
        w = self.world
        guard = 0
        while w.has_events():
            w.advance(None)
            guard += 1
            if guard > 200_000:
                raise StepCap("settle(): world events do not run out")
        self.peer.pull()


# --------------------------------------------------------------------------------------------------- oracle helpers
def _describe(wl: _Workload, extra: dict) -> str:
    return f"kind={wl.kind} chunk sizes per packet={wl.sizes} {extra}"


def _check_bytes(family: str, wl: _Workload, done: int, failed: bool, link: _Link, extra: dict, suffix: str = "") -> None:
    got = bytes(link.peer.received)
    complete = b"".join(b"".join(c) for c in wl.expected[:done])
    if not failed:
        if got != complete:
            where = _first_diff(got, complete)
            raise Violation(
                "bytes-equal",
                f"after {done} successful send_packet the peer holds {len(got)} bytes, expected {len(complete)} (first difference at offset {where}); {_describe(wl, extra)}",
                key=f"C04/{family}/bytes-equal{suffix}",
            )
    else:
        full = complete + b"".join(wl.expected[done])
        if not full.startswith(got):
            where = _first_diff(got, full)
            raise Violation(
                "bytes-prefix",
                f"send_packet #{done} failed, the peer holds {len(got)} bytes which are not a prefix of the {len(full)} expected bytes (first difference at offset {where}); {_describe(wl, extra)}",
                key=f"C04/{family}/bytes-prefix",
            )


def _check_bytes_history(family: str, wl: _Workload, abandoned: int, later_ok: int, failed: bool, got: bytes, extra: dict) -> None:
    """byte oracle of a connection on which send #abandoned was given up (TimeoutError from the caller's time budget) and
    `later_ok` sends then returned normally (+ one that failed with a connection error if `failed`): everything before the
    abandoned packet is there exactly once, then SOME prefix of the abandoned packet (the documentation says it is
    impossible to know how much of it was sent), then exactly the later packets (a prefix of the failed one)."""
    before = b"".join(b"".join(c) for c in wl.expected[:abandoned])
    P = b"".join(wl.expected[abandoned])
    later = b"".join(b"".join(c) for c in wl.expected[abandoned + 1 : abandoned + 1 + later_ok])
    nxt = b"".join(wl.expected[abandoned + 1 + later_ok]) if failed and abandoned + 1 + later_ok < len(wl.expected) else b""

    def tail_ok(tail: bytes) -> bool:
        return (later + nxt).startswith(tail) and len(tail) >= len(later) if failed else tail == later

    ok = got.startswith(before)
    if ok:
        rest = got[len(before) :]
        k0 = _first_diff(rest, P)  # longest common prefix of what follows and the abandoned packet
        ok = tail_ok(rest[k0:]) or any(tail_ok(rest[k:]) for k in range(k0 - 1, -1, -1))
    if not ok:
        raise Violation(
            "bytes-equal",
            f"send #{abandoned} was abandoned (TimeoutError), {later_ok} later send_packet returned normally{' and one failed with a connection error' if failed else ''}: the peer holds {len(got)} bytes which are not "
            f"<{len(before)} bytes of the earlier packets> + <a prefix of the {len(P)}-byte abandoned packet> + <the {len(later)} bytes of the later packets>; {_describe(wl, extra)}",
            key=f"C04/{family}/bytes-equal/after-abandoned-send",
        )


def _is_crash(exc: BaseException) -> bool:
    """the private serializer exception, as it is or wrapped (StreamDataProducer: RuntimeError(...) from exc)"""
    seen = 0
    e: BaseException | None = exc
    while e is not None and seen < 8:
        if isinstance(e, _SerializerCrash):
            return True
        e = e.__cause__ or e.__context__
        seen += 1
    return False


class _CrashLedger:
    """Timing-aware byte oracle for the history "a send_packet whose serializer raised after k chunks, then later sends".

    A byte oracle on the final stream cannot tell 'sent while the failed call was running' from 'sent later, in front of
    another packet': so the peer's stream is recorded each time the link has drained.  After the failed call: the earlier
    packets, then at most a prefix of the chunks the failed packet produced.  Every later send_packet that returns must
    add exactly its own chunks -- nothing of the failed packet may show up after its call has returned."""

    def __init__(self, family: str, wl: _Workload, describe: Callable[[], str]):
        self.family, self.wl, self.describe = family, wl, describe
        self.base: bytes | None = None  # the peer's stream at the last drained point (None: the crash has not happened yet)

    @property
    def active(self) -> bool:
        return self.base is not None

    def after_crash(self, got: bytes) -> None:
        assert self.wl.crash is not None
        c, k = self.wl.crash
        before = b"".join(b"".join(ch) for ch in self.wl.expected[:c])
        produced = b"".join(self.wl.expected[c])
        if not (got.startswith(before) and produced.startswith(got[len(before) :])):
            raise Violation(
                "bytes-prefix",
                f"send_packet #{c} failed (serializer raised after {k} chunks); once the link had drained the peer holds {len(got)} bytes which are not the {len(before)} bytes of the "
                f"earlier packets + a prefix of the {len(produced)} bytes produced (first difference at offset {_first_diff(got, before + produced)}); {self.describe()}",
                key=f"C04/{self.family}/bytes-prefix/failed-serialization",
            )
        self.base = got

    def after_ok(self, i: int, got: bytes) -> None:
        assert self.base is not None and self.wl.crash is not None
        own = b"".join(self.wl.expected[i])
        if got != self.base + own:
            c, k = self.wl.crash
            added = got[len(self.base) :] if got.startswith(self.base) else None
            stale = b"".join(self.wl.expected[c])
            hint = ""
            if added is not None and stale and added == stale + own:
                hint = f" -- it added the {len(stale)} bytes the FAILED packet #{c} had produced, in front of its own bytes"
            raise Violation(
                "bytes-equal",
                f"send_packet #{i} returned after send_packet #{c} had failed (serializer raised after {k} chunks): it must add exactly its own {len(own)} bytes to the peer's stream, "
                f"the peer got {'%d bytes' % len(added) if added is not None else 'a stream that does not even extend the previous one'}{hint} (stream {len(self.base)} -> {len(got)} bytes); {self.describe()}",
                key=f"C04/{self.family}/bytes-equal/after-failed-serialization",
            )
        self.base = got

    def final(self, got: bytes, failed_index: int | None) -> None:
        """end of the run: nothing but a prefix of a send that failed with TimeoutError / a connection error may follow"""
        assert self.base is not None and self.wl.crash is not None
        tail_max = b"".join(self.wl.expected[failed_index]) if failed_index is not None and failed_index < len(self.wl.expected) else b""
        if not (got.startswith(self.base) and tail_max.startswith(got[len(self.base) :])):
            raise Violation(
                "bytes-equal" if failed_index is None else "bytes-prefix",
                f"after send_packet #{self.wl.crash[0]} failed in its serializer and the later sends ended, the peer's stream grew from {len(self.base)} to {len(got)} bytes "
                f"(allowed: {'nothing' if failed_index is None else 'a prefix of the %d bytes of send #%d which failed' % (len(tail_max), failed_index)}); {self.describe()}",
                key=f"C04/{self.family}/bytes-equal/after-failed-serialization",
            )


def _first_diff(a: bytes, b: bytes) -> int:
    n = min(len(a), len(b))
    for i in range(0, n, 4096):
        if a[i : i + 4096] != b[i : i + 4096]:
            for j in range(i, min(i + 4096, n)):
                if a[j] != b[j]:
                    return j
    return n


def _spin_key(family: str, wl: _Workload, idx: int, iov: int) -> str:
    """a stuck send is attributed to the known empty-chunk class iff one of the packets handed over so far has an
    all-empty sendmsg window (the asyncio transport keeps the empty view of an *earlier* packet in its buffer)"""
    idx = min(idx, len(wl.sizes) - 1)
    if iov > 0 and any(window_trigger(sizes, iov) is not None for sizes in wl.sizes[: idx + 1]):
        return f"C04/{family}/spin/empty-chunk"
    return f"C04/{family}/spin/other"


def _rekey_fatal(world: World, key: str) -> None:
    f = world.fatal
    if isinstance(f, Violation) and f.key is None:
        f.key = key
        f.message = f"{f.message} [{key}] {getattr(world, 'notes', {})}"


_PASS_THROUGH = (Violation, HarnessError, Deadlock)


# --------------------------------------------------------------------------------------------------- sync harnesses
_TIMEOUTS = (None, 1000.0, 0.25, 0.0, 1.0 / 64, 2.0)
_TIMEOUTS_FINITE = (0.25, 0.0, 1.0 / 64, 2.0)


def _h_sync(world: World, family: str) -> None:
    if family == "sync-sendmsg":
        iov_choice = world.pick("iov", ("real", 2, 3))
        iov = _en_constants.SC_IOV_MAX if iov_choice == "real" else iov_choice
        if iov <= 0:
            raise HarnessError("constants.SC_IOV_MAX is not positive on this platform: the sendmsg path is unreachable")
    else:
        iov_choice = iov = 0
    wl = _Workload(world)
    wl.draw_crash(world)
    via = world.pick("via", ("endpoint", "client"))
    retry_interval = world.pick("retry_interval", (math.inf, 1.0, 1.0 / 16))
    link = _Link(world, wl.total(), allow_never=True)
    # a peer that never reads is only combined with finite (and short: bounded number of retry rounds) timeouts
    timeouts = [world.pick("timeout", _TIMEOUTS_FINITE if link.peer_mode == "never" else _TIMEOUTS) for _ in wl.packets]
    extra = {"iov": iov_choice, "via": via, "timeouts": timeouts, "retry_interval": retry_interval, "capacity": link.capacity, "peer": link.peer_mode, "fail_from": link.fail_from, "serializer_crash(packet,after_k_chunks)": wl.crash}
    ledger = _CrashLedger(family, wl, lambda: _describe(wl, extra))
    world.notes.update(family=family, kind=wl.kind, sizes=wl.sizes, **{k: str(v) for k, v in extra.items()})
    saved_iov = _en_constants.SC_IOV_MAX
    _en_constants.SC_IOV_MAX = iov  # type: ignore[misc]
    current = 0
    cur = [0]
    sender: Any = None
    link.check_installed()
    link.tap.family = family
    link.tap.spin_key = lambda: _spin_key(family, wl, cur[0], iov)
    link.tap.describe = lambda: _describe(wl, extra)
    try:
        with sync_engine(world, **link.sel_opts) as make_selector:
            if via == "endpoint":
                transport = SocketStreamTransport(link.lib, retry_interval, selector_factory=make_selector)
                sender = StreamEndpoint(transport, wl.protocol, max_recv_size=4096)
            else:
                sender = TCPNetworkClient(link.lib, wl.protocol, retry_interval=retry_interval)
            done = 0
            failed = False
            failed_index: int | None = None
            for current, (packet, timeout) in enumerate(zip(wl.packets, timeouts)):
                cur[0] = current
                t0 = world.now
                pos = len(world.trace)
                link.tap.begin(link.lib, sum(wl.sizes[current]), timeout)
                try:
                    sender.send_packet(packet, timeout=timeout)
                    outcome = "ok"
                except TimeoutError:
                    outcome = "timeout"
                except ConnectionError:
                    outcome = "connection-error"
                except _PASS_THROUGH:
                    raise
                except BaseException as exc:
                    if wl.crash is not None and current == wl.crash[0] and _is_crash(exc):
                        outcome = "crash"  # the serializer's own failure, as it is or wrapped by the endpoint
                    else:
                        raise Violation(
                            "send-raises",
                            f"send_packet raised {type(exc).__name__}: {exc} (only TimeoutError / ConnectionError are allowed); {_describe(wl, extra)}",
                            key=f"C04/{family}/send-raises/{type(exc).__name__}",
                        ) from None
                finally:
                    link.tap.end()
                elapsed = world.now - t0
                world.log("send_packet", family, current, outcome, elapsed)
                if timeout is not None and elapsed > timeout + 1e-9:
                    raise Violation(
                        "time-budget",
                        f"send_packet(timeout={timeout}) took {elapsed} virtual seconds (outcome {outcome}); {_describe(wl, extra)}",
                        key=f"C04/{family}/time-budget/{outcome}",
                    )
                zero = link.zero_sends_since(pos)
                if zero > len(wl.sizes[current]) + 1:
                    raise Violation(
                        "op-budget",
                        f"send_packet #{current} issued {zero} zero-length socket sends for {len(wl.sizes[current])} chunks; {_describe(wl, extra)}",
                        key=f"C04/{family}/op-budget",
                    )
                if outcome == "crash":
                    # history: the link drains (the peer reads everything from now on); what the peer holds NOW is all the
                    # failed packet may ever contribute
                    world.fault("handler_raises")
                    link.settle()
                    ledger.after_crash(bytes(link.peer.received))
                elif outcome == "ok":
                    if ledger.active:
                        link.settle()
                        ledger.after_ok(current, bytes(link.peer.received))
                        world.probe("send_completed_after_failed_serialization")
                    else:
                        done += 1
                    world.progress(1)
                else:
                    world.probe("outcome." + outcome)
                    failed = True
                    failed_index = current
                    break
            link.settle()
            if ledger.active:
                ledger.final(bytes(link.peer.received), failed_index)
            else:
                _check_bytes(family, wl, done, failed, link, extra)
    finally:
        _en_constants.SC_IOV_MAX = saved_iov  # type: ignore[misc]
        # always close explicitly: a destructor running at an arbitrary later point would write into the trace
        try:
            if sender is not None:
                sender.close()
            elif not link.lib.sim_closed:
                link.lib.close()
        except OSError:
            pass
        _rekey_fatal(world, _spin_key(family, wl, current, iov))


# --------------------------------------------------------------------------------------------------- async harness
_HANG_BOUND = 4000.0  # virtual seconds; every peer script of the async harnesses reads everything long before that


async def _bounded_send(world: World, backend: Any, send: Callable[[Any], Any], arg: Any, budget: float | None, family: str, after_abandon: bool, describe: Callable[[], str]) -> str:
    """one send; "ok" | "timeout" (only when the caller gave it a time budget: backend.timeout(budget)); connection errors
    and anything else propagate.  A send that is still pending after _HANG_BOUND virtual seconds, on a connection whose
    peer reads everything, blocks forever."""
    try:
        async with asyncio.timeout(_HANG_BOUND) as hang:
            if budget is None:
                await send(arg)
            else:
                with backend.timeout(budget):
                    await send(arg)
        return "ok"
    except TimeoutError:
        if hang.expired():
            raise Violation(
                "blocks-forever",
                f"send_packet is still pending {_HANG_BOUND} virtual seconds after it was issued although the connection is healthy and the peer reads everything"
                + (" (an earlier send_packet on this connection was abandoned by a timeout while suspended by backpressure; the peer then read everything)" if after_abandon else "")
                + f"; {describe()}",
                key=f"C04/{family}/blocks-forever" + ("/after-abandoned-send" if after_abandon else ""),
            ) from None
        if budget is None:
            raise
        return "timeout"


def _h_aio(world: World) -> None:
    family = "aio-adapter"
    iov = int(_aio_sel.SC_IOV_MAX)
    wl = _Workload(world)
    via = world.pick("via", ("endpoint", "client"))
    # history (a quarter of the runs): one send_packet is suspended by backpressure (the peer does not read, the packet is
    # larger than the link) and abandoned by the caller's time budget (backend.timeout -> TimeoutError); the peer then reads
    # everything; the sends issued afterwards on the healthy connection must terminate like any other
    history = world.chance("history.abandon", 1, 4)
    if not history:
        wl.draw_crash(world)  # the other history: the serializer of one packet raises after k chunks, later sends follow
    link = _Link(world, wl.total(), allow_never=False, force_small=history)
    abandon_at: int | None = None
    budget = 0.0
    late_when = "after-drain"
    if history:
        cands = [i for i, ss in enumerate(wl.sizes) if sum(ss) > link.capacity]
        if cands:
            abandon_at = world.pick("history.at", cands)
            budget = world.pick("history.budget", (0.25, 1.0 / 64, 2.0))
            late_when = world.pick("history.later", ("after-drain", "at-once"))
            if abandon_at == len(wl.packets) - 1:
                wl.repeat_first()
    extra = {"via": via, "capacity": link.capacity, "peer": link.peer_mode, "fail_from": link.fail_from, "abandon": (abandon_at, budget, late_when) if abandon_at is not None else None, "serializer_crash(packet,after_k_chunks)": wl.crash}
    world.notes.update(family=family, kind=wl.kind, sizes=wl.sizes, **{k: str(v) for k, v in extra.items()})
    backend = SimAsyncIOBackend(link.net)
    state: dict[str, Any] = {"current": 0, "done": 0, "failed": False, "early_return": False, "abandoned": None, "later_ok": 0, "failed_index": None}
    ledger = _CrashLedger(family, wl, lambda: _describe(wl, extra))
    link.check_installed()
    link.tap.family = family
    link.tap.spin_key = lambda: _spin_key(family, wl, state["current"], iov)
    link.tap.describe = lambda: _describe(wl, extra)
    pipe = link.lib.tx_pipe
    assert pipe is not None

    def check_fatal() -> None:
        if world.fatal is not None:
            raise world.fatal

    async def flushed(expected_written: int) -> bool:
        """wait (bounded) until everything the completed sends produced has been accepted by the socket"""
        return await wait_until(world, lambda: pipe.total_written >= expected_written or world.fatal is not None or link.lib.sim_closed, max_time=4000.0, step=0.25)

    async def peer_has_everything(expected_written: int) -> bytes:
        """the peer reads everything from now on; returns its stream once all that was handed over has reached it"""
        if link.slow is not None:
            link.slow.stop = True
        link.peer.resume_reading()
        link.peer.pull()
        await flushed(expected_written)
        await wait_until(world, lambda: pipe.total_read >= pipe.total_written or world.fatal is not None or link.lib.sim_closed, max_time=4000.0, step=1.0 / 64)
        check_fatal()
        return bytes(link.peer.received)

    async def main() -> None:
        loop = asyncio.get_running_loop()
        if not link.baseline:
            swarm_selector(world, loop.sim_selector)  # type: ignore[attr-defined]
        if via == "endpoint":
            transport = await backend.wrap_stream_socket(link.lib)
            sender: Any = AsyncStreamEndpoint(transport, wl.protocol, max_recv_size=4096)
        else:
            sender = AsyncTCPNetworkClient(link.lib, wl.protocol, backend=backend)
            await sender.wait_connected()
        try:
            expected_written = 0
            for i, packet in enumerate(wl.packets):
                state["current"] = i
                pos = len(world.trace)
                link.tap.begin(link.lib, None, None)
                link.tap.start_written = 0
                link.tap.byte_budget = sum(sum(ss) for ss in wl.sizes[: i + 1])  # cumulative: a flush may outlive its send
                abandon_now = i == abandon_at
                # finding C04/aio-adapter/send-raises/AttributeError/after-connection-lost (D25, fixed in /repo, nothing is
                # avoided): a send_packet issued after the connection was lost in the background (asyncio already ran
                # connection_lost(): only reachable here after an abandoned send whose pending flush then hit ECONNRESET/
                # EPIPE) reached asyncio's writelines() on a dead transport: AttributeError instead of a connection error.
                lost_before = link.lib.sim_closed
                if lost_before:
                    world.probe("send_after_background_connection_loss")
                if abandon_now:
                    # the peer stops reading for good before this send: the packet does not fit into the link
                    if link.slow is not None:
                        link.slow.stop = True
                    link.peer.pause_reading()
                t0 = world.now
                try:
                    outcome = await _bounded_send(world, backend, sender.send_packet, packet, budget if abandon_now else None, family, state["abandoned"] is not None, lambda: _describe(wl, extra))
                except ConnectionError:
                    outcome = "connection-error"
                except _PASS_THROUGH:
                    raise
                except asyncio.CancelledError:
                    raise
                except BaseException as exc:
                    if wl.crash is not None and i == wl.crash[0] and _is_crash(exc):
                        outcome = "crash"  # the serializer's own failure, as it is or wrapped by the endpoint
                    else:
                        zero_chunks = not wl.sizes[i]
                        raise Violation(
                            "send-raises",
                            f"send_packet raised {type(exc).__name__}: {exc} (only a connection error is allowed); {_describe(wl, extra)}",
                            key=f"C04/{family}/send-raises/{type(exc).__name__}" + ("/zero-chunks" if zero_chunks else "") + ("/after-connection-lost" if lost_before else ""),
                        ) from None
                world.log("send_packet", family, i, outcome)
                check_fatal()
                if outcome == "crash":
                    # history: the link drains; what the peer holds NOW is all the failed packet may ever contribute
                    world.fault("handler_raises")
                    ledger.after_crash(await peer_has_everything(expected_written))
                    continue
                if abandon_now:
                    elapsed = world.now - t0
                    if elapsed > budget + 1e-6:
                        raise Violation(
                            "time-budget",
                            f"send_packet under backend.timeout({budget}) ended ({outcome}) after {elapsed} virtual seconds; {_describe(wl, extra)}",
                            key=f"C04/{family}/time-budget/{outcome}",
                        )
                    # the peer reads again, everything, from now on
                    link.peer.resume_reading()
                    if outcome == "timeout":
                        world.fault("cancel_at_time")
                        world.probe("send_abandoned_while_suspended")
                        state["abandoned"] = i
                        expected_written += sum(wl.sizes[i])  # this adapter has queued the whole packet
                        if late_when == "after-drain":
                            await flushed(expected_written)
                            await asyncio.sleep(1.0 / 64)
                            check_fatal()
                        continue
                if outcome != "ok":
                    world.probe("outcome." + outcome)
                    state["failed"] = True
                    state["failed_index"] = i
                    break
                if state["abandoned"] is None:
                    state["done"] += 1
                else:
                    state["later_ok"] += 1
                    world.probe("send_completed_after_abandoned_one")
                world.progress(1)
                expected_written += sum(wl.sizes[i])
                if ledger.active:
                    ledger.after_ok(i, await peer_has_everything(expected_written))
                    world.probe("send_completed_after_failed_serialization")
                if pipe.total_written < expected_written:
                    # send_packet returned although the socket has not accepted all the bytes yet (C20 territory);
                    # a connection error striking now loses bytes of a send that reported success.
                    world.probe("returned_before_flush")
                    state["early_return"] = True
            # termination, part 2: once everything is flushed nothing may keep the loop busy
            if not state["failed"]:
                await flushed(expected_written)
                check_fatal()
            pos = len(world.trace)
            idle = await loop_goes_idle(world, loop)
            check_fatal()
            zero = link.zero_sends_since(pos)
            if not idle or zero > 2:
                raise Violation(
                    "spin",
                    f"the event loop does not go idle after send_packet returned and the write buffer was flushed ({zero} zero-length sends while idle); {_describe(wl, extra)}",
                    key=_spin_key(family, wl, state["current"], iov),
                )
            closer = loop.create_task(sender.aclose(), name="c04-closer")
            finished, _ = await asyncio.wait([closer], timeout=100.0)
            check_fatal()
            if not finished:
                closer.cancel()
                raise Violation(
                    "aclose-completes",
                    f"aclose() after send_packet did not complete within 100 virtual seconds; {_describe(wl, extra)}",
                    key=f"C04/{family}/aclose-hangs" + ("/empty-chunk" if _spin_key(family, wl, state["current"], iov).endswith("empty-chunk") else ""),
                )
            closer.result()
        finally:
            await aclose_forcefully(sender)
            if not link.lib.sim_closed:
                link.lib.close()  # deterministic release: otherwise a destructor closes (and logs) at an arbitrary later point

    try:
        with sim_sockets(link.net):
            run_async(world, main)
        link.settle()
        early = state["early_return"] and not state["failed"]
        if ledger.active:
            ledger.final(bytes(link.peer.received), state["failed_index"])
        elif state["abandoned"] is not None:
            _check_bytes_history(family, wl, state["abandoned"], state["later_ok"], state["failed"], bytes(link.peer.received), extra)
        else:
            _check_bytes(family, wl, state["done"], state["failed"], link, extra, suffix="/returned-before-flush" if early else "")
    finally:
        _rekey_fatal(world, _spin_key(family, wl, state["current"], iov))

# --------------------------------------------------------------------------------------------------- TLS helpers
def _check_plain(family: str, wl: _Workload, done: int, failed: bool, got: bytes, extra: dict, peer_error: Any = None) -> None:
    """same byte oracle as _check_bytes, on the plaintext the reference TLS peer decrypted"""
    complete = b"".join(b"".join(c) for c in wl.expected[:done])
    if not failed:
        if got != complete:
            raise Violation(
                "bytes-equal",
                f"after {done} successful sends the TLS peer decrypted {len(got)} bytes, expected {len(complete)} (first difference at offset {_first_diff(got, complete)}; peer error={peer_error!r}); {_describe(wl, extra)}",
                key=f"C04/{family}/bytes-equal",
            )
    else:
        full = complete + b"".join(wl.expected[done])
        if not full.startswith(got):
            raise Violation(
                "bytes-prefix",
                f"send #{done} failed, the TLS peer decrypted {len(got)} bytes which are not a prefix of the {len(full)} expected bytes (first difference at offset {_first_diff(got, full)}); {_describe(wl, extra)}",
                key=f"C04/{family}/bytes-prefix",
            )


# --------------------------------------------------------------------------------------------------- async TLS harness
def _h_aio_tls(world: World) -> None:
    """AsyncTLSStreamTransport over the real asyncio adapter on SimSocket, against the reference TLSPeer.
    Faults start after the handshake (the property is about send_packet, not about wrap())."""
    family = "aio-tls"
    wl = _Workload(world, max_packets=2, max_total=70000)
    via = world.pick("via", ("endpoint", "transport"))
    version = world.pick("tls.version", ("1.3", "1.2"))
    lib_server = bool(world.choose("tls.lib_server", 2))
    # history (a quarter of the runs), same as in aio-adapter: one send is suspended by backpressure (the peer does not read at
    # all, the packet is larger than the link), abandoned by the caller's time budget, the peer then reads everything, and
    # the later sends on the healthy connection must terminate
    history = world.chance("history.abandon", 1, 4)
    if not history:
        # the other history (a third of the remaining runs here: this is the transport with a persistent write backlog): the
        # serializer of one packet raises after k chunks, later sends follow
        wl.draw_crash(world, den=3)
    baseline = (not history) and world.choose("swarm.faults", 3) == 0
    net = SimNet(world)
    net.livelock_limit = 300
    if baseline:
        capacity, dsel, peer_mode = 1 << 21, 0, "reads"
    else:
        cap_kind = world.pick("link.capacity", ("small", "medium") if history else ("big", "small", "medium"))
        capacity = {"big": 1 << 21, "small": 64 + world.choose("link.cap.small", 960), "medium": 2048 + world.choose("link.cap.medium", 30) * 1024}[cap_kind]
        if cap_kind != "big":
            capacity = max(capacity, wl.total() // 200 + 1)
            world.fault("capacity_small")
        dsel = world.choose("link.delay", 3)
        if dsel:
            world.fault("delay")
        peer_mode = "reads" if cap_kind == "big" else world.pick("peer.mode", ("reads", "slow", "paused"))
    delivery = Delivery(0, 1, {0: (0,), 1: (1,), 2: tuple(range(0, 5))}[dsel])
    lib, psock = net.socketpair(delivery_ab=delivery, capacity_ab=capacity)
    peer = TLSPeer(world, psock, server_side=not lib_server, version=version)
    peer.auto_close_reply = True
    gate = {"open": True, "gen": 0}
    peer_visible = peer._on_visible

    def gated_visible() -> None:
        if gate["open"]:
            peer_visible()

    peer.rx.on_visible = gated_visible

    def tick(gen: int, period: float, left: int) -> None:
        if gate["gen"] != gen:
            return
        if left <= 0:
            gate["open"] = True
        peer_visible()  # reads everything visible now
        if left > 0:
            world.after(period, lambda: tick(gen, period, left - 1))

    if baseline:
        short_den = eagain_den = eintr_den = 0
        fail_from = None
        peer_cfg: tuple = ()
    else:
        short_den = draw_rate(world, "sw.short", (0, 8, 2))
        eagain_den = draw_rate(world, "sw.eagain", (0, 16, 4))
        eintr_den = draw_rate(world, "sw.eintr", (0, 16, 4))
        fail_from = None
        if world.chance("sw.fail_from", 1, 5):
            fail_from = (world.choose("fail.n", 24), world.pick("fail.errno", (errno.ECONNRESET, errno.EPIPE)))
        if peer_mode == "slow":
            peer_cfg = ((1 + world.choose("peer.period", 8)) / 64.0, 1 + world.choose("peer.steps", 48))
        elif peer_mode == "paused":
            peer_cfg = ((1 + world.choose("peer.pause", 64)) / 64.0, 0)
        else:
            peer_cfg = ()
    plan = CallFaults(world, eagain_den=eagain_den, eintr_den=eintr_den)
    if fail_from is not None:
        plan.fail_from["send"] = fail_from
    tap = _SendTap(world, plan)
    abandon_at: int | None = None
    budget = 0.0
    late_when = "after-drain"
    if history:
        cands = [i for i, ss in enumerate(wl.sizes) if sum(ss) > capacity]  # cipher text >= plain text > link capacity
        if cands:
            abandon_at = world.pick("history.at", cands)
            budget = world.pick("history.budget", (0.25, 1.0 / 64, 2.0))
            late_when = world.pick("history.later", ("after-drain", "at-once"))
            if abandon_at == len(wl.packets) - 1:
                wl.repeat_first()
    extra = {"via": via, "tls": version, "lib_server": lib_server, "capacity": capacity, "peer": peer_mode, "peer_cfg": peer_cfg, "fail_from": fail_from, "abandon": (abandon_at, budget, late_when) if abandon_at is not None else None, "serializer_crash(packet,after_k_chunks)": wl.crash}
    world.notes.update(family=family, kind=wl.kind, sizes=wl.sizes, **{k: str(v) for k, v in extra.items()})
    tap.family = family
    tap.spin_key = lambda: f"C04/{family}/spin"
    tap.describe = lambda: _describe(wl, extra)
    backend = SimAsyncIOBackend(net)
    state: dict[str, Any] = {"done": 0, "failed": False, "abandoned": None, "later_ok": 0, "failed_index": None}
    ledger = _CrashLedger(family, wl, lambda: _describe(wl, extra))

    def check_fatal() -> None:
        if world.fatal is not None:
            raise world.fatal

    def activate_faults() -> None:
        lib.fault_plan = tap
        net.short_write_den = short_den
        tap.last_written = lib.tx_pipe.total_written  # type: ignore[union-attr]
        if peer_mode in ("slow", "paused"):
            gate["open"] = False
            gate["gen"] += 1
            period, steps = peer_cfg
            world.after(period, lambda g=gate["gen"]: tick(g, period, steps))
            world.fault("peer_stops_reading")

    def release_peer() -> None:
        gate["gen"] += 1
        gate["open"] = True
        peer_visible()

    async def drained() -> None:
        """until the socket has taken (and the reading peer has consumed) everything an abandoned send left queued:
        deliveries take <= 4/64 s, so a whole second without a byte accepted means the queue is empty"""
        prev = -1
        for _ in range(400):
            if lib.tx_pipe.total_written == prev or world.fatal is not None:  # type: ignore[union-attr]
                break
            prev = lib.tx_pipe.total_written  # type: ignore[union-attr]
            await asyncio.sleep(1.0)
        check_fatal()

    async def main() -> None:
        loop = asyncio.get_running_loop()
        if not baseline:
            swarm_selector(world, loop.sim_selector)  # type: ignore[attr-defined]
        raw = await backend.wrap_stream_socket(lib)
        tls = await AsyncTLSStreamTransport.wrap(raw, make_context(lib_server, version), server_side=lib_server, server_hostname=None if lib_server else "sim.host", handshake_timeout=100000.0, shutdown_timeout=50.0)
        sender: Any = AsyncStreamEndpoint(tls, wl.protocol, max_recv_size=4096) if via == "endpoint" else tls
        try:
            activate_faults()
            if lib.fault_plan is not tap:
                raise HarnessError("C04 aio-tls: fault plan not installed")
            for i, packet in enumerate(wl.packets):
                pos = len(world.trace)
                tap.begin(lib, None, None)
                abandon_now = i == abandon_at
                if abandon_now:
                    gate["gen"] += 1  # stops a periodic reader: the peer does not read at all during this send
                    gate["open"] = False
                t0 = world.now
                try:
                    if via == "endpoint":
                        send: Callable[[Any], Any] = sender.send_packet
                    else:
                        send = lambda pkt: tls.send_all_from_iterable(wl.protocol.generate_chunks(pkt))  # noqa: E731
                    outcome = await _bounded_send(world, backend, send, packet, budget if abandon_now else None, family, state["abandoned"] is not None, lambda: _describe(wl, extra))
                except ConnectionError:
                    outcome = "connection-error"
                except _PASS_THROUGH:
                    raise
                except asyncio.CancelledError:
                    raise
                except BaseException as exc:
                    if wl.crash is not None and i == wl.crash[0] and _is_crash(exc):
                        outcome = "crash"  # the serializer's own failure (wrapped by the endpoint, as it is via the transport)
                    else:
                        raise Violation(
                            "send-raises",
                            f"TLS send raised {type(exc).__name__}: {exc} (only a connection error is allowed); {_describe(wl, extra)}",
                            key=f"C04/{family}/send-raises/{type(exc).__name__}",
                        ) from None
                world.log("send_packet", family, i, outcome)
                check_fatal()
                if outcome == "crash":
                    # history: the peer reads everything from now on and the link drains; the plaintext the peer has
                    # decrypted NOW is all the failed packet may ever contribute
                    world.fault("handler_raises")
                    release_peer()
                    await drained()
                    ledger.after_crash(bytes(peer.plain_in))
                    continue
                zero = sum(1 for t in world.trace[pos:] if t[0] == "send" and t[1] == lib.label and t[2] == 0)
                if zero > len(wl.sizes[i]) + 1:
                    raise Violation("op-budget", f"send #{i} issued {zero} zero-length socket sends; {_describe(wl, extra)}", key=f"C04/{family}/op-budget")
                if abandon_now:
                    elapsed = world.now - t0
                    if elapsed > budget + 1e-6:
                        raise Violation("time-budget", f"TLS send under backend.timeout({budget}) ended ({outcome}) after {elapsed} virtual seconds; {_describe(wl, extra)}", key=f"C04/{family}/time-budget/{outcome}")
                    release_peer()  # the peer reads again, everything, from now on
                    if outcome == "timeout":
                        world.fault("cancel_at_time")
                        world.probe("send_abandoned_while_suspended")
                        state["abandoned"] = i
                        if late_when == "after-drain":
                            await drained()
                        continue
                if outcome != "ok":
                    world.probe("outcome." + outcome)
                    state["failed"] = True
                    state["failed_index"] = i
                    break
                if state["abandoned"] is None:
                    state["done"] += 1
                else:
                    state["later_ok"] += 1
                    world.probe("send_completed_after_abandoned_one")
                world.progress(1)
                if ledger.active:
                    await drained()
                    ledger.after_ok(i, bytes(peer.plain_in))
                    world.probe("send_completed_after_failed_serialization")
            # after the last fault: the peer reads again; nothing may keep the loop busy
            release_peer()
            if state["abandoned"] is not None:
                await drained()  # the cipher text the abandoned send left in the adapter's queue is legitimate work
            idle = await loop_goes_idle(world, loop)
            check_fatal()
            if not idle:
                raise Violation("spin", f"the event loop does not go idle after the TLS send returned; {_describe(wl, extra)}", key=f"C04/{family}/spin/loop-busy")
            if ledger.active:
                await drained()
                ledger.final(bytes(peer.plain_in), state["failed_index"])
            elif state["abandoned"] is not None:
                _check_bytes_history(family, wl, state["abandoned"], state["later_ok"], state["failed"], bytes(peer.plain_in), extra)
            else:
                _check_plain(family, wl, state["done"], state["failed"], peer.plain_in, extra, peer.engine.error)
            with backend.move_on_after(200.0) as scope:
                await sender.aclose()
            check_fatal()
            if scope.cancelled_caught():
                raise Violation("aclose-completes", f"aclose() of the TLS transport did not complete within 200 virtual seconds (shutdown_timeout=50); {_describe(wl, extra)}", key=f"C04/{family}/aclose-hangs")
        finally:
            lib.fault_plan = None
            await aclose_forcefully(sender)
            if not lib.sim_closed:
                lib.close()

    try:
        with sim_sockets(net):
            run_async(world, main)
    finally:
        _rekey_fatal(world, f"C04/{family}/spin")


# --------------------------------------------------------------------------------------------------- blocking TLS harness
class _RealPeer(RealTLSPeer):
    """RealTLSPeer that can stop reading (paused) and can die (abortive close of the far end)"""

    paused = False
    dead = False

    def pump(self) -> None:
        if self.paused or self.dead:
            return
        super().pump()

    def kill(self) -> None:
        if not self.dead:
            self.dead = True
            try:
                self.far.close()
            except OSError:
                pass
            self.world.log("peer_close", "real")


_TLS_TIMEOUTS = (None, 1000.0, 0.25, 2.0, 1.0 / 64)


def _h_sync_tls(world: World) -> None:
    """SSLStreamTransport over a real in-process socketpair whose far end is the reference TLS peer.
    Socket-call faults cannot be injected here (OpenSSL does the I/O on the descriptor); the fault space is the kernel
    send buffer (SO_SNDBUF small), a peer that reads late / periodically / never (finite timeout) or dies."""
    family = "sync-tls"
    wl = _Workload(world, max_packets=2, max_total=70000)
    via = world.pick("via", ("transport", "endpoint"))
    version = world.pick("tls.version", ("1.3", "1.2"))
    lib_server = bool(world.choose("tls.lib_server", 2))
    baseline = world.choose("swarm.faults", 3) == 0
    retry_interval = world.pick("retry_interval", (math.inf, 1.0, 1.0 / 16))
    peer = _RealPeer(world, server_side=not lib_server, version=version)
    if baseline:
        sndbuf, peer_mode, cfg = None, "reads", ()
    else:
        sndbuf = world.pick("sndbuf", (None, 2048, 4096, 16384))
        peer_mode = world.pick("peer.mode", ("reads", "paused", "slow", "never", "dies"))
        if peer_mode == "paused":
            cfg: tuple = ((1 + world.choose("peer.pause", 64)) / 64.0,)
        elif peer_mode == "slow":
            cfg = ((1 + world.choose("peer.period", 8)) / 64.0, 1 + world.choose("peer.steps", 24))
        elif peer_mode == "dies":
            cfg = (world.choose("peer.dies", 32) / 64.0,)
        else:
            cfg = ()
        if sndbuf is not None:
            world.fault("capacity_small")
    timeouts = [world.pick("timeout", _TIMEOUTS_FINITE if peer_mode == "never" else _TLS_TIMEOUTS) for _ in wl.packets]
    extra = {"via": via, "tls": version, "lib_server": lib_server, "sndbuf": sndbuf, "peer": peer_mode, "peer_cfg": cfg, "timeouts": timeouts, "retry_interval": retry_interval}
    world.notes.update(family=family, kind=wl.kind, sizes=wl.sizes, **{k: str(v) for k, v in extra.items()})
    gen = [0]

    def slow_tick(g: int, period: float, left: int) -> None:
        if gen[0] != g or peer.dead:
            return
        peer.paused = False
        peer.pump()
        if left > 0:
            peer.paused = True
            world.after(period, lambda: slow_tick(g, period, left - 1))

    def activate() -> None:
        if peer_mode == "paused":
            peer.paused = True
            world.fault("peer_stops_reading")
            world.after(cfg[0], lambda g=gen[0]: slow_tick(g, 0.0, 0))
        elif peer_mode == "slow":
            peer.paused = True
            world.fault("peer_stops_reading")
            world.after(cfg[0], lambda g=gen[0]: slow_tick(g, cfg[0], cfg[1]))
        elif peer_mode == "never":
            peer.paused = True
            world.fault("peer_stops_reading")
        elif peer_mode == "dies":
            peer.paused = True  # stops reading, then goes away while the sender is (possibly) blocked on a full buffer
            world.after(cfg[0], peer.kill)
            world.fault("rst_at")

    tr: Any = None
    done = 0
    failed = False
    try:
        with sync_engine(world) as make_selector:
            if sndbuf is not None:
                import socket as _s

                peer.lib_sock.setsockopt(_s.SOL_SOCKET, _s.SO_SNDBUF, sndbuf)
            tr = SSLStreamTransport(peer.lib_sock, make_context(lib_server, version), retry_interval=retry_interval, server_side=lib_server, server_hostname=None if lib_server else "sim.host", shutdown_timeout=5.0, selector_factory=make_selector)
            sender: Any = StreamEndpoint(tr, wl.protocol, max_recv_size=4096) if via == "endpoint" else tr
            try:
                activate()
                active = [-1]

                def watchdog(i: int, timeout: float) -> None:
                    # runs inside select(): the call is still blocked after its whole budget has been spent
                    if active[0] == i:
                        active[0] = -1
                        world.fail(Violation("time-budget", f"TLS send(timeout={timeout}) is still blocked after its deadline; {_describe(wl, extra)}", key=f"C04/{family}/time-budget/still-running"))

                for i, (packet, timeout) in enumerate(zip(wl.packets, timeouts)):
                    t0 = world.now
                    active[0] = i
                    if timeout is not None:
                        world.at(t0 + timeout + 1.0 / 256, lambda i=i, timeout=timeout: watchdog(i, timeout))
                    try:
                        if via == "endpoint":
                            sender.send_packet(packet, timeout=timeout)
                        else:
                            tr.send_all_from_iterable(wl.protocol.generate_chunks(packet), math.inf if timeout is None else timeout)
                        outcome = "ok"
                    except TimeoutError:
                        outcome = "timeout"
                    except ConnectionError:
                        outcome = "connection-error"
                    except ssl.SSLError as exc:
                        # a TLS-level EOF (peer went away without close_notify) is this transport's connection error:
                        # the TCP clients map exactly this class (is_ssl_eof_error) to ConnectionAbortedError
                        if not _en_utils.is_ssl_eof_error(exc):
                            raise Violation("send-raises", f"TLS send raised {type(exc).__name__}: {exc}; {_describe(wl, extra)}", key=f"C04/{family}/send-raises/{type(exc).__name__}") from None
                        outcome = "connection-error"
                        world.probe("ssl_eof_error")
                    except Deadlock:
                        raise Violation("blocks-forever", f"blocking TLS send(timeout={timeout}) cannot make progress and never returns; {_describe(wl, extra)}", key=f"C04/{family}/blocks-forever") from None
                    except _PASS_THROUGH:
                        raise
                    except BaseException as exc:
                        raise Violation(
                            "send-raises",
                            f"TLS send raised {type(exc).__name__}: {exc} (only TimeoutError / ConnectionError are allowed); {_describe(wl, extra)}",
                            key=f"C04/{family}/send-raises/{type(exc).__name__}",
                        ) from None
                    finally:
                        active[0] = -1
                    elapsed = world.now - t0
                    world.log("send_packet", family, i, outcome, elapsed)
                    if timeout is not None and elapsed > timeout + 1e-9:
                        raise Violation("time-budget", f"TLS send(timeout={timeout}) took {elapsed} virtual seconds (outcome {outcome}); {_describe(wl, extra)}", key=f"C04/{family}/time-budget/{outcome}")
                    if outcome != "ok":
                        world.probe("outcome." + outcome)
                        failed = True
                        break
                    done += 1
                    world.progress(1)
                # the peer reads whatever the kernel still holds
                gen[0] += 1
                peer.paused = False
                if not peer.dead:
                    peer.pump()
                    guard = 0
                    while world.has_events() and guard < 10000:
                        world.advance(None)
                        guard += 1
                    peer.pump()
                got = bytes(peer.engine.plain_in)
                if peer.dead and not failed:
                    # a peer that died may not have read what the kernel accepted from sends that returned normally:
                    # only "nothing foreign, duplicated or reordered" can be demanded
                    full = b"".join(b"".join(c) for c in wl.expected[: done + 1])
                    if not full.startswith(got):
                        raise Violation("bytes-prefix", f"the TLS peer (closed early) decrypted {len(got)} bytes which are not a prefix of what was sent (first difference at offset {_first_diff(got, full)}); {_describe(wl, extra)}", key=f"C04/{family}/bytes-prefix")
                else:
                    _check_plain(family, wl, done, failed, got, extra, peer.engine.error)
            finally:
                peer.paused = False
                peer.auto_close_reply = True
                try:
                    sender.close()
                except (OSError, ValueError):
                    pass
    finally:
        if tr is not None and not tr.is_closed():
            try:
                tr.close()
            except BaseException:
                pass
        peer.dispose()


HARNESSES = [
    Harness("sync-sendmsg", lambda w: _h_sync(w, "sync-sendmsg"), weight=2),
    Harness("sync-send", lambda w: _h_sync(w, "sync-send"), weight=1),
    Harness("aio-adapter", _h_aio, weight=2),
    Harness("aio-tls", _h_aio_tls, weight=1, wall_limit=180.0),
    Harness("sync-tls", _h_sync_tls, weight=1, wall_limit=180.0),
]
