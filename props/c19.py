"""C19 — connection racing returns one socket and leaks none (DESIGN §4 C19).

Real code: ``AsyncIODNSResolver.create_stream_connection`` / ``create_datagram_connection`` (staggered race, per-attempt
socket creation / bind / connect), reached directly, through ``AsyncIOBackend.create_tcp_connection`` /
``create_udp_endpoint`` and through ``AsyncTCPNetworkClient((host, port)).wait_connected()``; asyncio's
``sock_connect``; the backend's CancelScope / TaskGroup.  Stub: SimSocket/SimNet (per-attempt connect outcome and
time), name resolution table, the selector, the clock.

Two harness families:
  * ``race-*``   exploration: one run per scenario; selector perturbation; at most one external cancel (iteration/time).
  * ``sweep-*``  fault enumeration: base run of a pre-drawn scenario to count the loop iterations J of the connecting
                 task, then J+1 re-runs of the *same* scenario with ``task.cancel()`` issued before iteration j.
                 Sweep runs draw nothing, so the replay (= same choice list) re-runs the identical base + sweep and
                 fails at the same j.
Oracle (socket registry): success ⇒ exactly one library-created socket is open, it is connected, and it is the one
returned; failure/cancel ⇒ no library-created socket is open and the caller saw ExceptionGroup[OSError]/OSError
(CancelledError only if the harness cancelled); a ``task.cancel()`` that returned True is never answered with a socket
(``cancelled-connect-reports-cancellation``; ``client.aclose()`` as the abort is exempt: wait_connected() may have won).  If any attempt was established and nobody cancelled ⇒ success.
Model: a resolved address is reachable if its scripted outcome is "connected" and, when ``local_address`` is given, at
least one resolved local address of the same family can be bound (per-address EADDRINUSE/EADDRNOTAVAIL); a reachable
address and nobody cancelled ⇒ success, from a bindable local address.
"""
from __future__ import annotations

import asyncio
import errno
import math
import os
import socket as _socket
from typing import Any

from easynetwork.clients.async_tcp import AsyncTCPNetworkClient
from easynetwork.exceptions import ClientClosedError
from easynetwork.lowlevel.api_async.backend._asyncio.dns_resolver import AsyncIODNSResolver
from easynetwork.lowlevel.socket import INETSocketAttribute
from easynetwork.protocol import StreamProtocol
from easynetwork.serializers.line import StringLineSerializer

from vsim.backend import SimAsyncIOBackend, sim_sockets
from vsim.harness import draw_rate
from vsim.loop import run_async
from vsim.runner import Harness
from vsim.sock import SimNet, SimSocket
from vsim.world import HarnessError, Violation, World

PROPERTY = "C19"
LEVEL = "fault_enumeration"
RULE = (
    "scenario = 1-6 resolved addresses of mixed families x per-attempt outcome {connected at t, ECONNREFUSED/ENETUNREACH at t "
    "(asynchronous or synchronous), never} with t on a grid of half stagger delays (so that two attempts complete in the same "
    "loop iteration) x happy_eyeballs_delay {default, 0, 0.25, inf} x socket() EMFILE x local_address whose host name resolves to "
    "1-3 addresses per family (v4 only / v6 only / both, three list orders; a missing family = 'no matching local address') with "
    "per-address bind errors (EADDRINUSE/EADDRNOTAVAIL on every bind() to that address) and, independently, failures of the k-th bind() call x "
    "entry point {resolver, backend.create_tcp_connection, AsyncTCPNetworkClient.wait_connected, backend.create_udp_endpoint}; "
    "sweep harnesses: for each base scenario task.cancel() before every loop iteration j=1..J+1 of the connecting task "
    "(one evaluation = base run + J+1 cancel runs; sweep-aclose: same sweep with client.aclose() started from another task instead "
    "of task.cancel(), oracle: nothing open once aclose() returned); race harnesses: one run with selector reorder/hold and at most one cancel "
    "at a random iteration or virtual time; a quarter of the scenarios are 'tail-only': unequal per-family address counts (1+3, 4+1, "
    "2+4 ...) in three list orders where only the last address of the longer family is reachable and all others fail in finite time "
    "(optionally behind a local_address with per-address bind errors); "
    "oracle = registry of every socket the library created (open set vs returned socket); a task.cancel() that returned True is never answered with a socket; + order-independent model clauses: all "
    "attempts failed => socket() was called once per resolved address; some resolved address is scripted reachable and, when "
    "local_address is given, at least one local address of its family can be bound (no EMFILE / k-th-call bind faults, nobody "
    "cancelled) => the call succeeds unless a 'never' attempt blocks the race under an infinite stagger delay; on success with "
    "local_address the returned socket is bound to a bindable local address of the family of its peer"
)
COMPONENTS_REAL = [
    "easynetwork.lowlevel.api_async.backend._common.dns_resolver (staggered race, _create_connection_impl)",
    "easynetwork.lowlevel.api_async.backend._asyncio.dns_resolver / backend.create_tcp_connection / create_udp_endpoint / wrap_stream_socket",
    "easynetwork.lowlevel.api_async.backend._asyncio.tasks (CancelScope, TaskGroup)",
    "easynetwork.clients.async_tcp.AsyncTCPNetworkClient.wait_connected",
    "asyncio.SelectorEventLoop.sock_connect / create_connection(sock=) / create_datagram_endpoint(sock=)",
]
COMPONENTS_STUB = ["SimSocket/SimNet (connect outcomes and times, EMFILE, bind errors per local address and per call)", "getaddrinfo table (remote and local host names)", "SimSelector", "virtual clock"]
ASSUMPTIONS = [
    "a connect attempt completes (SO_ERROR readable / socket writable) at one instant chosen by the scenario; 'never' = longer than the run",
    "close() of a socket never fails",
    "a per-address bind error is a property of the local address for the whole run (every bind() on it fails, the others succeed)",
]
BUDGET = {"quick": 40, "thorough": 480}

PORT = 6000
CAP = 120.0  # virtual seconds after which an unfinished connect is declared a hang
GRID = 8  # 1/64 s units: half of the default stagger delay (0.25 s)

TCP_MODES = ("backend", "client", "resolver")


# ------------------------------------------------------------------------------------------------------ scenario
def _draw_scenario(world: World, modes: tuple[str, ...]) -> dict:
    mode = modes[world.choose("mode", len(modes))]
    if world.choose("tail_only", 4) == 3:
        return _draw_tail_only(world, mode)
    n = 1 + world.choose("naddr", 6)
    addrs: list[tuple[int, str]] = []
    for i in range(n):
        if world.choose("fam", 2):
            addrs.append((int(_socket.AF_INET6), f"fd00::{i + 1}"))
        else:
            addrs.append((int(_socket.AF_INET), f"10.0.0.{i + 1}"))
    hed_i = world.choose("hed", 4)  # 0 default | 1 explicit 0.25 | 2 zero | 3 inf
    outcomes: list[tuple] = []
    for i in range(n):
        if mode == "udp":
            k = world.choose("out", 4)
            outcomes.append(("ok", 0) if k < 2 else ("err", 0, errno.ENETUNREACH if k == 2 else errno.ECONNREFUSED, "sync"))
            continue
        k = world.choose("out", 7)
        t = world.choose("t", 7)  # in GRID units
        if k <= 2:
            outcomes.append(("ok", t))
        elif k == 3:
            outcomes.append(("err", t, errno.ECONNREFUSED, "async"))
        elif k == 4:
            outcomes.append(("err", t, errno.ENETUNREACH, "async"))
        elif k == 5:
            outcomes.append(("never", 0))
        else:
            outcomes.append(("err", 0, errno.ENETUNREACH, "sync"))
    emfile = [i for i in range(n + 2) if world.chance("emfile", 1, 10)]
    locals_, lfault, bind_fail = _draw_locals(world, n, 3)
    return {"mode": mode, "addrs": addrs, "hed": hed_i, "outcomes": outcomes, "emfile": emfile, "locals": locals_, "lfault": lfault, "bind_fail": bind_fail}


def _draw_locals(world: World, n: int, den: int) -> tuple[list[tuple[int, str]], list[int], list[int]]:
    """``local_address``: the local host name resolves to 1-3 addresses per family (one family may be absent: "no matching
    local address"), listed v4 first / v6 first / alternating.  Two independent bind fault axes:
      * ``lfault[i]``: errno with which EVERY bind() on local address i fails (EADDRINUSE / EADDRNOTAVAIL, a property of
        the address, hence independent of the order in which the library races the remote addresses), 0 = bindable;
      * ``bind_fail``: indices of bind() CALLS that fail (transient, order dependent; no reachability model then)."""
    locals_: list[tuple[int, str]] = []
    lfault: list[int] = []
    bind_fail: list[int] = []
    if not world.chance("local", 1, den):
        return locals_, lfault, bind_fail
    fams = world.choose("lfams", 3)  # 0 both families | 1 IPv4 only | 2 IPv6 only
    n4 = 0 if fams == 2 else 1 + world.choose("nlocal4", 3)
    n6 = 0 if fams == 1 else 1 + world.choose("nlocal6", 3)
    order = world.choose("lorder", 3)  # 0 v4 first | 1 v6 first | 2 alternate
    v4 = [(int(_socket.AF_INET), f"10.1.0.{i + 1}") for i in range(n4)]
    v6 = [(int(_socket.AF_INET6), f"fd00:1::{i + 1}") for i in range(n6)]
    if order == 0:
        locals_ = v4 + v6
    elif order == 1:
        locals_ = v6 + v4
    else:
        for i in range(3):
            locals_.extend(v4[i : i + 1] + v6[i : i + 1])
    for _ in locals_:
        k = world.choose("lfault", 4)
        lfault.append(0 if k < 2 else (errno.EADDRINUSE if k == 2 else errno.EADDRNOTAVAIL))
    if world.chance("bindfail_calls", 1, 3):
        bind_fail = [i for i in range(3 * n) if world.chance("bindfail", 1, 4)]
    return locals_, lfault, bind_fail


def _draw_tail_only(world: World, mode: str) -> dict:
    """Unequal per-family address counts (1+3, 4+1, 2+4 ...) where only the LAST address of the longer family is
    reachable and everything else fails in finite time: the race has to get to the very end of the resolved list."""
    minority = 1 + world.choose("tail.minority", 2)
    majority = minority + 1 + world.choose("tail.extra", 6 - 2 * minority)
    fam_major, fam_minor = (_socket.AF_INET, _socket.AF_INET6) if world.choose("tail.major_fam", 2) == 0 else (_socket.AF_INET6, _socket.AF_INET)
    order = world.choose("tail.order", 3)  # 0: minority first | 1: majority first | 2: alternate while both last
    fams: list[int] = []
    a, b = minority, majority
    if order == 0:
        fams = [fam_minor] * a + [fam_major] * b
    elif order == 1:
        fams = [fam_major] * b + [fam_minor] * a
    else:
        while a or b:
            if b:
                fams.append(fam_major)
                b -= 1
            if a:
                fams.append(fam_minor)
                a -= 1
    last_major = max(i for i, f in enumerate(fams) if f == fam_major)
    addrs = [(int(f), f"fd00::{i + 1}" if f == _socket.AF_INET6 else f"10.0.0.{i + 1}") for i, f in enumerate(fams)]
    outcomes: list[tuple] = []
    for i in range(len(fams)):
        if i == last_major:
            outcomes.append(("ok", 0) if mode == "udp" else ("ok", world.choose("tail.t_ok", 3)))
        elif mode == "udp":
            outcomes.append(("err", 0, errno.ENETUNREACH, "sync"))
        else:
            k = world.choose("tail.err", 3)
            outcomes.append(("err", world.choose("tail.t", 4), errno.ECONNREFUSED if k == 0 else errno.ENETUNREACH, "sync" if k == 2 else "async"))
            if k == 2:
                outcomes[-1] = ("err", 0, errno.ENETUNREACH, "sync")
    world.probe("scenario_tail_only")
    hed_i = world.choose("hed", 4)
    # the only reachable address may in addition need the 2nd/3rd local address of its family (per-address bind faults only)
    locals_, lfault, _ = _draw_locals(world, 0, 4)
    return {"mode": mode, "addrs": addrs, "hed": hed_i, "outcomes": outcomes, "emfile": [], "locals": locals_, "lfault": lfault, "bind_fail": []}


def _hed_effective(sc: dict) -> float:
    v = _hed_value(sc)
    if v is None:
        return math.inf if sc["mode"] in ("resolver", "udp") else 0.25
    return v


def _hed_value(sc: dict) -> float | None:
    return {0: None, 1: 0.25, 2: 0.0, 3: math.inf}[sc["hed"]]


def _unbindable(sc: dict) -> dict[str, str]:
    return {ip: errno.errorcode[code] for (_, ip), code in zip(sc["locals"], sc.get("lfault", ())) if code}


def _bindable(sc: dict, family: int) -> list[str] | None:
    """local addresses on which a socket of `family` can be bound (None: no local_address requested, nothing to bind)"""
    if not sc["locals"]:
        return None
    return [ip for (fam, ip), code in zip(sc["locals"], sc.get("lfault", ())) if fam == family and not code]


# ------------------------------------------------------------------------------------------------------ one run
def _run(world: World, sc: dict, *, cancel_iter: int | None = None, cancel_time: float | None = None, perturb: bool = False, label: str = "", cancel_kind: str = "task") -> dict:
    """One simulated connect.  Returns the facts the oracle needs (no repo object survives)."""
    mode = sc["mode"]
    net = SimNet(world)
    hosts = {"sim.host": list(sc["addrs"]), "sim.local": list(sc["locals"])}
    backend = SimAsyncIOBackend(net, hosts=hosts)
    outcome_of = {ip: o for (_, ip), o in zip(sc["addrs"], sc["outcomes"])}
    peers: list[SimSocket] = []
    established: list[SimSocket] = []
    started: list[str] = []
    never_started = [False]

    def script(sock: SimSocket, addr: tuple) -> Any:
        o = outcome_of[addr[0]]
        started.append(addr[0])
        if o[0] == "ok":
            if o[1]:
                world.fault("delay")

            def on_peer(peer: SimSocket, sock: SimSocket = sock) -> None:
                peers.append(peer)
                established.append(sock)

            return ("ok", o[1] * GRID / 64.0, on_peer)
        if o[0] == "err":
            world.fault("connect_fail")
            return ("err", o[1] * GRID / 64.0, o[2], o[3])
        world.fault("connect_never")
        never_started[0] = True
        return ("never", 0)

    net.connect_script = script

    def dgram_fault(sock: SimSocket, addr: tuple) -> OSError | None:
        o = outcome_of[addr[0]]
        started.append(addr[0])
        if o[0] == "err":
            world.fault("connect_fail")
            return OSError(o[2], os.strerror(o[2]))
        established.append(sock)
        return None

    net.dgram_connect_fault = dgram_fault

    nsock = [0]
    emfile = set(sc["emfile"])

    def socket_fault(family: int, type: int, proto: int) -> OSError | None:
        k = nsock[0]
        nsock[0] += 1
        if k in emfile:
            world.fault("socket_emfile")
            return OSError(errno.EMFILE, os.strerror(errno.EMFILE))
        return None

    net.socket_fault = socket_fault

    nbind = [0]
    bind_fail = set(sc["bind_fail"])

    def plan(sock: SimSocket, op: str) -> OSError | None:
        if op != "bind":
            return None
        k = nbind[0]
        nbind[0] += 1
        if k in bind_fail:
            world.fault("bind_fail")
            code = errno.EADDRINUSE if k % 2 == 0 else errno.EADDRNOTAVAIL
            return OSError(code, os.strerror(code))
        return None

    net.fault_plan = plan

    # per-address bind faults: the address is in use / not configured on this host, so EVERY bind() on it fails
    lfault = {ip: code for (_, ip), code in zip(sc["locals"], sc.get("lfault", ())) if code}
    sim_bind = net.bind

    def bind(sock: SimSocket, address: Any) -> None:
        if address is not None and address[0] in lfault:
            world.fault("bind_fail")
            world.log("bind_fail", sock.label, address[0], lfault[address[0]])
            raise OSError(lfault[address[0]], os.strerror(lfault[address[0]]))
        sim_bind(sock, address)

    if lfault:
        net.bind = bind  # type: ignore[method-assign]

    hed = _hed_value(sc)
    local_address = ("sim.local", 0) if sc["locals"] else None
    res: dict[str, Any] = {"outcome": None, "exc": None, "J": None, "user_cancel": False, "cancel_sent": False, "hang": False, "cancel_hang": False}
    holder: dict[str, Any] = {}

    async def connector() -> int:
        if mode == "resolver":
            sock = await AsyncIODNSResolver().create_stream_connection(backend, "sim.host", PORT, local_address=local_address, happy_eyeballs_delay=math.inf if hed is None else hed)
            holder["sock"] = sock
            return sock.fileno()
        if mode == "backend":
            tr = await backend.create_tcp_connection("sim.host", PORT, local_address=local_address, happy_eyeballs_delay=hed)
            holder["transport"] = tr
            return tr.extra(INETSocketAttribute.socket).fileno()
        if mode == "client":
            client = holder["client"]
            await client.wait_connected()
            if not client.is_connected():
                raise HarnessError("wait_connected() returned but is_connected() is False")
            return client.socket.fileno()
        if mode == "udp":
            tr = await backend.create_udp_endpoint("sim.host", PORT, local_address=local_address)
            holder["transport"] = tr
            return tr.extra(INETSocketAttribute.socket).fileno()
        raise HarnessError(mode)

    async def amain() -> None:
        loop = asyncio.get_running_loop()
        if perturb:
            # no spurious readiness here: asyncio (like every connect() user) reads "writable + SO_ERROR == 0" as
            # "connected", so a spurious write event on a connecting socket would be a simulator artefact
            sel = loop.sim_selector  # type: ignore[attr-defined]
            sel.hold_den = draw_rate(world, "sw.hold", (0, 0, 8, 3))
            sel.reorder = bool(world.choose("sw.reorder", 2))
        if mode == "client":
            kw: dict[str, Any] = {}
            if hed is not None:
                kw["happy_eyeballs_delay"] = hed
            if local_address is not None:
                kw["local_address"] = local_address
            holder["client"] = AsyncTCPNetworkClient(("sim.host", PORT), StreamProtocol(StringLineSerializer()), backend, **kw)
        task = loop.create_task(connector(), name="connector")
        it0 = world.counters["loop_iterations"]
        t_start = world.now
        closers: list[asyncio.Task] = []

        def on_done(_t: Any) -> None:
            res["J"] = world.counters["loop_iterations"] - it0

        task.add_done_callback(on_done)

        def do_cancel(why: str, force_task: bool = False) -> None:
            if cancel_kind == "aclose" and not force_task:
                # the other documented way to abort a pending connect: client.aclose() from another task
                if not closers and not task.done():
                    closers.append(loop.create_task(holder["client"].aclose(), name="closer"))
                    res["cancel_sent"] = res["aclose_started"] = res["user_cancel"] = True
                    res["aclose_before_hang"] = world.now < t_start + CAP  # not: after the hang timer has fired
                    world.fault(why)
                    world.log("aclose", "closer", label)
                return
            if task.cancel():
                res["cancel_sent"] = True
                if not force_task:
                    res["user_cancel"] = True
                world.fault(why)
                world.log("cancel", "connector", label)

        def hook() -> None:
            if cancel_iter is not None and world.counters["loop_iterations"] - it0 == cancel_iter:
                do_cancel("cancel_at_iteration")
                # the hook runs inside select(): callbacks it made ready must not wait for the next network event
                loop._write_to_self()  # type: ignore[attr-defined]

        world.iteration_hooks.append(hook)
        if cancel_time is not None:
            loop.call_at(cancel_time, do_cancel, "cancel_at_time")
        try:
            _, pending = await asyncio.wait([task], timeout=CAP)
            if pending:
                res["hang"] = True
                do_cancel("cancel_at_time", True)
                _, pending = await asyncio.wait([task], timeout=CAP)
                if pending:
                    res["cancel_hang"] = True
                    return
        finally:
            world.iteration_hooks.remove(hook)
        if closers:
            _, pending = await asyncio.wait(closers, timeout=CAP)
            res["aclose_hang"] = bool(pending)
            if not pending and not closers[0].cancelled() and closers[0].exception() is not None:
                res["aclose_exc"] = closers[0].exception()
        if task.cancelled():
            res["outcome"] = "cancelled"
        elif task.exception() is not None:
            res["outcome"] = "exc"
            res["exc"] = task.exception()
        else:
            res["outcome"] = "ok"
            res["ret_fd"] = task.result()
            res["cancelling"] = task.cancelling()
        # let the loop go idle: pending call_soon close callbacks, late connect completions
        await asyncio.sleep(2.0)
        for _ in range(3):
            await asyncio.sleep(0)
        lib = [s for s in world.sockets if not any(s is p for p in peers)]
        res["lib_total"] = len(lib)
        res["open"] = [(s.label, s.fileno(), bool(s.connected), s.peername[0] if s.peername else None, s.sockname[0] if s.sockname else None) for s in lib if not s.sim_closed]
        res["established"] = [s.label for s in established]
        # tidy up (not part of the oracle)
        try:
            if "client" in holder and res["outcome"] == "ok" and not closers:
                await holder["client"].aclose()
            elif "transport" in holder:
                await holder["transport"].aclose()
            elif "sock" in holder:
                holder["sock"].close()
        except Exception:
            pass
        await asyncio.sleep(0)

    try:
        with sim_sockets(net):
            run_async(world, amain, det_tasks=True)
        res["started"] = list(started)
        res["nsock"] = nsock[0]
        res["never_started"] = never_started[0]
        world.log("outcome", mode, label, res["outcome"], type(res["exc"]).__name__ if res["exc"] is not None else "", len(res.get("open", ())))
    finally:
        # the trace of a run ends with the run: sockets leaked by a (mutated) library are closed later by finalizers at a
        # GC-dependent moment; those late ``close`` records must not reach the digest
        world.log = lambda *a, **k: None  # type: ignore[method-assign]
    return res


# ------------------------------------------------------------------------------------------------------ oracle
def _leaves(exc: BaseException) -> list[BaseException]:
    if isinstance(exc, BaseExceptionGroup):
        out: list[BaseException] = []
        for e in exc.exceptions:
            out.extend(_leaves(e))
        return out
    return [exc]


def _describe(sc: dict, res: dict, extra: str) -> str:
    exc = res.get("exc")
    return (
        f"{extra} mode={sc['mode']} addrs={sc['addrs']} outcomes={sc['outcomes']} happy_eyeballs_delay={_hed_value(sc)} emfile={sc['emfile']} "
        f"locals={sc['locals']} unbindable_local_addresses={_unbindable(sc)} failing_bind_calls={sc['bind_fail']} | outcome={res['outcome']} exc={type(exc).__name__ if exc is not None else None}"
        f"{[type(e).__name__ + ':' + str(getattr(e, 'errno', '')) for e in _leaves(exc)] if exc is not None else ''} returned_fd={res.get('ret_fd')} "
        f"open_library_sockets={res.get('open')} established={res.get('established')} attempts_started={res.get('started')} socket_calls={res.get('nsock')} cancel_sent={res['cancel_sent']} hang={res['hang']}"
    )


def _check(world: World, sc: dict, res: dict, family: str, extra: str = "") -> None:
    mode = sc["mode"]
    base = f"C19/{family}/{mode}"

    def bad(clause: str) -> Violation:
        return Violation(clause, _describe(sc, res, extra), key=f"{base}/{clause}")

    if res["cancel_hang"]:
        raise bad("cancelled-connect-terminates")
    if res["hang"] and not res["never_started"]:
        # every started attempt has a finite completion time: the call has to finish (and report) by itself
        raise bad("connect-terminates")
    out = res["outcome"]
    opened = res["open"]
    world.probe("outcome_" + str(out))
    if len(res["established"]) >= 2:
        world.probe("two_or_more_attempts_connected")
    if res["hang"]:
        world.probe("hang_behind_never_attempt")
    if out == "ok" and res["cancel_sent"]:
        world.probe("success_despite_cancel_request")
        if not res.get("aclose_started"):
            # "if the connect is cancelled at any point, every socket is closed and the failure is reported": task.cancel()
            # returned True, i.e. the connecting task was not done and a CancelledError is thrown into the connect call at
            # its current await.  A connect that returns a socket all the same has swallowed the caller's cancellation
            # (the request is lost: nothing re-delivers it) and hands out a socket to a caller that gave up.
            raise bad("cancelled-connect-reports-cancellation")
    if res.get("aclose_started"):
        # connect aborted by client.aclose(): once aclose() has returned nothing may stay open, whatever wait_connected() saw
        if res.get("aclose_hang"):
            raise bad("aclose-terminates")
        if res["hang"] and res.get("aclose_before_hang"):
            raise bad("aclose-aborts-pending-connect")
        if res.get("aclose_exc") is not None:
            world.probe("aclose_raised_" + type(res["aclose_exc"]).__name__)
        if opened:
            raise bad("closed-client-no-open-socket")
        if out == "cancelled" and not res["hang"]:
            raise bad("cancelled-without-cancel")
        if out == "exc":
            leaves = _leaves(res["exc"])
            if not leaves or not all(isinstance(e, (OSError, ClientClosedError)) for e in leaves):
                raise bad("failure-reported-as-oserror-group")
        if out == "ok":
            world.progress(1)
        return
    if out == "ok":
        world.progress(1)
        if len(opened) != 1:
            raise bad("success-exactly-one-open-socket")
        label, fd, connected, peer_ip, local_ip = opened[0]
        if fd != res["ret_fd"]:
            raise bad("success-open-socket-is-the-returned-one")
        if not connected or label not in res["established"]:
            raise bad("success-returned-socket-is-connected")
        if sc["locals"]:
            # local_address was requested: the returned socket is bound to one of its addresses, of the family of the peer,
            # on which bind() can succeed
            fam_of = {ip: fam for fam, ip in sc["addrs"]}
            if local_ip not in (_bindable(sc, fam_of[peer_ip]) or ()):
                raise bad("success-socket-bound-to-a-bindable-local-address")
            ips = [ip for _, ip in sc["locals"]]
            if any(fam == fam_of[peer_ip] and ip in _unbindable(sc) for fam, ip in sc["locals"][: ips.index(local_ip)]):
                world.probe("bound_to_a_later_local_address_after_a_bind_error")
    else:
        if opened:
            raise bad("failure-no-open-socket")
        if out == "cancelled":
            if not res["cancel_sent"]:
                raise bad("cancelled-without-cancel")
        else:
            leaves = _leaves(res["exc"])
            if not leaves or not all(isinstance(e, OSError) for e in leaves):
                raise bad("failure-reported-as-oserror-group")
        if res["established"] and not res["cancel_sent"]:
            raise bad("an-attempt-succeeded-but-no-socket-returned")
    # ---- model-based clauses (independent of the order in which the library races the addresses)
    if res["user_cancel"]:
        return
    n = len(sc["addrs"])
    if out == "exc" and not res["hang"] and res["nsock"] != n:
        # every failing attempt costs exactly one socket() call: all attempts failed <=> every resolved address was tried
        raise bad("all-fail-means-every-address-was-attempted")
    if out == "ok" and not (1 <= res["nsock"] <= n):
        raise bad("one-socket-per-attempted-address")
    # reachable = the peer accepts AND (no local_address requested, or some local address of that family can be bound)
    reachable = [a[1] for a, o in zip(sc["addrs"], sc["outcomes"]) if o[0] == "ok" and _bindable(sc, a[0]) != []]
    if sc["locals"] and not reachable and any(o[0] == "ok" for o in sc["outcomes"]):
        world.probe("accepting_address_without_bindable_local_address")
    if reachable and not sc["emfile"] and not sc["bind_fail"]:
        # some resolved address accepts the connection (from a local address which can be bound, if local_address is given)
        # and nothing but the scripted outcomes / per-address bind errors can fail an attempt: every
        # address is attempted eventually unless an earlier one wins, so the call has to succeed.  Only a 'never' attempt
        # with an infinite stagger delay may legitimately keep the race from ever reaching it.
        clause = "reachable-address-with-bindable-local-address-must-connect" if sc["locals"] else "reachable-address-must-connect"
        blocked_ok = math.isinf(_hed_effective(sc)) and any(o[0] == "never" for o in sc["outcomes"])
        if res["hang"]:
            if not blocked_ok:
                raise bad(clause)
        elif out != "ok":
            raise bad(clause)


# ------------------------------------------------------------------------------------------------------ harnesses
def _notes(world: World, sc: dict, **kw: Any) -> None:
    world.notes.update(mode=sc["mode"], addrs=[a[1] for a in sc["addrs"]], outcomes=[list(o) for o in sc["outcomes"]], hed=str(_hed_value(sc)), emfile=sc["emfile"], locals=[a[1] for a in sc["locals"]], unbindable=_unbindable(sc), bind_fail=sc["bind_fail"], **kw)  # type: ignore[attr-defined]


def _h_race(world: World, modes: tuple[str, ...]) -> None:
    sc = _draw_scenario(world, modes)
    cancel_iter = cancel_time = None
    c = world.choose("cancel", 4)  # 0,1: none | 2: at iteration | 3: at time
    if c == 2:
        cancel_iter = 1 + world.choose("cancel_iter", 40)
    elif c == 3:
        cancel_time = world.choose("cancel_t", 12) * GRID / 64.0 + (1 / 128.0 if world.choose("cancel_off", 2) else 0.0)
    perturb = bool(world.choose("perturb", 2))
    _notes(world, sc, cancel_iter=cancel_iter, cancel_time=cancel_time, perturb=perturb)
    res = _run(world, sc, cancel_iter=cancel_iter, cancel_time=cancel_time, perturb=perturb)
    _check(world, sc, res, "race")


def _h_sweep(world: World, modes: tuple[str, ...], cancel_kind: str = "task") -> None:
    sc = _draw_scenario(world, modes)
    _notes(world, sc)
    bw = World(parent=world)
    bw.quiet = True
    base = _run(bw, sc, label="base")
    _check(world, sc, base, "sweep-base")
    J = base["J"]
    if J is None:
        raise HarnessError("base run finished without recording J")
    world.notes["J"] = J  # type: ignore[attr-defined]
    for j in range(1, J + 2):
        child = World(parent=world)
        child.quiet = True
        res = _run(child, sc, cancel_iter=j, label=f"j{j}", cancel_kind=cancel_kind)
        if res["cancel_sent"]:
            world.probe("sweep_cancel_delivered")
        what = "task.cancel()" if cancel_kind == "task" else "client.aclose() started"
        _check(world, sc, res, "sweep" if cancel_kind == "task" else "sweep-aclose", extra=f"{what} before loop iteration j={j} of {J} (base outcome {base['outcome']});")
    world.probe("sweep_points", J + 1)


HARNESSES = [
    Harness("sweep-tcp", lambda w: _h_sweep(w, TCP_MODES), weight=3, wall_limit=60.0),
    Harness("sweep-udp", lambda w: _h_sweep(w, ("udp",)), weight=1, wall_limit=60.0),
    Harness("sweep-aclose", lambda w: _h_sweep(w, ("client",), "aclose"), weight=1, wall_limit=60.0),
    Harness("race-tcp", lambda w: _h_race(w, TCP_MODES), weight=3),
    Harness("race-udp", lambda w: _h_race(w, ("udp",)), weight=1),
]
