"""C17 — one client's failure (handler hook or connection set-up) never affects the others (DESIGN §4 C17).

Real code: ``AsyncTCPNetworkServer`` / ``AsyncUDPNetworkServer`` and everything below them (servers/misc.py handler
builders, low-level stream/datagram servers, asyncio listener + accepted-socket factory, transports, task groups)
plus ``AsyncTCPNetworkClient`` for the healthy TCP clients, all on ``SimEventLoop`` + ``SimAsyncIOBackend``.
Stub: sockets/network/selector/clock, the faulty client (a scripted raw peer) and the request handler (scripted:
answers ``R:<request>``; raises the planned exception once at the planned hook position for the faulty client).

Transport variants: the TCP harness is parameterised by a ``Variant`` object created per run (server kwargs,
healthy-client kwargs, raw faulty-peer factory, set-up fault kinds, link swarm, "set-up cannot have completed" rule).
``PlainTCP`` and ``TLSTCP`` (server ``ssl=``; healthy clients = real ``AsyncTCPNetworkClient(ssl=...)``; faulty client =
reference ``vsim.tls.TLSPeer``; extra set-up faults: garbage instead of a ClientHello, stalled handshake -> handshake
timeout, FIN / RST at a byte offset inside or right after the handshake).  Both variants: the faulty client may reset its
connection in the same instant as (or 1-2 ticks after) the request its handler fault is planned on - everything it wrote is
delivered first, then the RST - and the handler may close the client itself at that request.  Extra TLS oracle clause: no handler hook ran
for a connection whose handshake cannot have completed (the server saw fewer bytes than the client's whole handshake).

Oracle (exactly the property statement): serve_forever is still running; every healthy client got the correct
answer to every request (before, during and after the fault, plus one request on a connection opened after the
fault); TCP: the faulty connection's server-side socket ends closed and on_disconnection ran iff on_connection had
completed; UDP: a later datagram from the faulty address is answered by a generator started after the fault (for an
always-failing client: starts a generator); a client never has more generators than datagrams that reached the server (a
datagram whose generator ended before its first yield is discarded, not replayed); once no datagram arrives the loop goes idle.

UDP queue / re-spawn harness (``udp-respawn``): the faulty client's first generator is parked on a gate while more datagrams
of the same address are queued behind it, then returns or raises; the re-spawned generators answer / raise before their
first yield / raise on receiving the request without a checkpoint / return before their first yield; further datagrams of
the same address are delivered aligned (same loop iteration, +-1) with the release; the loop's task factory is the default
one or ``asyncio.eager_task_factory`` (SimTask instances started eagerly).  Oracle: serve_forever still running; every
datagram of the faulty client that reached the server started its own generator, those whose generator answers are
answered; a later datagram is answered by a fresh generator; healthy clients and a new address are served; idle afterwards.
"""
from __future__ import annotations

import asyncio
import errno
import logging
import math
import os
import socket as _socket
from typing import Any, Callable

from easynetwork.clients.async_tcp import AsyncTCPNetworkClient
from easynetwork.exceptions import (
    ClientClosedError,
    DatagramProtocolParseError,
    DeserializeError,
    IncrementalDeserializeError,
    StreamProtocolParseError,
)
from easynetwork.protocol import BufferedStreamProtocol, DatagramProtocol, StreamProtocol
from easynetwork.serializers.line import StringLineSerializer
from easynetwork.servers.async_tcp import AsyncTCPNetworkServer
from easynetwork.servers.async_udp import AsyncUDPNetworkServer
from easynetwork.servers.handlers import AsyncDatagramRequestHandler, AsyncStreamRequestHandler, INETClientAttribute

from vsim.backend import SimAsyncIOBackend, sim_sockets
from vsim.harness import Peer
from vsim.loop import SimTask, loop_goes_idle, run_async, wait_until
from vsim.runner import Harness
from vsim.sock import Delivery, SimNet, SimSocket
from vsim.tls import TLSPeer, make_context
from vsim.world import HarnessError, Violation, World

PROPERTY = "C17"
LEVEL = "exploration"
RULE = (
    "one run = a real TCP or UDP server, 1-3 healthy clients doing 2-5 request/response rounds with drawn gaps (so that "
    "requests fall before, during and after the fault) plus one more request after all faults and one connection opened "
    "after them, and 1-2 faulty clients; fault = exception class {ValueError, custom Exception, ExceptionGroup, mixed "
    "ExceptionGroup(ConnectionError+ClientClosedError+ValueError), ConnectionResetError, BrokenPipeError, ClientClosedError, "
    "TimeoutError, re-raised/constructed parse error, RuntimeError, OSError(EBADF)} x hook position {on_connection as coroutine, "
    "on_connection generator before/after its yield, handle before first yield, after n-th request before/after the answer, "
    "while handling a thrown parse error or yielded-timeout error, on_disconnection; TCP also: the handler closes the client itself at the "
    "n-th request, before/after answering} x TCP: the faulty client ends with FIN, or RESETS its connection 0/1/2 ticks after its trigger write "
    "(the request the hook fault is planned on, the bad line, its last request; 0 = request and RST reach the server in the same instant, so "
    "the server closes a connection whose RST has already arrived: shutdown() -> ENOTCONN) x TCP set-up fault {getpeername ENOTCONN "
    "on the accepted socket, setsockopt error inside connect_accepted_socket (ENOTCONN/EINVAL/ECONNRESET), the listener's next 1-2 "
    "accept() calls fail with an errno the listener documents as survivable (15 'ignorable' ones incl. ECONNABORTED/EPROTO, 4 "
    "'capacity' ones: EMFILE/ENFILE/ENOMEM/ENOBUFS -> 0.1 s pause; names hard-coded in the check, not imported), peer RST right "
    "after connect, peer FIN right after connect; TLS harness (TLS 1.2/1.3 server, real TLS clients, reference-TLS faulty peer) adds: "
    "garbage instead of a ClientHello, stalled handshake -> handshake timeout, FIN or RST after k bytes of the client's handshake "
    "(k in record header / ClientHello / its end / second flight / exact end / application data) ; UDP 'handle before first yield' comes in three strengths: once, for every generator started during the client's "
    "script, always (the client's handler never reaches its first yield)} x handle-generator length "
    "{1,2,3,unbounded} x protocol {copy, buffered} x link fragmentation/delay; a third of the runs have no handler/set-up fault; "
    "UDP queue/re-spawn harness: loop task factory {default, asyncio.eager_task_factory} x first generator of the faulty address parked "
    "{before its first yield, after receiving the request} on a gate with 0-3 datagrams of the same address queued behind it, released "
    "0-2 loop iterations after a loop timer, ending by {answer+return, return, raise, raise after answering} x exception class x "
    "each re-spawned generator in {answers, raises before its first yield, raises on receiving the request without any checkpoint, "
    "returns before its first yield} x 0-2 more datagrams of the same address delivered at the timer's instant or from a loop callback "
    "0-2 iterations after it (covers a datagram handled between the end of a client's task and the first step of the re-spawned one, "
    "and nested re-spawns under eager tasks)"
)
COMPONENTS_REAL = [
    "easynetwork.servers.async_tcp / async_udp / misc / _base",
    "easynetwork.lowlevel.api_async.servers.stream / datagram",
    "easynetwork.lowlevel.api_async.backend._asyncio (listener, accepted socket factory, stream/datagram transports, tasks)",
    "easynetwork.clients.async_tcp (healthy TCP clients)",
    "easynetwork.lowlevel.api_async.transports.tls (AsyncTLSListener, AsyncTLSStreamTransport) + OpenSSL via ssl, both ends",
    "asyncio selector event loop, transports, TaskGroup",
]
COMPONENTS_STUB = ["SimSocket/SimNet/SimSelector/virtual clock", "faulty client = scripted raw peer (TLS: vsim.tls.TLSPeer, stdlib ssl over MemoryBIO)", "healthy UDP clients = injected datagrams", "request handler = scripted (part of the workload)"]
ASSUMPTIONS = [
    "a reset right after accept is modelled as getpeername()->ENOTCONN (Linux) or setsockopt()->ENOTCONN/EINVAL/ECONNRESET (BSD/macOS) on the accepted socket, or as ECONNRESET on the first recv",
    "service_init faults are excluded (server-wide by documentation)",
    "udp-respawn: eager task factory = asyncio.create_eager_task_factory(SimTask) installed on the running loop before the server is created (the main task itself is not eager)",
]
BUDGET = {"quick": 40, "thorough": 480}

HOST = "127.0.0.1"
PORT = 5000
U = 1 / 64.0
WAIT = 30.0  # virtual seconds a healthy client waits for one answer
CLOSE_WAIT = 90.0  # virtual seconds within which the faulty connection has to be closed after its script ended


class CustomError(Exception):
    pass


# accept(2) errors the listener documents as survivable (lowlevel/constants.py).  The names are spelled out HERE on
# purpose: importing the repo's constants would make the check blind to a change of those very sets.
IGNORABLE_ACCEPT_NAMES = (
    "EPERM", "ECONNABORTED", "EPROTO", "ENETDOWN", "ENOPROTOOPT", "EHOSTDOWN", "ENONET", "EHOSTUNREACH", "EOPNOTSUPP",
    "ENETUNREACH", "ENOSR", "ESOCKTNOSUPPORT", "EPROTONOSUPPORT", "ETIMEDOUT", "ECONNRESET",
)  # "can be skipped": the accept loop just goes on
CAPACITY_ACCEPT_NAMES = ("EMFILE", "ENFILE", "ENOMEM", "ENOBUFS")  # accepting pauses 0.1 s, then goes on
ACCEPT_ERRNOS: tuple[tuple[str, int, str], ...] = tuple(
    (name, getattr(errno, name), kind)
    for kind, names in (("ignorable", IGNORABLE_ACCEPT_NAMES), ("capacity", CAPACITY_ACCEPT_NAMES))
    for name in names
    if hasattr(errno, name)
)


EXC_KINDS = ("ValueError", "Custom", "Group", "GroupMixed", "ConnectionResetError", "BrokenPipeError", "ClientClosedError", "TimeoutError", "Parse", "RuntimeError", "EBADF")


def _make_exc(kind: str, thrown: BaseException | None, datagram: bool) -> BaseException:
    if kind == "ValueError":
        return ValueError("boom")
    if kind == "Custom":
        return CustomError("boom")
    if kind == "Group":
        return ExceptionGroup("boom", [ValueError("a"), CustomError("b")])
    if kind == "GroupMixed":
        return ExceptionGroup("boom", [ConnectionResetError(errno.ECONNRESET, "reset"), ClientClosedError("closed"), ExceptionGroup("inner", [ValueError("v")])])
    if kind == "ConnectionResetError":
        return ConnectionResetError(errno.ECONNRESET, os.strerror(errno.ECONNRESET))
    if kind == "BrokenPipeError":
        return BrokenPipeError(errno.EPIPE, os.strerror(errno.EPIPE))
    if kind == "ClientClosedError":
        return ClientClosedError("Closed client")
    if kind == "TimeoutError":
        return TimeoutError("handler timed out")
    if kind == "Parse":
        if isinstance(thrown, (StreamProtocolParseError, DatagramProtocolParseError)):
            return thrown  # re-raise what the server threw into the generator
        if datagram:
            return DatagramProtocolParseError(DeserializeError("made up"))
        return StreamProtocolParseError(b"", IncrementalDeserializeError("made up", b""))
    if kind == "RuntimeError":
        return RuntimeError("boom")
    if kind == "EBADF":
        return OSError(errno.EBADF, os.strerror(errno.EBADF))
    raise HarnessError(kind)


class _ProbeLogger(logging.Logger):
    """log records are only counted (probes); nothing is formatted or emitted"""

    def __init__(self, world: World):
        super().__init__("c17")
        self._world = world

    def isEnabledFor(self, level: int) -> bool:
        return level >= logging.WARNING

    def _log(self, level: int, msg: object, args: Any, **kw: Any) -> None:  # type: ignore[override]
        self._world.probe("log_error" if level >= logging.ERROR else "log_warning")


# ====================================================================================================== plans
class Plan:
    """what goes wrong for one faulty client"""

    def __init__(self, name: str):
        self.name = name
        self.position: str | None = None  # hook position of the handler fault
        self.exc = "ValueError"
        self.n = 1  # handle_nth: after the n-th request of the connection/address
        self.post_send = False  # handle_nth: raise after (True) or before (False) answering
        self.thrown = "parse"  # handle_thrown: parse | timeout
        self.setup: str | None = None  # TCP only
        self.setup_errno = errno.ENOTCONN
        self.setup_k = 0  # TLS mid-handshake faults: index into the candidate byte offsets
        self.accept_errnos: list[str] = []  # setup "accept": names of the errors the next accept() calls fail with
        self.hs_failed: bool | None = None  # TLS: True when the server cannot have completed the handshake
        self.start = 0  # in U
        self.pre = 0  # good requests before the fault trigger
        self.post = 0  # good requests after it
        self.gap = 1  # U between writes
        self.fired = False
        self.fired_at_gens = 0
        self.repeat = False  # UDP handle_pre: EVERY generator started for the address before window_end dies before its first yield
        self.forever = False  # ... and window_end is never: this client's handler always fails before its first yield
        self.window_end = 0.0
        self.fired_count = 0
        # TCP: the client RESETS its connection this many ticks (1/64 s) after its trigger write (the request the handler
        # fault is planned on / the bad line / its last scripted request); 0 = in the same instant: request and RST are
        # found by the same select() call, the server closes a connection whose RST has already arrived.  None = FIN at the end.
        self.rst_after: int | None = None

    def describe(self) -> dict:
        return {k: getattr(self, k) for k in ("name", "position", "exc", "n", "post_send", "thrown", "setup", "setup_errno", "setup_k", "accept_errnos", "repeat", "forever", "rst_after", "start", "pre", "post", "gap", "fired")}


class ConnState:
    def __init__(self) -> None:
        self.entered = False
        self.conn_done = False
        self.disc = 0
        self.gens = 0
        self.nreq = 0
        self.plan: Plan | None = None
        self.served: list[tuple[str, int]] = []  # (request, generator index) in answer order


def _draw_plan(world: World, name: str, positions: tuple[str, ...], setups: tuple[str, ...], faulty: bool) -> Plan:
    p = Plan(name)
    p.start = world.choose("f.start", 48)
    p.gap = 1 + world.choose("f.gap", 8)
    p.pre = world.choose("f.pre", 4)
    p.post = world.choose("f.post", 3)
    if not faulty:
        return p
    kind = world.choose("f.kind", 4)  # 0,1,2: handler fault | 3: set-up fault (TCP) | both when kind==2 and setups exist
    if setups and kind >= 2:
        p.setup = setups[world.choose("f.setup", len(setups))]
        p.setup_errno = (errno.ENOTCONN, errno.EINVAL, errno.ECONNRESET)[world.choose("f.setup_errno", 3)]
        p.setup_k = world.choose("f.setup_k", 10)
        if p.setup == "accept":
            p.accept_errnos = [ACCEPT_ERRNOS[world.choose("f.accept_errno", len(ACCEPT_ERRNOS))][0] for _ in range(1 + world.choose("f.accept_n", 2))]
    if kind <= 2 or not setups:
        p.position = positions[world.choose("f.pos", len(positions))]
        p.exc = EXC_KINDS[world.choose("f.exc", len(EXC_KINDS))]
        p.n = 1 + world.choose("f.n", 3)
        p.post_send = bool(world.choose("f.post_send", 2))
        p.thrown = "timeout" if world.choose("f.thrown", 2) else "parse"
        if p.position == "handle_nth":
            p.pre = max(p.pre, p.n)
        if p.position == "handle_pre" and not setups:  # datagram handler
            r = world.choose("f.repeat", 3)  # 0 once | 1 every generator during the client's script | 2 always
            p.repeat = r > 0
            p.forever = r == 2
        if p.position == "handle_close":
            p.pre = max(p.pre, p.n)
    if setups and p.setup is None:
        r = world.choose("f.rst_after", 4)  # 0 FIN at the end | 1 RST in the same instant as the trigger write | 2, 3: 1-2 ticks later
        p.rst_after = r - 1 if r else None
    return p


# ====================================================================================================== handlers
class _HandlerCommon:
    datagram = False

    def _init(self, world: World, reqs_per_gen: int) -> None:
        self.world = world
        self.reqs_per_gen = reqs_per_gen
        self.states: dict[Any, ConnState] = {}
        self.plans: dict[Any, Plan] = {}

    def _state(self, key: Any) -> ConnState:
        st = self.states.get(key)
        if st is None:
            st = self.states[key] = ConnState()
            st.plan = self.plans.get(key)
        return st

    def _maybe(self, st: ConnState, pos: str, *, post_send: bool | None = None, thrown: BaseException | None = None) -> None:
        plan = st.plan
        if plan is None or plan.position != pos:
            return
        if plan.fired and not (plan.repeat and pos == "handle_pre" and self.world.now < plan.window_end and plan.fired_count < 100_000):
            return
        if pos == "handle_nth" and (st.nreq != plan.n or post_send != plan.post_send):
            return
        if pos == "handle_thrown":
            want = (StreamProtocolParseError, DatagramProtocolParseError) if plan.thrown == "parse" else (TimeoutError,)
            if not isinstance(thrown, want):
                return
        plan.fired = True
        plan.fired_at_gens = st.gens
        plan.fired_count += 1
        if plan.fired_count <= 64:  # a runaway respawn loop (what the oracle is after) must not flood trace and counters
            self.world.fault("handler_raises")
            self.world.probe("raise@" + pos + ("+repeat" if plan.fired_count > 1 else ""))
            self.world.log("raise", plan.name, pos, plan.exc)
        raise _make_exc(plan.exc, thrown, self.datagram)


class TCPHandler(_HandlerCommon, AsyncStreamRequestHandler[str, str]):
    def __init__(self, world: World, shape: str, reqs_per_gen: int):
        self._init(world, reqs_per_gen)
        self.shape = shape

    def _st(self, client: Any) -> ConnState:
        return self._state(client.extra(INETClientAttribute.remote_address).port)

    def on_connection(self, client: Any) -> Any:
        return self._on_conn_gen(client) if self.shape == "gen" else self._on_conn_coro(client)

    async def _on_conn_coro(self, client: Any) -> None:
        st = self._st(client)
        st.entered = True
        self._maybe(st, "on_conn_coro")
        st.conn_done = True

    async def _on_conn_gen(self, client: Any) -> Any:
        st = self._st(client)
        st.entered = True
        self._maybe(st, "on_conn_pre")
        hello = yield
        await client.send_packet("H:" + hello)
        self._maybe(st, "on_conn_post")
        st.conn_done = True

    async def on_disconnection(self, client: Any) -> None:
        st = self._st(client)
        st.disc += 1
        self._maybe(st, "on_disc")

    async def handle(self, client: Any) -> Any:
        st = self._st(client)
        st.gens += 1
        gen = st.gens
        self._maybe(st, "handle_pre")
        plan = st.plan
        k = 0
        while k < self.reqs_per_gen:
            timeout = 0.5 if (plan is not None and not plan.fired and plan.position == "handle_thrown" and plan.thrown == "timeout" and st.nreq >= plan.pre) else None
            try:
                req = yield timeout
            except StreamProtocolParseError as exc:
                self._maybe(st, "handle_thrown", thrown=exc)
                await client.send_packet("E:parse")
                continue
            except TimeoutError as exc:
                self._maybe(st, "handle_thrown", thrown=exc)
                await client.send_packet("E:timeout")
                continue
            k += 1
            st.nreq += 1
            self._maybe(st, "handle_nth", post_send=False)
            if plan is not None and plan.position == "handle_close" and not plan.fired and st.nreq == plan.n:
                # not a failure of the hook: the handler gets rid of the client on this request (answers first or not)
                plan.fired = True
                plan.fired_at_gens = st.gens
                self.world.fault("handler_closes_client")
                self.world.probe("close@handle_nth")
                self.world.log("handler_close", plan.name, plan.post_send)
                if plan.post_send:
                    await client.send_packet("R:" + req)
                await client.aclose()
                return
            await client.send_packet("R:" + req)
            st.served.append((req, gen))
            self._maybe(st, "handle_nth", post_send=True)


class UDPHandler(_HandlerCommon, AsyncDatagramRequestHandler[str, str]):
    datagram = True

    def __init__(self, world: World, reqs_per_gen: int):
        self._init(world, reqs_per_gen)
        self.on_gen_start: Callable[[tuple, ConnState], None] | None = None  # oracle hook (generator-per-datagram accounting)

    async def handle(self, client: Any) -> Any:
        addr = client.extra(INETClientAttribute.remote_address)
        st = self._state((addr.host, addr.port))
        st.gens += 1
        gen = st.gens
        if self.on_gen_start is not None:
            self.on_gen_start((addr.host, addr.port), st)
        self._maybe(st, "handle_pre")
        plan = st.plan
        k = 0
        while k < self.reqs_per_gen:
            if plan is not None and not plan.fired and plan.position == "handle_thrown" and plan.thrown == "timeout" and st.nreq >= plan.pre:
                timeout: float | None = 0.5
            else:
                timeout = 1.0 if k else None  # an idle generator of a multi-request handler ends after 1 s
            try:
                req = yield timeout
            except DatagramProtocolParseError as exc:
                self._maybe(st, "handle_thrown", thrown=exc)
                await client.send_packet("E:parse")
                continue
            except TimeoutError as exc:
                self._maybe(st, "handle_thrown", thrown=exc)
                return
            k += 1
            st.nreq += 1
            self._maybe(st, "handle_nth", post_send=False)
            await client.send_packet("R:" + req)
            st.served.append((req, gen))
            self._maybe(st, "handle_nth", post_send=True)


# ====================================================================================================== common scenario parts
def _draw_healthy(world: World) -> list[dict]:
    out = []
    for i in range(1 + world.choose("nhealthy", 3)):
        n = 2 + world.choose("h.nreq", 4)
        out.append({"name": f"h{i}", "start": world.choose("h.start", 32), "gaps": [world.choose("h.gap", 17) for _ in range(n)]})
    return out


def _draw_link(world: World, net: SimNet, faulty_run: bool) -> str:
    if not faulty_run or not world.chance("sw.link", 1, 2):
        return "whole"
    d = Delivery.draw(world, "link", max_delay=4)
    net.default_delivery = lambda name: Delivery(d.frag, d.size, d.delays)
    return f"frag={d.frag} size={d.size} delays={d.delays}"


def _freeze(world: World) -> None:
    """The trace of a run ends with the run: sockets that a (mutated) library leaked are closed later by finalizers,
    at a moment that depends on the garbage collector; those late ``close`` records must not reach the digest."""
    world.log = lambda *a, **k: None  # type: ignore[method-assign]


def _viol(family: str, clause: str, msg: str, site: str = "") -> Violation:
    return Violation(clause, msg, key=f"C17/{family}/{clause}" + (f"/{site}" if site else ""))


def _site(plans: list[Plan]) -> str:
    """structural site of a violation: what the (first fired / first configured) faulty client did"""
    for p in plans:
        if p.fired:
            return f"{p.position}/{p.exc}"
    for p in plans:
        if p.setup == "accept":
            return "setup-accept/" + "+".join(name for q in plans if q.setup == "accept" for name in q.accept_errnos)
        if p.setup:
            return f"setup-{p.setup}"
    return "nofault"


# ====================================================================================================== TCP
class Variant:
    """transport variant of the TCP harness (plain here; TLS plugs in the same way)"""

    name = "tcp"
    setups: tuple[str, ...] = ("getpeername", "setsockopt", "reset", "close", "accept", "accept")

    def __init__(self, world: World):
        """one instance per run; may draw run-wide parameters (TLS version...)"""
        self.world = world

    def notes(self) -> dict:
        return {}

    def draw_link(self, world: World, net: SimNet, faulty_run: bool) -> str:
        return _draw_link(world, net, faulty_run)

    def handshake_failed(self, plan: Plan, state: dict) -> bool:
        """True when the transport-level set-up of this faulty connection cannot have completed on the server
        side, i.e. no handler hook may have run for it"""
        return plan.setup in ("getpeername", "setsockopt")

    def server_kwargs(self) -> dict:
        return {}

    def client_kwargs(self) -> dict:
        return {}

    def raw_peer(self, world: World, sock: SimSocket, plan: Plan) -> Any:
        """scripted remote end used by the faulty client: needs write(bytes), fin(), reset(), close()"""
        return Peer(world, sock)

    def before_connect(self, world: World, plan: Plan, listener: SimSocket) -> None:
        """set-up fault "accept() itself fails": while this client's connection sits in the listen queue, the next
        1-2 accept() calls of the listener fail with a documented-survivable errno (ignorable: e.g. ECONNABORTED for a
        connection aborted in the queue; capacity: EMFILE & co, accepting pauses 0.1 s); the connection stays queued
        and is accepted afterwards"""
        if plan.setup != "accept":
            return
        pending: list[str] | None = getattr(listener, "c17_accept_faults", None)
        if pending is None:
            pending = listener.c17_accept_faults = []  # type: ignore[attr-defined]
            by_name = {name: (code, kind) for name, code, kind in ACCEPT_ERRNOS}

            def fp(sock: SimSocket, op: str) -> OSError | None:
                if op != "accept" or not pending:
                    return None
                name = pending.pop(0)
                code, kind = by_name[name]
                world.fault("accept_error")
                world.probe("setup@accept_" + kind)
                world.log("accept_fails", sock.label, name)
                return OSError(code, os.strerror(code))

            listener.fault_plan = fp
        pending.extend(plan.accept_errnos)

    def after_connect(self, world: World, plan: Plan, peer: Any) -> bool:
        """what the faulty peer does right after its connect() returned; True = the peer is gone (script stops)"""
        if plan.setup == "reset":
            world.fault("rst_at")
            world.probe("setup@reset")
            peer.reset()
            return True
        if plan.setup == "close":
            world.fault("fin_at")
            world.probe("setup@close")
            peer.close()
            return True
        return False

    def apply_setup_fault(self, world: World, plan: Plan, srv: SimSocket, peer_sock: SimSocket) -> None:
        """faults installed on the accepted socket at SYN time (before accept() returns it)"""
        if plan.setup == "getpeername":
            world.fault("accept_error")
            world.probe("setup@getpeername")

            def fp(sock: SimSocket, op: str) -> OSError | None:
                if op == "getpeername":
                    return OSError(errno.ENOTCONN, os.strerror(errno.ENOTCONN))
                return None

            srv.fault_plan = fp
        elif plan.setup == "setsockopt":
            world.fault("accept_error")
            world.probe("setup@setsockopt")
            code = plan.setup_errno

            def setsockopt(*a: Any, **kw: Any) -> None:
                raise OSError(code, os.strerror(code))

            srv.setsockopt = setsockopt  # type: ignore[method-assign]


class PlainTCP(Variant):
    pass


# ------------------------------------------------------------------------------------------------------ TLS variant
class _TLSRawPeer:
    """faulty client over TLS: the reference ``vsim.tls.TLSPeer`` (stdlib ssl, not EasyNetwork code) with the
    write/fin/reset/close surface the script needs"""

    def __init__(self, world: World, sock: SimSocket, version: str):
        self.world = world
        self.sock = sock
        self.tls = TLSPeer(world, sock, server_side=False, version=version)
        self.tls.auto_close_reply = True  # answer the server's close_notify so that its graceful close is prompt
        # application data is held back here (not in the engine) until the handshake is done, so that TLSPeer.hs_end
        # counts handshake bytes only
        self.backlog: list[bytes] = []
        self.tls.on_handshake_done = self._hs_done

    def _hs_done(self) -> None:
        pending, self.backlog = self.backlog, []
        for data in pending:
            self.write(data)

    def write(self, data: bytes) -> None:
        if self.tls.closed:
            return
        if self.tls.hs_end is None:
            self.backlog.append(data)
        else:
            self.tls.write(data)

    def fin(self) -> None:
        if self.tls.closed:
            return
        if self.tls.engine.handshake_done and self.tls.engine.error is None:
            self.tls.close(notify=True)
        else:
            self.tls.fin()

    def reset(self) -> None:
        self.tls.closed = True
        assert self.sock.tx_pipe is not None and self.sock.rx_pipe is not None
        self.sock.tx_pipe.reset()
        self.sock.rx_pipe.reader_closed = True
        self.world.log("peer_reset", self.sock.label)

    def close(self) -> None:
        self.tls.closed = True  # the engine stops reacting: the ClientHello already in flight is followed by FIN only
        self.sock.close()


class TLSTCP(Variant):
    """AsyncTCPNetworkServer(ssl=...): healthy clients are real AsyncTCPNetworkClient(ssl=...); the faulty client is a
    TLSPeer-driven raw peer; extra set-up faults hit the handshake"""

    name = "tls"
    setups = ("getpeername", "setsockopt", "reset", "close", "accept", "garbage", "stall", "fin_mid", "rst_mid", "garbage", "fin_mid", "rst_mid", "stall", "accept")
    HANDSHAKE_TIMEOUT = 20.0  # virtual seconds; far above the slowest link drawn below (~6 s for a full handshake)
    SHUTDOWN_TIMEOUT = 2.0
    # byte offsets in the client's handshake stream (measured with the fixture: TLS 1.3 ClientHello 238 + CCS/Finished 80
    # = 318; TLS 1.2 ClientHello 149 + CKE/CCS/Finished 93 = 242): inside the record header, inside the ClientHello, at
    # its end, inside the second flight, exactly at the end of the handshake, in the application data
    OFFSETS = (1, 5, 60, 149, 200, 238, 242, 300, 318, 600)

    def __init__(self, world: World):
        super().__init__(world)
        self.version = "1.2" if world.choose("tls.version", 2) else "1.3"

    def notes(self) -> dict:
        return {"tls_version": self.version}

    def draw_link(self, world: World, net: SimNet, faulty_run: bool) -> str:
        # a handshake moves ~3 KB: keep fragments >= 16 bytes and delays <= 2/64 s so that it always fits the timeouts
        if not faulty_run or not world.chance("sw.link", 1, 2):
            return "whole"
        k = world.choose("link.frag", 3)
        size = 0 if k == 0 else (64 + world.choose("link.size", 192) if k == 1 else 16 + world.choose("link.size", 48))
        delays = ((0,), (1,), (0, 1, 2))[world.choose("link.delay", 3)]
        if size:
            world.fault("frag")
        if delays != (0,):
            world.fault("delay")
        net.default_delivery = lambda name: Delivery(2 if size else 0, size or 1, delays)
        return f"fixed={size} delays={delays}"

    def server_kwargs(self) -> dict:
        return {"ssl": make_context(True, self.version), "ssl_handshake_timeout": self.HANDSHAKE_TIMEOUT, "ssl_shutdown_timeout": self.SHUTDOWN_TIMEOUT}

    def client_kwargs(self) -> dict:
        return {"ssl": make_context(False, self.version), "server_hostname": "sim.host", "ssl_shutdown_timeout": self.SHUTDOWN_TIMEOUT}

    def raw_peer(self, world: World, sock: SimSocket, plan: Plan) -> Any:
        assert sock.tx_pipe is not None
        if plan.setup == "garbage":
            world.fault("tls_garbage")
            world.probe("setup@garbage")
            return Peer(world, sock)  # after_connect() writes the garbage
        if plan.setup == "stall":
            world.fault("tls_stall")
            world.probe("setup@stall")
            sock.tx_pipe.stall()  # the ClientHello never arrives -> handshake timeout on the server
        elif plan.setup == "fin_mid":
            world.probe("setup@fin_mid")
            sock.tx_pipe.fin_at = self.OFFSETS[plan.setup_k]  # HalfPipe counts the fin_at fault when it fires
        elif plan.setup == "rst_mid":
            world.probe("setup@rst_mid")
            sock.tx_pipe.rst_at = self.OFFSETS[plan.setup_k]
        return _TLSRawPeer(world, sock, self.version)

    def after_connect(self, world: World, plan: Plan, peer: Any) -> bool:
        if plan.setup == "garbage":
            junk = (b"GET / HTTP/1.0\r\n\r\n", b"\x16\x03\x01\x00\x05hello-not-tls", b"\x00" * 64, b"\x16\x03\x03\xff\xff" + b"A" * 40)[plan.setup_k % 4]
            peer.write(junk)
            return True
        if plan.setup == "stall":
            return True
        return super().after_connect(world, plan, peer)

    def handshake_failed(self, plan: Plan, state: dict) -> bool:
        if plan.setup in ("getpeername", "setsockopt", "reset", "close", "garbage", "stall"):
            return True
        if plan.setup in ("fin_mid", "rst_mid"):
            peer = state.get("peer")
            tls = getattr(peer, "tls", None)
            if tls is None:
                return False
            # the server can only finish after it has seen every handshake byte of the client
            return tls.hs_end is None or tls.tx.total_visible < tls.hs_end
        return False


TCP_VARIANTS: dict[str, type[Variant]] = {"tcp": PlainTCP, "tls": TLSTCP}

TCP_POSITIONS = {
    "coro": ("on_conn_coro", "handle_pre", "handle_nth", "handle_thrown", "on_disc", "handle_close", "handle_nth"),
    "gen": ("on_conn_pre", "on_conn_post", "handle_pre", "handle_nth", "handle_thrown", "on_disc", "handle_close", "handle_nth"),
}


def _h_tcp(world: World, variant_name: str) -> None:
    variant = TCP_VARIANTS[variant_name](world)
    family = variant.name
    net = SimNet(world)
    backend = SimAsyncIOBackend(net)
    buffered = bool(world.choose("proto", 2))
    shape = "gen" if world.choose("shape", 2) else "coro"
    reqs_per_gen = (1, 2, 3, 1000)[world.choose("reqs_per_gen", 4)]
    healthy = _draw_healthy(world)
    any_fault = world.chance("any_fault", 2, 3)  # a third of the runs: no fault of any kind (baseline)
    plans = [_draw_plan(world, f"bad{i}", TCP_POSITIONS[shape], variant.setups, any_fault) for i in range(1 + world.choose("nfaulty", 2))]
    link = variant.draw_link(world, net, any_fault)
    world.notes.update(variant.notes())  # type: ignore[attr-defined]
    world.notes.update(variant=family, buffered=buffered, shape=shape, reqs_per_gen=reqs_per_gen, healthy=healthy, plans=[p.describe() for p in plans], link=link)  # type: ignore[attr-defined]

    ser = StringLineSerializer(encoding="ascii")
    proto: Any = BufferedStreamProtocol(ser) if buffered else StreamProtocol(ser)
    handler = TCPHandler(world, shape, reqs_per_gen)
    logger = _ProbeLogger(world)
    plan_by_label = {p.name: p for p in plans}
    srv_socks: dict[str, SimSocket] = {}

    def on_accept_pair(srv: SimSocket, peer: SimSocket) -> None:
        plan = plan_by_label.get(peer.label)
        if plan is not None:
            srv_socks[plan.name] = srv
            variant.apply_setup_fault(world, plan, srv, peer)

    net.on_accept_pair = on_accept_pair
    failures: list[Violation] = []

    def expected(first: bool, req: str) -> str:
        return ("H:" if (first and shape == "gen") else "R:") + req

    async def healthy_client(spec: dict, faults_over: asyncio.Event, t0: float) -> None:
        name = spec["name"]
        step = "connect"
        try:
            await asyncio.sleep(max(0.0, t0 + spec["start"] * U - world.now))
            async with AsyncTCPNetworkClient((HOST, PORT), proto, backend, **variant.client_kwargs()) as c:
                reqs = [f"{name}-{k}" for k in range(len(spec["gaps"]))]
                for k, req in enumerate(reqs + [f"{name}-after"]):
                    if k == len(reqs):
                        await faults_over.wait()
                    else:
                        await asyncio.sleep(spec["gaps"][k] * U)
                    step = f"request {req!r}"
                    world.log("req", name, req)
                    async with asyncio.timeout(WAIT):
                        await c.send_packet(req)
                        got = await c.recv_packet()
                    world.log("resp", name, got)
                    if got != expected(k == 0, req):
                        failures.append(_viol(family, "healthy-client-correct-answer", f"{name}: request {req!r} answered {got!r}, expected {expected(k == 0, req)!r}", _site(plans)))
                        return
                    world.progress(1)
        except (Violation, HarnessError, asyncio.CancelledError):
            raise
        except BaseException as exc:
            failures.append(_viol(family, "healthy-client-served", f"{name}: {step} failed with {type(exc).__name__}: {exc} at t={world.now}", _site(plans)))

    faulty_state: dict[str, dict] = {}

    def run_faulty(plan: Plan, t0: float) -> float:
        """schedule the scripted faulty client; returns the virtual time at which its script has ended"""
        t = t0 + plan.start * U
        state: dict[str, Any] = {}
        faulty_state[plan.name] = state

        def connect() -> None:
            lst = net.listeners[(HOST, PORT)]
            variant.before_connect(world, plan, lst)
            sock = net.connect_to_listener(lst, plan.name)
            handler.plans[sock.sockname[1]] = plan
            peer = variant.raw_peer(world, sock, plan)
            state["peer"] = peer
            state["dead"] = variant.after_connect(world, plan, peer)

        world.at(t, connect)

        def write(data: bytes) -> Callable[[], None]:
            def _w() -> None:
                if not state.get("dead"):
                    state["peer"].write(data)

            return _w

        def rst() -> None:
            # abortive close right behind what was written: everything the client sent before has arrived (the receive
            # queue survives the RST: data first, then ECONNRESET), whatever the link does to ordinary traffic
            if state.get("dead") or "peer" not in state:
                return
            sock = state["peer"].sock
            if sock.tx_pipe is not None:
                sock.tx_pipe.deliver()
            world.fault("rst_at")
            world.probe(f"rst_after_trigger+{plan.rst_after}")
            state["peer"].reset()
            state["dead"] = True

        seq = 0
        t_trigger: float | None = None  # time of the write the RST follows
        if shape == "gen":
            t += plan.gap * U
            world.at(t, write(f"{plan.name}-hello\n".encode()))
            t_trigger = t
        for _ in range(plan.pre):
            t += plan.gap * U
            world.at(t, write(f"{plan.name}-{seq}\n".encode()))
            seq += 1
            if plan.position not in ("handle_nth", "handle_close") or seq <= plan.n:
                t_trigger = t
        if plan.position == "handle_thrown":
            if plan.thrown == "parse":
                t += plan.gap * U
                world.at(t, write(b"\xff\xfebad\n"))
                t_trigger = t
            else:
                t += 1.0  # longer than the handler's 0.5 s yielded timeout
                t_trigger = None  # the trigger is the time-out itself: nothing to reset behind
        if plan.rst_after is not None and t_trigger is not None:
            world.at(t_trigger + plan.rst_after * U, rst)  # scheduled after the write of the same instant: runs after it
        for _ in range(plan.post):
            t += plan.gap * U
            world.at(t, write(f"{plan.name}-{seq}\n".encode()))
            seq += 1
        t += plan.gap * U

        def fin() -> None:
            if not state.get("dead"):
                state["peer"].fin()

        world.at(t, fin)
        return t

    async def amain() -> None:
        loop = asyncio.get_running_loop()
        async with AsyncTCPNetworkServer(HOST, PORT, proto, handler, backend, logger=logger, **variant.server_kwargs()) as srv:
            up = asyncio.Event()
            server_task = loop.create_task(srv.serve_forever(is_up_event=up), name="serve_forever")
            try:
                await asyncio.wait([loop.create_task(up.wait(), name="up-wait"), server_task], return_when=asyncio.FIRST_COMPLETED)
                if server_task.done():
                    raise HarnessError(f"serve_forever ended during start-up: {server_task.exception()!r}")
                t0 = world.now + U
                faults_over = asyncio.Event()
                htasks = [loop.create_task(healthy_client(spec, faults_over, t0), name=spec["name"]) for spec in healthy]
                t_end = max(run_faulty(p, t0) for p in plans)
                await asyncio.sleep(max(0.0, t_end - world.now))

                # ---- the faulty connections end closed
                def all_closed() -> bool:
                    return all(p.name in srv_socks and srv_socks[p.name].sim_closed for p in plans)

                if not await wait_until(world, lambda: all_closed() or server_task.done(), max_time=CLOSE_WAIT, step=0.25) or not all_closed():
                    if server_task.done():
                        exc = None if server_task.cancelled() else server_task.exception()
                        raise _viol(family, "server-still-running", f"serve_forever ended ({type(exc).__name__}: {exc}) after faults {[p.describe() for p in plans]}", _site(plans))
                    for p in plans:
                        s = srv_socks.get(p.name)
                        if s is None or not s.sim_closed:
                            raise _viol(family, "faulty-connection-closed", f"server-side socket of {p.describe()} still open {CLOSE_WAIT}s after the client's script (incl. FIN) ended; all plans={[q.describe() for q in plans]} serve_forever done={server_task.done()}", _site(plans if server_task.done() else [p]))
                await asyncio.sleep(0.25)
                faults_over.set()
                if htasks:
                    await asyncio.wait(htasks)
                for t in htasks:
                    if t.exception() is not None:
                        raise t.exception()  # type: ignore[misc]
                if failures:
                    raise failures[0]
                # ---- a connection opened after the faults is served
                probe = loop.create_task(healthy_client({"name": "probe", "start": 0, "gaps": [0]}, faults_over, world.now), name="probe")
                await asyncio.wait([probe])
                if probe.exception() is not None:
                    raise probe.exception()  # type: ignore[misc]
                if failures:
                    raise failures[0]
                # ---- server still running
                if server_task.done() or not srv.is_serving():
                    raise _viol(family, "server-still-running", f"serve_forever done={server_task.done()} is_serving={srv.is_serving()} after faults {[p.describe() for p in plans]}", _site(plans))
                # ---- disconnection hook as documented
                await asyncio.sleep(0.25)
                for p in plans:
                    port = None
                    for key, pl in handler.plans.items():
                        if pl is p:
                            port = key
                    st = handler.states.get(port)
                    plan_failed = variant.handshake_failed(p, faulty_state[p.name])
                    p.hs_failed = plan_failed
                    if plan_failed:
                        world.probe("setup_failed_connections")
                        if st is not None and (st.entered or st.gens or st.disc):
                            raise _viol(family, "no-hook-after-failed-setup", f"{p.describe()}: the connection set-up cannot have completed, yet on_connection entered={st.entered} handle generators={st.gens} on_disconnection calls={st.disc}", _site([p]))
                    done = bool(st and st.conn_done)
                    disc = st.disc if st else 0
                    world.probe("faulty_conn_done" if done else "faulty_conn_not_done")
                    if disc != (1 if done else 0):
                        raise _viol(family, "on-disconnection-iff-on-connection-completed", f"{p.describe()}: on_connection entered={bool(st and st.entered)} completed={done}, on_disconnection calls={disc}", _site([p]))
                # healthy connections are all closed by their clients by now: hook ran exactly once for each of them
                def healthy_disc() -> bool:
                    return all(st.disc >= 1 for st in handler.states.values() if st.plan is None)

                await wait_until(world, healthy_disc, max_time=10.0, step=0.25)
                for key, st in handler.states.items():
                    if st.plan is None and (st.disc != 1 or not st.conn_done):
                        raise _viol(family, "healthy-on-disconnection-once", f"healthy connection from port {key}: on_connection completed={st.conn_done}, on_disconnection calls={st.disc}", _site(plans))
            finally:
                await srv.shutdown()
                if not server_task.done():
                    server_task.cancel()
                await asyncio.wait([server_task])

    try:
        with sim_sockets(net):
            run_async(world, amain, det_tasks=True)
    finally:
        _freeze(world)


# ====================================================================================================== UDP
UDP_POSITIONS = ("handle_pre", "handle_nth", "handle_thrown")


def _h_udp(world: World) -> None:
    family = "udp"
    net = SimNet(world)
    backend = SimAsyncIOBackend(net)
    reqs_per_gen = (1, 2, 3, 1000)[world.choose("reqs_per_gen", 4)]
    healthy = _draw_healthy(world)
    any_fault = world.chance("any_fault", 2, 3)  # a third of the runs: no fault of any kind (baseline)
    plans = [_draw_plan(world, f"bad{i}", UDP_POSITIONS, (), any_fault) for i in range(1 + world.choose("nfaulty", 2))]
    delay_mode = world.choose("dgram_delay", 3) if any_fault else 0  # 0 none | 1 fixed 1U | 2 random 0..4U per datagram towards the server
    if delay_mode:
        world.fault("delay")
    world.notes.update(variant=family, reqs_per_gen=reqs_per_gen, healthy=healthy, plans=[p.describe() for p in plans], delay_mode=delay_mode)  # type: ignore[attr-defined]

    proto = DatagramProtocol(StringLineSerializer(encoding="ascii"))
    handler = UDPHandler(world, reqs_per_gen)
    logger = _ProbeLogger(world)
    addr_of = {spec["name"]: ("10.9.0.1", 7000 + i) for i, spec in enumerate(healthy)}
    addr_of["probe"] = ("10.9.0.1", 7099)
    for i, p in enumerate(plans):
        addr_of[p.name] = ("10.9.1.1", 7100 + i)
        handler.plans[addr_of[p.name]] = p
    name_of = {v: k for k, v in addr_of.items()}
    inbox: dict[str, list[bytes]] = {n: [] for n in addr_of}
    waiters: dict[str, asyncio.Future] = {}
    failures: list[Violation] = []

    def policy(src: SimSocket, dst: tuple, data: bytes) -> list:
        name = name_of.get(tuple(dst[:2]))
        if name is None:
            raise HarnessError(f"server sent a datagram to unknown address {dst}")
        inbox[name].append(data)
        world.log("dgram_out", name, len(data))
        w = waiters.pop(name, None)
        if w is not None and not w.done():
            w.set_result(None)
        return []

    net.dgram_policy = policy

    delivered: dict[str, int] = {n: 0 for n in addr_of}  # datagrams that reached the server socket, per client

    def send(name: str, data: bytes) -> None:
        srv_sock = net.bound[(HOST, PORT)]

        def deliver() -> None:
            delivered[name] += 1
            net.inject_dgram(srv_sock, data, addr_of[name])

        if delay_mode == 0:
            deliver()
        else:
            d = 1 if delay_mode == 1 else world.choose("dgram_dly", 5)
            world.after(d * U, deliver)
        world.log("dgram_in", name, len(data))

    def on_gen_start(key: tuple, st: ConnState) -> None:
        # Documented: a generator is started when a datagram is received, and a datagram whose generator ends before
        # its first yield is DISCARDED.  So a client can never have had more generators than datagrams delivered: one
        # more means a discarded datagram started another generator (replayed).
        name = name_of[key]
        if st.gens > delivered[name] and world.fatal is None:
            plan = st.plan
            if plan is not None:
                plan.window_end = -1.0  # stop faulting so that the run ends
            world.fatal = _viol(
                family,
                "one-generator-per-datagram",
                f"{name}: generator #{st.gens} started although only {delivered[name]} datagram(s) from {key} reached the server "
                f"(a datagram whose generator ended before its first yield has to be discarded, not replayed); t={world.now} plan={plan.describe() if plan else None}",
                _site([plan] if plan else plans),
            )

    handler.on_gen_start = on_gen_start

    async def recv(name: str) -> bytes:
        while not inbox[name]:
            fut = asyncio.get_running_loop().create_future()
            waiters[name] = fut
            await fut
        return inbox[name].pop(0)

    async def exchange(name: str, req: str) -> str | None:
        """returns an error description, or None when the right answer came"""
        world.log("req", name, req)
        send(name, proto.make_datagram(req))
        try:
            async with asyncio.timeout(WAIT):
                got = await recv(name)
        except TimeoutError:
            return f"{name}: request {req!r} not answered within {WAIT}s (t={world.now})"
        world.log("resp", name, len(got))
        if got != proto.make_datagram("R:" + req):
            return f"{name}: request {req!r} answered {got!r}"
        world.progress(1)
        return None

    async def healthy_client(spec: dict, faults_over: asyncio.Event, t0: float) -> None:
        name = spec["name"]
        await asyncio.sleep(max(0.0, t0 + spec["start"] * U - world.now))
        reqs = [f"{name}-{k}" for k in range(len(spec["gaps"]))]
        for k, req in enumerate(reqs + [f"{name}-after"]):
            if k == len(reqs):
                await faults_over.wait()
            else:
                await asyncio.sleep(spec["gaps"][k] * U)
            err = await exchange(name, req)
            if err is not None:
                failures.append(_viol(family, "healthy-client-served", err, _site(plans)))
                return

    def run_faulty(plan: Plan, t0: float) -> float:
        t = t0 + plan.start * U
        seq = 0

        def at(t: float, data: bytes) -> None:
            world.at(t, lambda: send(plan.name, data))

        if plan.position == "handle_pre":
            at(t, proto.make_datagram(f"{plan.name}-lost"))  # discarded by documentation when the generator dies before its first yield
        for _ in range(plan.pre):
            t += plan.gap * U
            at(t, proto.make_datagram(f"{plan.name}-{seq}"))
            seq += 1
        if plan.position == "handle_thrown":
            if plan.thrown == "parse":
                t += plan.gap * U
                at(t, b"\xff\xfebad")
            else:
                t += 1.0
        for _ in range(plan.post):
            t += plan.gap * U
            at(t, proto.make_datagram(f"{plan.name}-{seq}"))
            seq += 1
        # repeat mode: every generator started for this address until then dies before its first yield
        plan.window_end = math.inf if plan.forever else t + 5 * U
        return t + 5 * U

    async def amain() -> None:
        loop = asyncio.get_running_loop()
        async with AsyncUDPNetworkServer(HOST, PORT, proto, handler, backend, logger=logger) as srv:
            up = asyncio.Event()
            server_task = loop.create_task(srv.serve_forever(is_up_event=up), name="serve_forever")
            try:
                await asyncio.wait([loop.create_task(up.wait(), name="up-wait"), server_task], return_when=asyncio.FIRST_COMPLETED)
                if server_task.done():
                    raise HarnessError(f"serve_forever ended during start-up: {server_task.exception()!r}")
                t0 = world.now + U
                faults_over = asyncio.Event()
                htasks = [loop.create_task(healthy_client(spec, faults_over, t0), name=spec["name"]) for spec in healthy]
                t_end = max(run_faulty(p, t0) for p in plans)
                await asyncio.sleep(max(0.0, t_end - world.now) + 2.0)  # > the 1 s idle timeout of multi-request generators
                # ---- a later datagram from the faulty address starts a fresh generator and is answered
                for p in plans:
                    inbox[p.name].clear()
                    st = handler.states.get(addr_of[p.name])
                    gens_before = st.gens if st else 0
                    req = f"{p.name}-again"
                    if p.forever and p.fired:
                        # this client's handler never gets to its first yield: "a later datagram starts a fresh handler"
                        # is all that can be observed (no answer is ever due)
                        send(p.name, proto.make_datagram(req))
                        if not await wait_until(world, lambda: handler.states[addr_of[p.name]].gens > gens_before, max_time=WAIT, step=U):
                            raise _viol(family, "faulty-address-fresh-generator", f"no generator was started for {req!r} within {WAIT}s (generators so far {gens_before}); plan={p.describe()} serve_forever done={server_task.done()}", _site(plans if server_task.done() else [p]))
                        world.probe("fresh_generator_after_fault")
                        continue
                    err = await exchange(p.name, req)
                    if err is not None:
                        raise _viol(family, "faulty-address-answered-after-fault", f"{err}; plan={p.describe()} all plans={[q.describe() for q in plans]} serve_forever done={server_task.done()}", _site(plans if server_task.done() else [p]))
                    st = handler.states[addr_of[p.name]]
                    gen = [g for r, g in st.served if r == req][-1]
                    if p.fired:
                        world.probe("fresh_generator_after_fault")
                        if gen <= p.fired_at_gens:
                            raise _viol(family, "faulty-address-fresh-generator", f"request {req!r} after the fault was handled by generator #{gen}, the fault fired in generator #{p.fired_at_gens}; plan={p.describe()} (generators before={gens_before})", _site([p]))
                faults_over.set()
                if htasks:
                    await asyncio.wait(htasks)
                for t in htasks:
                    if t.exception() is not None:
                        raise t.exception()  # type: ignore[misc]
                if failures:
                    raise failures[0]
                # ---- an address first seen after the faults is served
                probe = loop.create_task(healthy_client({"name": "probe", "start": 0, "gaps": [0]}, faults_over, world.now), name="probe")
                await asyncio.wait([probe])
                if probe.exception() is not None:
                    raise probe.exception()  # type: ignore[misc]
                if failures:
                    raise failures[0]
                if server_task.done() or not srv.is_serving():
                    raise _viol(family, "server-still-running", f"serve_forever done={server_task.done()} is_serving={srv.is_serving()} after faults {[p.describe() for p in plans]}", _site(plans))
                # ---- no datagram arrives any more: the server must go idle (no respawn loop fed by an old datagram)
                if world.fatal is None and not await loop_goes_idle(world, loop):
                    raise _viol(family, "idle-server-does-not-spin", f"more than 200 loop iterations during 50 idle virtual seconds after faults {[p.describe() for p in plans]}; generators per client={ {name_of[k]: st.gens for k, st in handler.states.items()} } delivered={delivered}", _site(plans))
            finally:
                await srv.shutdown()
                if not server_task.done():
                    server_task.cancel()
                await asyncio.wait([server_task])

    try:
        with sim_sockets(net):
            run_async(world, amain, det_tasks=True)
    finally:
        _freeze(world)


# ====================================================================================================== UDP: queue / re-spawn
# One address, one generator at a time: datagrams that arrive while the client's generator runs are queued, and when the
# generator ends (returns or FAILS) with datagrams still queued the low-level server re-spawns a task for the address.
# This harness aims at that state machine: the first generator of the faulty client is parked on a gate while 0-3 more
# datagrams of the same address get queued; the gate is released j loop iterations after a loop timer fired; the generator
# then returns or raises; each re-spawned generator follows a drawn behaviour (answer | raise before its first yield |
# raise on receiving the request, without any checkpoint | return before its first yield); 0-2 more datagrams of the same
# address are delivered aligned with the release (world event at the timer's time, or from a loop callback 0-2 iterations
# after the timer), which covers "a datagram is handled in the very loop iteration between the end of the old task and
# the first step of the re-spawned one"; configuration dimension: the loop's task factory is the default one or
# ``asyncio.eager_task_factory`` (a re-spawned task then runs nested inside the frame that ended the previous one).
RESPAWN_BEHAVIOURS = ("answer", "raise_pre", "raise_req", "return_pre")


class RespawnHandler(AsyncDatagramRequestHandler[str, str]):
    """every generator handles exactly ONE datagram (or discards it by ending before its first yield)"""

    def __init__(self, world: World, faulty: tuple, spec: dict):
        self.world = world
        self.faulty = faulty
        self.spec = spec
        self.gate: asyncio.Future | None = None
        self.gens = 0  # generators started for the faulty address
        self.raised = 0
        self.scripted = True  # False once the scripted phase is over: every later generator answers
        self.served: list[tuple[str, int]] = []
        self.on_gen_start: Callable[[int], None] | None = None

    def _raise(self, where: str) -> None:
        self.raised += 1
        self.world.fault("handler_raises")
        self.world.probe("respawn.raise@" + where)
        self.world.log("raise", "bad", where, self.spec["exc"])
        raise _make_exc(self.spec["exc"], None, True)

    async def handle(self, client: Any) -> Any:
        addr = client.extra(INETClientAttribute.remote_address)
        if (addr.host, addr.port) != self.faulty:
            req = yield
            await client.send_packet("R:" + req)
            return
        self.gens += 1
        k = self.gens
        if self.on_gen_start is not None:
            self.on_gen_start(k)
        spec = self.spec
        if k == 1 and spec["park"]:
            assert self.gate is not None
            if spec["gate_pos"] == "pre":
                await self.gate
                if spec["end1"] == "return":
                    return
                self._raise("gen1_pre")
            req = yield
            await self.gate
            if spec["end1"] == "raise":
                self._raise("gen1_req")
            await client.send_packet("R:" + req)
            self.served.append((req, k))
            if spec["end1"] == "raise_after_answer":
                self._raise("gen1_answered")
            return
        script = spec["script"]
        how = script[k - 2] if self.scripted and 0 <= k - 2 < len(script) else "answer"
        if how == "raise_pre":
            self._raise("respawned_pre")
        if how == "return_pre":
            self.world.probe("respawn.return_pre")
            return
        req = yield
        if how == "raise_req":
            self._raise("respawned_req")
        await client.send_packet("R:" + req)
        self.served.append((req, k))


def _h_udp_respawn(world: World) -> None:
    family = "udp-respawn"
    net = SimNet(world)
    backend = SimAsyncIOBackend(net)
    eager = bool(world.choose("loop.eager", 2))  # configuration: asyncio.eager_task_factory on the server's loop
    healthy = _draw_healthy(world)
    any_fault = world.chance("any_fault", 2, 3)  # a third of the runs: nothing raises, nothing is aligned
    spec: dict[str, Any] = {
        "park": True,
        "start": world.choose("f.start", 24),
        "gap": 1 + world.choose("f.gap", 4),
        "queued": world.choose("f.queued", 4),  # datagrams of the same address queued behind the parked generator
        "gate_pos": "req",
        "end1": "answer",
        "exc": "ValueError",
        "script": ["answer"] * 5,
        "release_stage": 0,
        "late": [],
    }
    if any_fault:
        spec["gate_pos"] = "pre" if world.choose("f.gate_pos", 3) == 2 else "req"
        spec["end1"] = ("answer", "raise", "raise_after_answer", "raise")[world.choose("f.end1", 4)]
        if spec["gate_pos"] == "pre":
            spec["end1"] = "return" if spec["end1"] == "answer" else "raise"
        spec["exc"] = EXC_KINDS[world.choose("f.exc", len(EXC_KINDS))]
        spec["script"] = [RESPAWN_BEHAVIOURS[world.choose("f.behaviour", len(RESPAWN_BEHAVIOURS))] for _ in range(5)]
        spec["release_stage"] = world.choose("f.release_stage", 3)
        # late datagrams: 0 = delivered by a world event at the very time of the release timer, k>0 = sent from a loop
        # callback k-1 iterations after the timer callback
        spec["late"] = [world.choose("f.late_stage", 4) for _ in range(world.choose("f.nlate", 3))]
    world.notes.update(variant=family, eager=eager, healthy=healthy, spec=dict(spec))  # type: ignore[attr-defined]
    if eager:
        world.probe("loop_eager_task_factory")
    loopkind = "eager" if eager else "default"
    site = f"{loopkind}-loop"  # structural site: the loop configuration (the clause names what broke)

    proto = DatagramProtocol(StringLineSerializer(encoding="ascii"))
    addr_of = {h["name"]: ("10.9.0.1", 7000 + i) for i, h in enumerate(healthy)}
    addr_of["probe"] = ("10.9.0.1", 7099)
    addr_of["bad"] = ("10.9.1.1", 7100)
    handler = RespawnHandler(world, addr_of["bad"], spec)
    logger = _ProbeLogger(world)
    name_of = {v: k for k, v in addr_of.items()}
    inbox: dict[str, list[bytes]] = {n: [] for n in addr_of}
    answers: dict[str, list[bytes]] = {n: [] for n in addr_of}  # everything the server ever sent, per client
    waiters: dict[str, asyncio.Future] = {}
    failures: list[Violation] = []
    delivered: dict[str, int] = {n: 0 for n in addr_of}
    sent_reqs: list[str] = []  # requests of the faulty client, in delivery order

    def policy(src: SimSocket, dst: tuple, data: bytes) -> list:
        name = name_of.get(tuple(dst[:2]))
        if name is None:
            raise HarnessError(f"server sent a datagram to unknown address {dst}")
        inbox[name].append(data)
        answers[name].append(data)
        world.log("dgram_out", name, len(data))
        w = waiters.pop(name, None)
        if w is not None and not w.done():
            w.set_result(None)
        return []

    net.dgram_policy = policy

    def send(name: str, data: bytes) -> None:
        delivered[name] += 1
        world.log("dgram_in", name, len(data))
        net.inject_dgram(net.bound[(HOST, PORT)], data, addr_of[name])

    def send_bad(req: str) -> None:
        sent_reqs.append(req)
        send("bad", proto.make_datagram(req))

    def on_gen_start(k: int) -> None:
        if k > delivered["bad"] and world.fatal is None:
            world.fatal = _viol(family, "one-generator-per-datagram", f"bad: generator #{k} started although only {delivered['bad']} datagram(s) from {addr_of['bad']} reached the server; t={world.now} spec={spec}", site)

    handler.on_gen_start = on_gen_start

    async def recv(name: str) -> bytes:
        while not inbox[name]:
            fut = asyncio.get_running_loop().create_future()
            waiters[name] = fut
            await fut
        return inbox[name].pop(0)

    async def exchange(name: str, req: str) -> str | None:
        world.log("req", name, req)
        send(name, proto.make_datagram(req))
        try:
            async with asyncio.timeout(WAIT):
                got = await recv(name)
        except TimeoutError:
            return f"{name}: request {req!r} not answered within {WAIT}s (t={world.now})"
        world.log("resp", name, len(got))
        if got != proto.make_datagram("R:" + req):
            return f"{name}: request {req!r} answered {got!r}"
        world.progress(1)
        return None

    async def healthy_client(h: dict, faults_over: asyncio.Event, t0: float) -> None:
        name = h["name"]
        await asyncio.sleep(max(0.0, t0 + h["start"] * U - world.now))
        reqs = [f"{name}-{k}" for k in range(len(h["gaps"]))]
        for k, req in enumerate(reqs + [f"{name}-after"]):
            if k == len(reqs):
                await faults_over.wait()
            else:
                await asyncio.sleep(h["gaps"][k] * U)
            err = await exchange(name, req)
            if err is not None:
                failures.append(_viol(family, "healthy-client-served", err, site))
                return

    def run_faulty(loop: asyncio.AbstractEventLoop, t0: float) -> float:
        """schedules the faulty client's script; returns the virtual time of the release timer"""
        gap = spec["gap"] * U
        t = t0 + spec["start"] * U
        world.at(t, lambda: send_bad("bad-0"))
        for q in range(spec["queued"]):
            t += gap
            world.at(t, lambda q=q: send_bad(f"bad-q{q}"))  # type: ignore[misc]
        t_release = t + gap
        late: list[int] = spec["late"]
        last_stage = max([spec["release_stage"]] + [s - 1 for s in late])

        def stage(k: int) -> None:
            # runs as a loop callback, k iterations after the timer callback
            for n, s in enumerate(late):
                if s - 1 == k:
                    world.fault("coincide_timer")
                    if k == spec["release_stage"] - 1:
                        # read in the iteration in which the gate opens: its task runs right after the old generator's last step
                        world.probe("respawn.dgram_between_task_end_and_respawn")
                    send_bad(f"bad-late{n}")
            if k == spec["release_stage"]:
                world.log("release", "bad", k)
                assert handler.gate is not None
                if not handler.gate.done():
                    handler.gate.set_result(None)
            if k < last_stage:
                loop.call_soon(stage, k + 1)

        def at_timer_time() -> None:
            for n, s in enumerate(late):
                if s == 0:
                    send_bad(f"bad-late{n}")

        world.at(t_release, at_timer_time)  # world event: visible to the select() call that also finds the timer due
        loop.call_at(t_release, stage, 0)
        return t_release

    def expected_answers() -> list[bytes]:
        out = []
        for k, req in enumerate(sent_reqs, start=1):
            if k == 1:
                ok = spec["gate_pos"] == "req" and spec["end1"] in ("answer", "raise_after_answer")
            else:
                ok = (spec["script"][k - 2] if k - 2 < len(spec["script"]) else "answer") == "answer"
            if ok:
                out.append(proto.make_datagram("R:" + req))
        return out

    async def amain() -> None:
        loop = asyncio.get_running_loop()
        if eager:
            # still SimTask instances (creation-index hashes), started eagerly
            loop.set_task_factory(asyncio.create_eager_task_factory(SimTask))
        handler.gate = loop.create_future()
        async with AsyncUDPNetworkServer(HOST, PORT, proto, handler, backend, logger=logger) as srv:
            up = asyncio.Event()
            server_task = loop.create_task(srv.serve_forever(is_up_event=up), name="serve_forever")

            def stopped() -> str:
                exc = None if server_task.cancelled() else server_task.exception()
                subs = getattr(exc, "exceptions", None)
                what = "; ".join(f"{type(e).__name__}: {str(e)[:100].split(' <')[0]}" for e in subs) if subs else f"{type(exc).__name__}: {exc}"
                return f"serve_forever ended ({what}) at/before t={world.now}; eager={eager} spec={spec} generators started for the faulty client={handler.gens} delivered={delivered['bad']}"

            try:
                await asyncio.wait([loop.create_task(up.wait(), name="up-wait"), server_task], return_when=asyncio.FIRST_COMPLETED)
                if server_task.done():
                    raise HarnessError(f"serve_forever ended during start-up: {server_task.exception()!r}")
                t0 = world.now + U
                faults_over = asyncio.Event()
                htasks = [loop.create_task(healthy_client(h, faults_over, t0), name=h["name"]) for h in healthy]
                t_release = run_faulty(loop, t0)
                await asyncio.sleep(max(0.0, t_release - world.now) + 0.5)
                if not handler.gate.done():
                    raise HarnessError("the release chain did not run")
                # ---- the server survived the end of the parked generator and of everything re-spawned after it
                if server_task.done():
                    raise _viol(family, "server-still-running", stopped(), site)
                # ---- every datagram queued behind / delivered around the failing generator started a fresh one
                if not await wait_until(world, lambda: handler.gens >= delivered["bad"] or server_task.done(), max_time=WAIT, step=U) or server_task.done():
                    if server_task.done():
                        raise _viol(family, "server-still-running", stopped(), site)
                    raise _viol(family, "queued-datagram-starts-fresh-generator", f"{delivered['bad']} datagrams of the faulty client reached the server ({sent_reqs}), only {handler.gens} generator(s) were started within {WAIT}s after the first one ended; eager={eager} spec={spec}", site)
                if handler.gens > 1:
                    world.probe("respawn.generators_after_first", handler.gens - 1)
                await asyncio.sleep(0.25)
                if sorted(answers["bad"]) != sorted(expected_answers()) and world.fatal is None and not server_task.done():
                    raise _viol(family, "queued-datagram-answered-by-its-generator", f"faulty client sent {sent_reqs}; answers received {answers['bad']}, expected {expected_answers()} (each generator handles one datagram); eager={eager} spec={spec}", site)
                world.progress(len(answers["bad"]))
                # ---- a later datagram from the faulty address starts a fresh generator and is answered
                inbox["bad"].clear()
                handler.scripted = False
                gens_before = handler.gens
                err = await exchange("bad", "bad-again")
                if err is not None:
                    if server_task.done():
                        raise _viol(family, "server-still-running", stopped(), site)
                    raise _viol(family, "faulty-address-answered-after-fault", f"{err}; eager={eager} spec={spec}", site)
                gen = [g for r, g in handler.served if r == "bad-again"][-1]
                if gen <= gens_before:
                    raise _viol(family, "faulty-address-fresh-generator", f"'bad-again' was handled by generator #{gen}, {gens_before} generators had been started before it was sent; spec={spec}", site)
                world.probe("fresh_generator_after_fault")
                faults_over.set()
                if htasks:
                    await asyncio.wait(htasks)
                for t in htasks:
                    if t.exception() is not None:
                        raise t.exception()  # type: ignore[misc]
                if failures:
                    raise failures[0]
                probe = loop.create_task(healthy_client({"name": "probe", "start": 0, "gaps": [0]}, faults_over, world.now), name="probe")
                await asyncio.wait([probe])
                if probe.exception() is not None:
                    raise probe.exception()  # type: ignore[misc]
                if failures:
                    raise failures[0]
                if server_task.done() or not srv.is_serving():
                    raise _viol(family, "server-still-running", f"serve_forever done={server_task.done()} is_serving={srv.is_serving()}; eager={eager} spec={spec}", site)
                if world.fatal is None and not await loop_goes_idle(world, loop):
                    raise _viol(family, "idle-server-does-not-spin", f"more than 200 loop iterations during 50 idle virtual seconds; eager={eager} spec={spec} generators={handler.gens} delivered={delivered}", site)
            finally:
                if not handler.gate.done():
                    handler.gate.set_result(None)
                await srv.shutdown()
                if not server_task.done():
                    server_task.cancel()
                await asyncio.wait([server_task])

    try:
        with sim_sockets(net):
            run_async(world, amain, det_tasks=True)
    finally:
        _freeze(world)


HARNESSES = [
    Harness("tcp", lambda w: _h_tcp(w, "tcp"), weight=2),
    Harness("tls", lambda w: _h_tcp(w, "tls"), weight=2),
    Harness("udp", _h_udp, weight=1),
    Harness("udp-respawn", _h_udp_respawn, weight=1),
]
