"""C20 — sending applies backpressure and never hangs on a dead connection (DESIGN §4 C20).

Harnesses
  stream           1-5 sender tasks on the real AsyncioTransportStreamSocketAdapter (send_all / send_all_from_iterable) over a
                   SimSocket link with small capacity; peer reader script {reads, stops, resumes, k bytes at a time};
                   world-ordered events {pause, resume, RST, FIN, local aclose(), cancel sender i}
  dgram-endpoint   1-5 sender tasks on AsyncioTransportDatagramSocketAdapter.send (connected UDP SimSocket)
  dgram-listener   1-5 sender tasks on DatagramListenerSocketAdapter.send_to (backend.create_udp_listeners)
                   datagram backpressure = SimSocket.dgram_send_room (sendto raises BlockingIOError while 0)

Oracle (property statement, nothing more)
  stream: at the instant a send returns normally, every byte of it has been accepted by the socket
          (== transport.get_write_buffer_size() is 0 when there is one sender; with several senders: the bytes accepted by
          the socket cover this write's end offset in issue order, i.e. the user-space queue only holds pending writes);
          after the last fault: if the connection is alive and the peer reads, every suspended non-cancelled sender
          completes; if the connection was lost every one of them fails with a ConnectionError; a cancelled sender ends
          cancelled and does not strand the others.
  datagram: only the waiter clauses (resumed once the socket accepts datagrams again / not stranded by a cancelled sibling /
          done after close).
  handed over => no failure (all three harnesses): a suspended, non-cancelled send whose bytes (datagram) were all accepted by
          the socket before a GRACEFUL local aclose() completed (connection_lost(None) right after the flush; no reset, no
          write/sendto error, no forced close) must return normally, it must not raise -- keys
          C20/stream/send-failed-although-handed-over, C20/dgram-<flavour>/send-failed-although-handed-over.
  history (all three harnesses): senders may be abandoned while suspended (cancel event, or the application's own
          asyncio.timeout around a send, after which the same task issues its next send); after every sender has ended and
          the peer has read everything, one more send is issued if the connection is alive and was not closed locally: it
          must complete too (a sender abandoned earlier must not strand the later ones; a sender never hangs) -- keys
          C20/<harness>/stranded-after-cancel/later-send, C20/<harness>/stranded-after-resume/later-send.
"""
from __future__ import annotations

import asyncio
import errno
import os
import socket as _socket
from typing import Any, Callable

from vsim.backend import SimAsyncIOBackend, sim_sockets
from vsim.harness import Peer, swarm_selector
from vsim.loop import run_async, wait_until
from vsim.runner import Harness
from vsim.sock import Delivery, SimNet, SimSocket
from vsim.world import Deadlock, HarnessError, Violation, World

from easynetwork.lowlevel.api_async.transports.utils import aclose_forcefully

PROPERTY = "C20"
LEVEL = "exploration"
RULE = (
    "1-5 concurrent sender tasks x 1-3 sends each (send_all / send_all_from_iterable with empty chunks, sizes 1..20000; datagrams "
    "8000..60000 bytes) on the real asyncio adapters; link capacity 1..4096 (stream) / send room 0..3 datagrams; peer reader script "
    "(reads, stops, resumes after d, k bytes every d); 0-5 events at world-chosen times in world-chosen order from {pause, resume, "
    "RST, FIN, local aclose(), cancel sender i}; in a third of the faulty runs the application gives sends up after its own timeout "
    "(asyncio.timeout 1/64..1 s around the send: the sender is abandoned while suspended and goes on with its next send) and pauses "
    "0..0.5 s between sends; liveness clauses evaluated after the last event (peer reads again unless the connection was lost); "
    "history: once every sender has ended (some abandoned while suspended, the peer having drained the buffer with nobody waiting) "
    "one more send is issued on the still healthy, not locally closed transport and must complete like any other (keys .../later-send); "
    "a suspended send whose bytes were all accepted by the socket before a graceful local aclose() completed (no reset, no write error, "
    "not cancelled) must return, not raise (keys .../send-failed-although-handed-over)"
)
COMPONENTS_REAL = [
    "easynetwork.lowlevel.api_async.backend._asyncio._flow_control.WriteFlowControl",
    "easynetwork.lowlevel.api_async.backend._asyncio.stream.socket (AsyncioTransportStreamSocketAdapter, StreamReaderBufferedProtocol)",
    "easynetwork.lowlevel.api_async.backend._asyncio.datagram.endpoint / socket / listener",
    "easynetwork AsyncIOBackend.wrap_stream_socket / wrap_connected_datagram_socket / create_udp_listeners",
    "CPython asyncio _SelectorSocketTransport / _SelectorDatagramTransport / _FlowControlMixin, BaseEventLoop._run_once",
]
COMPONENTS_STUB = ["socket object (SimSocket; datagram send buffer = dgram_send_room knob)", "selector (SimSelector)", "clock", "peer reader script"]
ASSUMPTIONS = [
    "bytes handed to the operating system == bytes accepted by SimSocket.send/sendmsg (HalfPipe.total_written)",
    "a peer FIN (half close) does not end the library's write side; RST / peer close does",
    "a UDP socket whose send buffer is full raises EAGAIN and is not reported writable",
]
BUDGET = {"quick": 40, "thorough": 480}

_PASS_THROUGH = (Violation, HarnessError, Deadlock)
_FILL = bytes(range(256)) * 256  # 64 KiB of filler


def _data(n: int) -> bytes:
    return _FILL[:n] if n <= len(_FILL) else (_FILL * (n // len(_FILL) + 1))[:n]


class _Sender:
    """one sender task: a list of sends; records the outcome of each"""

    def __init__(self, idx: int, ops: list[tuple[str, list[int]]]):
        self.idx = idx
        self.ops = ops  # (kind, chunk sizes)
        self.task: asyncio.Task | None = None
        self.outcomes: list[str] = []  # per started send: ok | connection-error | cancelled | <other>
        self.in_send = False
        self.pending_end: int | None = None  # end offset (issue order) of the send in progress
        self.cancelled_by_harness = False
        self.finished = False
        self.error: BaseException | None = None
        # application behaviour around each send (drawn per run, default: none): the application gives a send up after
        # `timeouts[j]` seconds (asyncio.timeout around the send: the sender is abandoned while suspended, its task goes on
        # with the next send) and waits `gaps[j]` seconds before issuing send j
        self.timeouts: list[float | None] = [None] * len(ops)
        self.gaps: list[float] = [0.0] * len(ops)

_OP_TIMEOUTS = (None, 1 / 64, 4 / 64, 16 / 64, 1.0)
_OP_GAPS = (0.0, 1 / 64, 8 / 64, 0.5)


def _draw_abandon(world: World, senders: list[_Sender], baseline: bool) -> bool:
    """a third of the faulty runs: sends are given up by the application after a timeout / issued after a pause"""
    if baseline or not world.chance("swarm.op_timeouts", 1, 3):
        return False
    for s in senders:
        for j in range(len(s.ops)):
            s.timeouts[j] = world.pick("op.timeout", _OP_TIMEOUTS)
            s.gaps[j] = world.pick("op.gap", _OP_GAPS)
    return True


def _all_completed(s: _Sender) -> bool:
    """every send of the sender returned normally, except those the application itself gave up (timeout set and expired)"""
    return len(s.outcomes) == len(s.ops) and all(o == "ok" or (o == "timeout" and t is not None) for o, t in zip(s.outcomes, s.timeouts))


async def _send_with_timeout(world: World, timeout: float | None, send: Callable[[], Any]) -> bool:
    """True: the send returned; False: the application's own timeout expired (the send was abandoned)"""
    if timeout is None:
        await send()
        return True
    try:
        async with asyncio.timeout(timeout) as cm:
            await send()
    except TimeoutError:
        if not cm.expired():
            raise
        world.fault("cancel_at_time")
        return False
    return True


_LOCAL_EVENTS = ("cancel", "aclose", "aclose_cancel")  # performed by the application task; everything else is the remote side / the kernel


def _draw_events(world: World, n: int, kinds: tuple[str, ...], nsenders: int) -> list[tuple[float, str, int, int, str]]:
    """(when, kind, who, yields, via).  Times are on the same 1/64 s grid as link deliveries, so ties happen; `yields` is the
    number of extra loop turns the application task takes before acting (explores: local action and I/O callback in the same
    loop iteration, both orders); remote-side events run either from the application task's point of view (`main`) or as a world
    event inside select(), i.e. in the same iteration as the timers that expire at that instant (`world`)."""
    events = []
    for _ in range(n):
        kind = world.pick("event", kinds)
        if events and world.chance("event.tie", 1, 3):
            when = events[-1][0]  # same instant as the previously drawn event
        else:
            when = world.choose("event.t", 48) / 64.0
        who = world.choose("event.who", nsenders) if kind == "cancel" else 1 + world.choose("event.arg", 3)
        yields = world.choose("event.yields", 3)
        via = "main" if kind in _LOCAL_EVENTS else world.pick("event.via", ("main", "world"))
        events.append((when, kind, who, yields, via))
    events.sort(key=lambda e: e[0])  # stable: equal times keep draw order
    return events

async def _forced_close(world: World, transport: Any, k: int, name: str) -> None:
    """local aclose() that is cancelled after k loop turns: k == 0 is aclose_forcefully() (cancel scope with a deadline in the
    past: aclose() runs up to its first checkpoint), k > 0 cancels the task running aclose() after k turns of the loop"""
    if k <= 0:
        await aclose_forcefully(transport)
        return
    loop = asyncio.get_running_loop()
    t = loop.create_task(transport.aclose(), name=name)
    for _ in range(k):
        await asyncio.sleep(0)
    t.cancel()
    await asyncio.gather(t, return_exceptions=True)


def _check_fatal(world: World) -> None:
    if world.fatal is not None:
        raise world.fatal


# =================================================================================================== stream
def _h_stream(world: World) -> None:
    net = SimNet(world)
    # a third of the runs are fault-free (baseline): big link, no delay, peer reads, no events => every send completes
    baseline = world.choose("swarm.faults", 3) == 0
    capacity = (1 << 20) if baseline else world.pick("capacity", (64, 1, 7, 512, 4096, 100))
    if not baseline:
        world.fault("capacity_small")
    dsel = 0 if baseline else world.choose("link.delay", 3)
    if dsel:
        world.fault("delay")
    delivery = Delivery(0, 1, {0: (0,), 1: (1,), 2: tuple(range(0, 5))}[dsel])
    lib, psock = net.socketpair(delivery_ab=delivery, capacity_ab=capacity)
    peer = Peer(world, psock)
    backend = SimAsyncIOBackend(net)
    pipe = lib.tx_pipe
    assert pipe is not None

    nsenders = 1 + world.choose("nsenders", 5)
    max_size = max(16, min(20000, min(capacity, 4096) * 40))
    senders: list[_Sender] = []
    for i in range(nsenders):
        ops = []
        for _ in range(1 + world.choose("nsends", 3)):
            kind = world.pick("op", ("send_all", "send_all_from_iterable"))
            if kind == "send_all":
                sizes = [1 + world.choose("size", max_size)]
            else:
                sizes = [world.pick("chunk", (0, 1 + world.choose("csize", max_size // 2))) for _ in range(1 + world.choose("nchunks", 4))]
                if not any(sizes):
                    sizes[0] = 1 + world.choose("csize2", 64)
            ops.append((kind, sizes))
        senders.append(_Sender(i, ops))
    total_bytes = sum(sum(sz) for s in senders for _, sz in s.ops)
    abandon = _draw_abandon(world, senders, baseline)

    # peer reader script before any event: reads everything / is stopped from the start / reads k bytes every d
    peer_mode = "reads" if baseline else world.pick("peer.mode", ("reads", "stopped", "slow"))
    slow = {"gen": 0, "k": 1, "d": 1 / 64}

    def slow_tick(gen: int) -> None:
        if slow["gen"] != gen:
            return
        peer.pull(slow["k"])
        world.after(slow["d"], lambda: slow_tick(gen))

    def set_peer(mode: str) -> None:
        slow["gen"] += 1  # stops a running slow reader
        if mode == "reads":
            peer.resume_reading()
        elif mode == "stopped":
            peer.pause_reading()
        else:
            peer.reading = False
            slow.update(k=max(1, total_bytes // (8 + world.choose("slow.steps", 56))), d=(1 + world.choose("slow.period", 4)) / 64.0)
            gen = slow["gen"]
            world.after(slow["d"], lambda: slow_tick(gen))
            world.fault("peer_stops_reading")

    # events
    nevents = 0 if baseline else world.choose("nevents", 6)
    events = _draw_events(world, nevents, ("resume", "pause", "cancel", "rst", "aclose", "fin", "slow", "aclose_cancel"), nsenders)

    st: dict[str, Any] = {"issued": 0, "lost": False, "closing": False, "closer": None, "rst": False, "write_failed": False, "forced": False, "forcer": None}
    # fault "the socket write itself fails": from send call n on the OS refuses the bytes (ECONNRESET / EPIPE).  The loss is
    # noticed BY the write (inside transport.write()/writelines() of some send, or by the flush of a suspended one) in the
    # same loop step: asyncio marks the transport closing and only *schedules* connection_lost().
    wfail: tuple[int, int] | None = None
    if not baseline and world.chance("sw.write_fails", 1, 4):
        wfail = (world.choose("wfail.n", 12), world.pick("wfail.errno", (errno.ECONNRESET, errno.EPIPE)))
    send_calls = [0]

    def write_fault(sock: SimSocket, op: str):
        if op != "send" or wfail is None:
            return None
        k = send_calls[0]
        send_calls[0] += 1
        if k < wfail[0]:
            return None
        if not st["write_failed"]:
            st["write_failed"] = st["lost"] = True
            world.fault("errno_" + errno.errorcode[wfail[1]].lower())
            world.log("write_fails", k, wfail[1])
            if any(x.in_send for x in senders):
                world.probe("write_fails_during_a_send")
        cls = ConnectionResetError if wfail[1] == errno.ECONNRESET else BrokenPipeError
        return cls(wfail[1], os.strerror(wfail[1]))

    lib.fault_plan = write_fault
    notes = {"capacity": capacity, "peer": peer_mode, "senders": [[(k, sz) for k, sz in s.ops] for s in senders], "events": events, "write_fails_from_call": wfail, "op_timeouts_gaps": [list(zip(s.timeouts, s.gaps)) for s in senders] if abandon else None}
    world.notes.update({k: str(v) for k, v in notes.items()})

    def describe() -> str:
        return f"{notes}; outcomes={[s.outcomes for s in senders]} written={pipe.total_written} issued={st['issued']} peer_received={len(peer.received)}"

    async def sender_main(s: _Sender, transport: Any) -> None:
        try:
            for j, (kind, sizes) in enumerate(s.ops):
                if s.gaps[j]:
                    await asyncio.sleep(s.gaps[j])
                if st["closing"] or st["lost"]:
                    break  # a send issued on a transport the application closed / lost is outside the property
                n = sum(sizes)
                st["issued"] += n
                end = st["issued"]
                s.pending_end = end
                s.in_send = True
                world.log("send_start", s.idx, kind, n)
                try:
                    if kind == "send_all":
                        returned = await _send_with_timeout(world, s.timeouts[j], lambda: transport.send_all(_data(n)))
                    else:
                        returned = await _send_with_timeout(world, s.timeouts[j], lambda: transport.send_all_from_iterable([_data(k) for k in sizes]))
                    if not returned:
                        # given up by the application while suspended (its bytes stay queued in the transport, in issue
                        # order); the task goes on with its next send
                        s.outcomes.append("timeout")
                        world.log("send_end", s.idx, "timeout")
                        world.probe("send_abandoned_by_timeout")
                        continue
                except ConnectionError as exc:
                    s.outcomes.append("connection-error")
                    world.log("send_end", s.idx, "connection-error")
                    # ---- clause 1b: a suspended send whose bytes were ALL accepted by the socket is resumed (returns), it does
                    #      not report a failure -- demanded only where nothing but a graceful local close ended the connection
                    #      (connection_lost(None) after the flush): no reset, no write error, no forced close, sender not cancelled
                    if pipe.total_written >= end and st["closing"] and not (st["forced"] or st["lost"] or st["rst"] or st["write_failed"] or s.cancelled_by_harness):
                        world.probe("send_failed_although_handed_over")
                        world.fail(
                            Violation(
                                "resumed-when-peer-reads",
                                f"sender {s.idx}: {kind}({n} bytes) was suspended, another task closed the transport gracefully (aclose()), the peer read again and the socket accepted every byte of this "
                                f"send ({pipe.total_written} >= end offset {end}); no reset, no write error, nobody cancelled it -- yet the send raised {type(exc).__name__}: {exc} instead of returning "
                                f"(a caller trusting the outcome retransmits); {describe()}",
                                key="C20/stream/send-failed-although-handed-over",
                            )
                        )
                    break
                except asyncio.CancelledError:
                    s.outcomes.append("cancelled")
                    world.log("send_end", s.idx, "cancelled")
                    raise
                except _PASS_THROUGH:
                    raise
                except BaseException as exc:
                    s.outcomes.append(type(exc).__name__)
                    world.log("send_end", s.idx, type(exc).__name__)
                    s.error = exc
                    break
                finally:
                    s.in_send = False
                s.outcomes.append("ok")
                world.log("send_end", s.idx, "ok")
                world.progress(1)
                # ---- clause 1: the send returned => its bytes have been handed to the operating system
                if pipe.total_written < end:
                    short = end - pipe.total_written
                    op = "write" if kind == "send_all" else "writelines"
                    if st["write_failed"]:
                        # the connection was lost (the OS refused a write) while this send was in progress and its bytes
                        # were thrown away: it must fail with a connection error, not report success
                        world.fail(
                            Violation(
                                "fail-on-connection-loss",
                                f"sender {s.idx}: {kind}({n} bytes) returned normally although the socket write failed during the send and {short} of its bytes were discarded (the error only surfaces on a later send); {describe()}",
                                key=f"C20/stream/returned-ok-after-write-error/{op}",
                            )
                        )
                    world.fail(
                        Violation(
                            "handed-to-os-on-return",
                            f"sender {s.idx}: {kind}({n} bytes) returned but {short} of its bytes are still in the user-space write buffer (socket accepted {pipe.total_written} of the {end} bytes issued up to this write); {describe()}",
                            key=f"C20/stream/buffer-not-empty-on-return/{op}",
                        )
                    )
        finally:
            s.finished = True

    async def main() -> None:
        loop = asyncio.get_running_loop()
        if not baseline:
            swarm_selector(world, loop.sim_selector)  # type: ignore[attr-defined]
        transport = await backend.wrap_stream_socket(lib)
        set_peer(peer_mode)
        try:
            for s in senders:
                s.task = loop.create_task(sender_main(s, transport), name=f"c20-sender-{s.idx}")
            t0 = world.now
            def do_event(kind: str, who: int) -> None:
                world.log("event", kind, who)
                if kind == "resume":
                    set_peer("reads")
                elif kind == "pause":
                    set_peer("stopped")
                elif kind == "slow":
                    set_peer("slow")
                elif kind == "cancel":
                    s = senders[who]
                    assert s.task is not None
                    if not s.task.done():
                        s.cancelled_by_harness = True
                        s.task.cancel()
                        world.fault("cancel_at_time")
                        if s.in_send:
                            world.probe("cancel_suspended_sender")
                elif kind == "rst":
                    if not st["rst"]:
                        st["rst"] = st["lost"] = True
                        slow["gen"] += 1
                        peer.reset()
                        world.fault("rst_at")
                        if any(s.in_send for s in senders):
                            world.probe("rst_with_suspended_senders")
                elif kind == "fin":
                    peer.fin()
                    world.fault("fin_at")
                elif kind == "aclose":
                    if st["closer"] is None:
                        st["closing"] = True
                        if any(s.in_send for s in senders):
                            world.probe("aclose_with_suspended_senders")
                        st["closer"] = loop.create_task(transport.aclose(), name="c20-closer")
                elif kind == "aclose_cancel":
                    if st["forcer"] is None:
                        st["closing"] = st["forced"] = True
                        world.fault("cancel_at_iteration")
                        if any(s.in_send for s in senders):
                            world.probe("forced_close_with_suspended_senders")
                        st["forcer"] = loop.create_task(_forced_close(world, transport, who - 1, "c20-closer-cancelled"), name="c20-forcer")

            async def all_senders_end(bound: float, suffix: str) -> None:
                """liveness + outcome clauses over every sender started so far (`suffix` distinguishes the later-send phase)"""
                tasks = [s.task for s in senders if s.task is not None]
                ok = await wait_until(world, lambda: all(t.done() for t in tasks) or world.fatal is not None, max_time=bound, step=0.25)
                _check_fatal(world)
                if not ok:
                    stuck = [s.idx for s in senders if s.task is not None and not s.task.done()]
                    if st["forced"] and not st["lost"]:
                        clause, key = "fail-after-forced-close", "C20/stream/stranded-after-forced-close"
                    elif st["lost"]:
                        clause, key = "fail-on-connection-loss", "C20/stream/stranded-after-connection-loss"
                    elif any(s.cancelled_by_harness or "timeout" in s.outcomes for s in senders):
                        clause, key = "cancel-does-not-strand", "C20/stream/stranded-after-cancel"
                    else:
                        clause, key = "resumed-when-peer-reads", "C20/stream/stranded-after-resume"
                    if st["closing"] and not (st["forced"] and not st["lost"]):
                        key += "/local-aclose"
                    key += suffix
                    what = "a send issued after every earlier sender had ended (sender " + str(stuck) + ") is" if suffix else f"senders {stuck} are"
                    raise Violation(clause, f"{what} still suspended {bound} virtual seconds after the last event although {'the connection was lost' if st['lost'] else 'the local aclose() was cancelled (forced close, peer not reading)' if st['forced'] else 'the peer reads again'}; {describe()}", key=key)
                for s in senders:
                    assert s.task is not None
                    if s.task.cancelled():
                        if not s.cancelled_by_harness:
                            raise Violation("sender-outcome", f"sender {s.idx} ended cancelled although nobody cancelled it; {describe()}", key="C20/stream/spurious-cancel")
                        continue
                    exc = s.task.exception()
                    if exc is not None:
                        raise exc
                    for j, o in enumerate(s.outcomes):
                        if o == "timeout" and s.timeouts[j] is not None:
                            continue  # the application's own asyncio.timeout() expired
                        if o not in ("ok", "connection-error", "cancelled"):
                            raise Violation(
                                "fail-with-connection-error",
                                f"sender {s.idx}: a send failed with {o} ({s.error}); only a connection error is allowed; {describe()}",
                                key=f"C20/stream/send-raises/{o}",
                            )
                    if "connection-error" in s.outcomes and not (st["lost"] or st["closing"]):
                        raise Violation("sender-outcome", f"sender {s.idx} got a connection error although the connection was neither lost nor closed; {describe()}", key="C20/stream/spurious-connection-error")
                    if not st["lost"] and not st["closing"] and not s.cancelled_by_harness and not _all_completed(s):
                        raise Violation("resumed-when-peer-reads", f"sender {s.idx} did not complete all its sends: {s.outcomes}; {describe()}", key="C20/stream/incomplete")

            for when, kind, who, yields, via in events:
                if via == "world":
                    world.at(t0 + when, lambda kind=kind, who=who: do_event(kind, who))
            for when, kind, who, yields, via in events:
                delay = t0 + when - world.now
                if delay > 0:
                    await asyncio.sleep(delay)
                _check_fatal(world)
                if via == "main":
                    for _ in range(yields):
                        await asyncio.sleep(0)
                    do_event(kind, who)
            await asyncio.sleep(1 / 64)  # world-side events scheduled for this instant run inside the next select()
            _check_fatal(world)
            # ---- after the last fault: the peer reads again (unless the connection is gone)
            # -- except after a forced local close (aclose() cancelled): the transport must have been torn down, so every
            #    suspended sender has to END (with an error) even if the peer never reads again
            if st["forced"] and not st["lost"]:
                set_peer("stopped")
            elif not st["lost"]:
                set_peer("reads")
            suspended = [s.idx for s in senders if s.in_send]
            if len(suspended) >= 2:
                world.probe("several_suspended_at_last_fault")
            bound = 20.0 + 0.25 * (total_bytes / min(capacity, 4096) + 10)
            await all_senders_end(bound, "")
            # ---- history (still "after the last fault"): the connection is alive, the application did not close it, every
            #      earlier sender has ended -- possibly abandoned (cancelled) while suspended, its waiter is gone, and the peer
            #      then drained the write buffer with nobody waiting.  A send issued NOW must complete like any other one
            #      (its bytes handed to the OS on return); a sender abandoned earlier must not strand the later ones.
            if not st["lost"] and not st["closing"]:
                if any((s.cancelled_by_harness and "cancelled" in s.outcomes) or "timeout" in s.outcomes for s in senders):
                    world.probe("later_send_after_abandoned_suspended_sender")
                if world.pick("late.when", ("after-drain", "at-once")) == "after-drain":
                    # everything issued so far (abandoned sends included: their bytes stay queued) has been accepted by the socket
                    await wait_until(world, lambda: pipe.total_written >= st["issued"] or st["lost"] or world.fatal is not None, max_time=bound, step=1 / 64)
                    _check_fatal(world)
                lkind = world.pick("late.op", ("send_all", "send_all_from_iterable"))
                lsize = 1 + world.choose("late.size", max_size)
                late = _Sender(len(senders), [(lkind, [lsize] if lkind == "send_all" else [0, lsize, 0])])
                senders.append(late)
                late.task = loop.create_task(sender_main(late, transport), name=f"c20-sender-{late.idx}")
                await all_senders_end(20.0 + 0.25 * (lsize / min(capacity, 4096) + 10), "/later-send")
            if st["lost"]:
                world.probe("ended_with_connection_lost")
            if st["closer"] is not None:
                done, _ = await asyncio.wait([st["closer"]], timeout=bound)
                if not done:
                    if st["forced"] and not st["lost"]:
                        raise Violation("fail-after-forced-close", f"a second, uncancelled aclose() did not complete {bound} virtual seconds after the first one was cancelled (forced close, peer not reading); {describe()}", key="C20/stream/stranded-after-forced-close/aclose-task")
                    raise Violation("resumed-when-peer-reads", f"aclose() did not complete {bound} virtual seconds after the peer read everything; {describe()}", key="C20/stream/aclose-stranded")
                st["closer"].result()
        finally:
            for s in senders:
                if s.task is not None and not s.task.done():
                    s.task.cancel()
            await asyncio.gather(*[s.task for s in senders if s.task is not None], return_exceptions=True)
            for key_ in ("closer", "forcer"):
                if st[key_] is not None and not st[key_].done():
                    st[key_].cancel()
                    await asyncio.gather(st[key_], return_exceptions=True)
            from easynetwork.lowlevel.api_async.transports.utils import aclose_forcefully

            await aclose_forcefully(transport)
            if not lib.sim_closed:
                lib.close()  # deterministic release: otherwise a destructor closes (and logs) at an arbitrary later point

    with sim_sockets(net):
        run_async(world, main)
    _check_fatal(world)


# =================================================================================================== datagram
def _h_dgram(world: World, flavour: str) -> None:
    net = SimNet(world)
    backend = SimAsyncIOBackend(net)
    remote = ("10.1.2.3", 9999)
    nsenders = 1 + world.choose("nsenders", 5)
    senders: list[_Sender] = []
    for i in range(nsenders):
        ops = [("sendto", [world.pick("dsize", (30000, 8000, 20000, 45000, 60000, 100))]) for _ in range(1 + world.choose("nsends", 3))]
        senders.append(_Sender(i, ops))
    baseline = world.choose("swarm.faults", 3) == 0  # a third of the runs: socket always writable, no events
    abandon = _draw_abandon(world, senders, baseline)
    room0 = None if baseline else world.pick("room0", (0, 0, 1, 3, None))
    nevents = 0 if baseline else world.choose("nevents", 6)
    # (finding C20/dgram-listener/stranded-after-forced-close*, D21, is fixed in /repo: a cancelled local aclose() is generated
    #  on the listener like everywhere else; world.avoid_known is not consulted)
    kinds = ("open", "room", "block", "cancel", "aclose", "aclose_cancel")
    events = _draw_events(world, nevents, kinds, nsenders)
    st: dict[str, Any] = {"closing": False, "closer": None, "sock": None, "forced": False, "forcer": None, "issued": 0}
    # fault "sendto itself fails" (ECONNREFUSED / EPIPE / ECONNRESET for calls n .. n+k-1).  asyncio's datagram transport reports an
    # OSError of sendto through protocol.error_received() and stays open: the connection is NOT lost, so the property only
    # demands that nobody is stranded and that the other sends complete (nothing about the failed datagram itself).
    dfail: tuple[int, int, int] | None = None
    if not baseline and world.chance("sw.sendto_fails", 1, 4):
        dfail = (world.choose("dfail.n", 8), 1 + world.choose("dfail.k", 3), world.pick("dfail.errno", (errno.ECONNREFUSED, errno.EPIPE, errno.ECONNRESET)))
    sendto_calls = [0]

    def sendto_fault(sock_: SimSocket, op: str):
        if op != "sendto" or dfail is None:
            return None
        if sock_.dgram_send_room is not None and sock_.dgram_send_room <= 0:
            return None  # the socket is full: this call blocks (EAGAIN) and does not count
        k = sendto_calls[0]
        sendto_calls[0] += 1
        if dfail[0] <= k < dfail[0] + dfail[1]:
            world.fault("errno_" + errno.errorcode[dfail[2]].lower())
            world.log("sendto_fails", k, dfail[2])
            cls = {errno.ECONNREFUSED: ConnectionRefusedError, errno.EPIPE: BrokenPipeError, errno.ECONNRESET: ConnectionResetError}[dfail[2]]
            return cls(dfail[2], os.strerror(dfail[2]))
        return None
    notes = {"flavour": flavour, "room0": room0, "senders": [[sz[0] for _, sz in s.ops] for s in senders], "events": events, "sendto_fails": dfail, "op_timeouts_gaps": [list(zip(s.timeouts, s.gaps)) for s in senders] if abandon else None}
    world.notes.update({k: str(v) for k, v in notes.items()})

    def describe() -> str:
        sock = st["sock"]
        return f"{notes}; outcomes={[s.outcomes for s in senders]} datagrams_sent={len(sock.sent_log) if sock is not None else None}"

    async def sender_main(s: _Sender, send: Callable[[bytes], Any]) -> None:
        try:
            for j, (_, sizes) in enumerate(s.ops):
                if s.gaps[j]:
                    await asyncio.sleep(s.gaps[j])
                if st["closing"]:
                    break
                s.in_send = True
                st["issued"] += 1
                end = st["issued"]  # datagrams leave the socket in issue order (asyncio's queue is FIFO; abandoned ones stay queued)
                world.log("send_start", s.idx, sizes[0])
                try:
                    if not await _send_with_timeout(world, s.timeouts[j], lambda: send(_data(sizes[0]))):
                        s.outcomes.append("timeout")  # given up by the application while suspended; the task goes on
                        world.log("send_end", s.idx, "timeout")
                        world.probe("send_abandoned_by_timeout")
                        continue
                except ConnectionError as exc:
                    s.outcomes.append("connection-error")
                    world.log("send_end", s.idx, "connection-error")
                    # ---- same clause as stream 1b: the socket accepted this datagram (and all the earlier ones) before the
                    #      graceful local close completed; no sendto error injected, no forced close, sender not cancelled
                    sock_ = st["sock"]
                    if sock_ is not None and len(sock_.sent_log) >= end and dfail is None and st["closing"] and not st["forced"] and not s.cancelled_by_harness:
                        world.probe("send_failed_although_handed_over")
                        world.fail(
                            Violation(
                                "resumed-when-writable",
                                f"sender {s.idx}: the datagram ({sizes[0]} bytes, #{end} in issue order) was suspended, another task closed the transport gracefully (aclose()), the socket accepted it "
                                f"({len(sock_.sent_log)} datagrams sent) -- yet the send raised {type(exc).__name__}: {exc} instead of returning; {describe()}",
                                key=f"C20/dgram-{flavour}/send-failed-although-handed-over",
                            )
                        )
                    break
                except asyncio.CancelledError:
                    s.outcomes.append("cancelled")
                    world.log("send_end", s.idx, "cancelled")
                    raise
                except _PASS_THROUGH:
                    raise
                except BaseException as exc:
                    s.outcomes.append(type(exc).__name__)
                    world.log("send_end", s.idx, type(exc).__name__)
                    s.error = exc
                    break
                finally:
                    s.in_send = False
                s.outcomes.append("ok")
                world.log("send_end", s.idx, "ok")
                world.progress(1)
        finally:
            s.finished = True

    async def main() -> None:
        loop = asyncio.get_running_loop()
        if not baseline:
            swarm_selector(world, loop.sim_selector)  # type: ignore[attr-defined]
        if flavour == "endpoint":
            sock = SimSocket(net, _socket.AF_INET, _socket.SOCK_DGRAM, label="lib")
            sock.bind(("127.0.0.1", 0))
            sock.connect(remote)
            transport: Any = await backend.wrap_connected_datagram_socket(sock)
            send = transport.send
        else:
            listeners = await backend.create_udp_listeners("127.0.0.1", 5300)
            assert len(listeners) == 1
            transport = listeners[0]
            sock = net.bound[("127.0.0.1", 5300)]
            send = lambda data: transport.send_to(data, remote)  # noqa: E731
        st["sock"] = sock
        sock.fault_plan = sendto_fault
        sock.dgram_send_room = room0
        if room0 is not None:
            world.fault("capacity_small")
        try:
            for s in senders:
                s.task = loop.create_task(sender_main(s, send), name=f"c20-dsender-{s.idx}")
            t0 = world.now
            def do_event(kind: str, who: int) -> None:
                world.log("event", kind, who)
                if kind == "open":
                    sock.dgram_send_room = None
                elif kind == "room":
                    sock.dgram_send_room = who
                elif kind == "block":
                    sock.dgram_send_room = 0
                    world.fault("stall_peer")
                elif kind == "cancel":
                    s = senders[who]
                    assert s.task is not None
                    if not s.task.done():
                        s.cancelled_by_harness = True
                        s.task.cancel()
                        world.fault("cancel_at_time")
                        if s.in_send:
                            world.probe("cancel_suspended_sender")
                elif kind == "aclose":
                    if st["closer"] is None:
                        st["closing"] = True
                        if any(s.in_send for s in senders):
                            world.probe("aclose_with_suspended_senders")
                        st["closer"] = loop.create_task(transport.aclose(), name="c20-dcloser")
                elif kind == "aclose_cancel":
                    if st["forcer"] is None:
                        st["closing"] = st["forced"] = True
                        world.fault("cancel_at_iteration")
                        if any(s.in_send for s in senders):
                            world.probe("forced_close_with_suspended_senders")
                        st["forcer"] = loop.create_task(_forced_close(world, transport, who - 1, "c20-dcloser-cancelled"), name="c20-dforcer")
                if sum(1 for s in senders if s.in_send) >= 2:
                    world.probe("several_suspended")

            for when, kind, who, yields, via in events:
                if via == "world":
                    world.at(t0 + when, lambda kind=kind, who=who: do_event(kind, who))
            for when, kind, who, yields, via in events:
                delay = t0 + when - world.now
                if delay > 0:
                    await asyncio.sleep(delay)
                _check_fatal(world)
                if via == "main":
                    for _ in range(yields):
                        await asyncio.sleep(0)
                    do_event(kind, who)
            await asyncio.sleep(1 / 64)  # world-side events scheduled for this instant run inside the next select()
            _check_fatal(world)
            # ---- after the last fault the socket accepts datagrams again
            if sum(1 for s in senders if s.in_send) >= 2:
                world.probe("several_suspended_at_last_fault")
            # -- except after a forced local close (aclose() cancelled): every suspended sender has to END even if the
            #    socket never accepts a datagram again
            sock.dgram_send_room = 0 if st["forced"] else None
            bound = 30.0

            async def all_senders_end(suffix: str) -> None:
                tasks = [s.task for s in senders if s.task is not None]
                ok = await wait_until(world, lambda: all(t.done() for t in tasks) or world.fatal is not None, max_time=bound, step=0.25)
                _check_fatal(world)
                if not ok:
                    stuck = [s.idx for s in senders if s.task is not None and not s.task.done()]
                    if st["forced"]:
                        clause, key = "fail-after-forced-close", f"C20/dgram-{flavour}/stranded-after-forced-close"
                    elif any(s.cancelled_by_harness or "timeout" in s.outcomes for s in senders):
                        clause, key = "cancel-does-not-strand", f"C20/dgram-{flavour}/stranded-after-cancel"
                    else:
                        clause, key = "resumed-when-writable", f"C20/dgram-{flavour}/stranded-after-resume"
                    if st["closing"] and not st["forced"]:
                        key += "/local-aclose"
                    key += suffix
                    raise Violation(clause, f"{'a send issued after every earlier sender had ended is' if suffix else 'senders ' + str(stuck) + ' are'} still suspended {bound} virtual seconds after {'the local aclose() was cancelled (forced close, socket still full)' if st['forced'] else 'the socket accepts datagrams again'}; {describe()}", key=key)
                for s in senders:
                    assert s.task is not None
                    if s.task.cancelled():
                        if not s.cancelled_by_harness:
                            raise Violation("sender-outcome", f"sender {s.idx} ended cancelled although nobody cancelled it; {describe()}", key=f"C20/dgram-{flavour}/spurious-cancel")
                        continue
                    exc = s.task.exception()
                    if exc is not None:
                        raise exc
                    for j, o in enumerate(s.outcomes):
                        if o == "timeout" and s.timeouts[j] is not None:
                            continue  # the application's own asyncio.timeout() expired
                        if o not in ("ok", "connection-error", "cancelled"):
                            raise Violation("fail-with-connection-error", f"sender {s.idx}: a send failed with {o} ({s.error}); {describe()}", key=f"C20/dgram-{flavour}/send-raises/{o}")
                    if "connection-error" in s.outcomes and not st["closing"]:
                        raise Violation("sender-outcome", f"sender {s.idx} got a connection error although the transport was not closed; {describe()}", key=f"C20/dgram-{flavour}/spurious-connection-error")
                    if not st["closing"] and not s.cancelled_by_harness and not _all_completed(s):
                        raise Violation("resumed-when-writable", f"sender {s.idx} did not complete all its sends: {s.outcomes}; {describe()}", key=f"C20/dgram-{flavour}/incomplete")

            await all_senders_end("")
            # ---- history: the transport is open, every earlier sender has ended (possibly abandoned while suspended; the
            #      socket then flushed the queue with nobody waiting): a datagram sent NOW must go through like any other
            if not st["closing"]:
                if any((s.cancelled_by_harness and "cancelled" in s.outcomes) or "timeout" in s.outcomes for s in senders):
                    world.probe("later_send_after_abandoned_suspended_sender")
                if world.pick("late.when", ("after-drain", "at-once")) == "after-drain":
                    await asyncio.sleep(0.5)  # the socket accepts datagrams: asyncio's queue is flushed by now
                    _check_fatal(world)
                late = _Sender(len(senders), [("sendto", [world.pick("late.dsize", (100, 30000, 60000))])])
                senders.append(late)
                late.task = loop.create_task(sender_main(late, send), name=f"c20-dsender-{late.idx}")
                await all_senders_end("/later-send")
            if st["closer"] is not None:
                done, _ = await asyncio.wait([st["closer"]], timeout=bound)
                if not done:
                    if st["forced"]:
                        raise Violation("fail-after-forced-close", f"a second, uncancelled aclose() did not complete {bound} virtual seconds after the first one was cancelled (forced close, socket still full); {describe()}", key=f"C20/dgram-{flavour}/stranded-after-forced-close/aclose-task")
                    raise Violation("resumed-when-writable", f"aclose() did not complete {bound} virtual seconds after the socket became writable; {describe()}", key=f"C20/dgram-{flavour}/aclose-stranded")
                st["closer"].result()
        finally:
            for s in senders:
                if s.task is not None and not s.task.done():
                    s.task.cancel()
            await asyncio.gather(*[s.task for s in senders if s.task is not None], return_exceptions=True)
            for key_ in ("closer", "forcer"):
                if st[key_] is not None and not st[key_].done():
                    st[key_].cancel()
                    await asyncio.gather(st[key_], return_exceptions=True)
            sock.dgram_send_room = None
            from easynetwork.lowlevel.api_async.transports.utils import aclose_forcefully

            await aclose_forcefully(transport)
            if not sock.sim_closed:
                sock.close()  # deterministic release (see the stream harness)

    with sim_sockets(net):
        run_async(world, main)
    _check_fatal(world)


HARNESSES = [
    Harness("stream", _h_stream, weight=3),
    Harness("dgram-endpoint", lambda w: _h_dgram(w, "endpoint"), weight=1),
    Harness("dgram-listener", lambda w: _h_dgram(w, "listener"), weight=1),
]
