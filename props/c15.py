"""C15 — stream server: each request reaches the handler exactly once, in order (DESIGN §4 C15).

Real ``AsyncTCPNetworkServer`` (harness ``tcp-high``) and real low-level ``AsyncStreamServer`` (harness ``stream-low``)
on ``SimAsyncIOBackend`` / ``SimEventLoop``.  1-3 scripted remote peers connect through ``SimNet``, write request
streams made of valid and malformed frames (optionally with an unterminated tail) in several writes, fragmented and
delayed by the link, and finally FIN or RST.  The request handler is an instrumented state machine whose shape is
drawn per connection: requests consumed per ``handle()`` generator, yielded timeouts, virtual processing time,
``on_connection`` as coroutine / async generator consuming requests, ``client.aclose()`` at request r (then return or
yield again), raising at request r, catching or re-raising parse errors, continuing / returning / re-raising on
``TimeoutError``.

Harness ``tcp-high-busy`` (same server, same clauses) adds the handler shape "close while the client's send lock is
held": at the closing request the peer stops reading (link room 0-64 bytes), a second task of the handler is suspended
inside ``client.send_packet()`` of a large response (it owns the send lock), and the handler closes the client with
``move_on_after(d): aclose()`` / ``aclose_forcefully(client)`` / ``timeout(d): aclose()`` / plain ``aclose()``, d in
{0, 1/64, 2/64, 8/64} s, while the peer starts reading again never / after 1-8/64 s (so the close is either cut short
while waiting for the lock -> documented forceful close, or completes after the sender).  The handler counts as having
closed the client from the moment the close is *started*, whatever its outcome; the generator then returns or yields
again: no further generator may be started, the active one is closed exactly once, the socket ends closed.

Per-connection fault "connection given up by the kernel" (high level harnesses, 1/6 of the non-calm connections): from a
drawn instant of the connection's life (uniform between connect and the peer's end, on a 1/128 s grid: before any
request, between requests, inside a frame, while the handler is suspended at ``yield None`` / ``yield <timeout>`` or busy)
the server-side socket has the pending error ETIMEDOUT: it polls readable/writable and recv()/send() fail with the
builtin ``TimeoutError`` (an OSError which is no ConnectionError).  That is a disconnection, never the handler's
timeout: ``timeout-unjustified`` (a TimeoutError at ``yield None``, or before the yielded timeout expired = site
``early``), ``sequence`` (what was observed is still a prefix, exactly once, in order), ``generator-close`` and
``connection-closed`` apply; ``sequence-incomplete`` does not (bytes not yet pulled from the socket are lost with it).
Every yield of the handler is inside ``try/except TimeoutError`` with the drawn reaction continue / return / re-raise, so
"except TimeoutError: continue" around ``yield None`` and around ``yield <timeout>`` are both exercised; once a
violation is flagged the handler re-raises instead (a handler resumed with a stored error for ever, without any
checkpoint, would freeze the loop and turn the finding into a watchdog HARNESS-ERROR).

Oracle clauses (violation keys ``C15/<harness>/<copy|buffered>/<clause>[/<site>]``):
  sequence            the values/parse errors observed inside the handler are a prefix of the frame-by-frame reference
                      decoding of the bytes the peer wrote (exactly once, in order, across generator restarts)
  sequence-incomplete the connection ended by the peer's FIN and the handler did not end it itself => the handler saw
                      *every* complete frame
  request-after-close nothing is delivered after the handler closed the client
  timeout-unjustified TimeoutError was thrown although the completing byte of the awaited request had become visible on
                      the socket strictly before the deadline (exact ties accept both outcomes; a yielded timeout of 0
                      is a single poll and only counted, see check_timeout), or although the handler yielded None, or
                      (site ``early``) before the yielded timeout had expired
  spurious-close      the active generator was closed although neither the peer disconnected nor the handler closed
  unexpected-exception something else than a parse error / TimeoutError / a justified transport error reached the handler
  generator-close     no generator is started after the handler closed the client and its generator ended; every generator instance that was started ran its ``finally`` exactly once by the time the
                      connection is closed; at most one GeneratorExit per instance; never two active per connection
  connection-closed   after the peer disconnected / the handler ended, the server-side SimSocket ends closed
  wire                bytes handed to the socket == concatenation of the responses in handler order
"""
from __future__ import annotations

import asyncio
import base64
import errno

from easynetwork.exceptions import DeserializeError, StreamProtocolParseError
from easynetwork.lowlevel.api_async.servers.stream import AsyncStreamServer
from easynetwork.lowlevel.api_async.transports.utils import aclose_forcefully
from easynetwork.lowlevel.socket import INETSocketAttribute
from easynetwork.protocol import BufferedStreamProtocol, StreamProtocol
from easynetwork.serializers.json import JSONSerializer
from easynetwork.serializers.line import StringLineSerializer
from easynetwork.serializers.wrapper.base64 import Base64EncoderSerializer
from easynetwork.servers.async_tcp import AsyncTCPNetworkServer
from easynetwork.servers.handlers import AsyncStreamRequestHandler, INETClientAttribute

from vsim.backend import SimAsyncIOBackend, sim_sockets
from vsim.harness import CallFaults, Peer, swarm_selector
from vsim.loop import run_async, settle, wait_until
from vsim.runner import Harness
from vsim.sock import Delivery, SimNet
from vsim.world import HarnessError, Violation, World

PROPERTY = "C15"
LEVEL = "exploration"
RULE = (
    "per run: serializer in {StringLineSerializer(ascii), JSONSerializer(lines)} x receive path {StreamProtocol, BufferedStreamProtocol} x "
    "max_recv_size in {16384,1,2,3,5,8,64}; 1-3 peers, each a stream of 1-6 frames of kinds {valid, undecodable, empty(line only)} plus an "
    "optional unterminated tail, written in 1..n segments at virtual times on a 1/64 s grid through a link with fragmentation "
    "{whole, byte, fixed, random} and per-fragment delays, ended by FIN or RST; handler shape per connection: requests per handle() "
    "generator 1-4 (restart), yielded timeouts {None, 0, 1/1024, 2/64, 8/64, 32/64} s, processing sleeps, on_connection coroutine / async generator "
    "consuming 0-2 requests, aclose()/raise at request r, parse errors caught or re-raised, TimeoutError continue/return/re-raise; "
    "selector hold/reorder/spurious readiness; rare injected recv() error (EHOSTUNREACH from the n-th call); high level: 1/6 of the connections are "
    "given up by the kernel at a drawn instant of their life (pending socket error ETIMEDOUT: recv/send raise the builtin TimeoutError) = a disconnection, "
    "never a TimeoutError for the handler, whose every yield (None or a timeout) sits in try/except TimeoutError: continue/return/re-raise. Harness tcp-high-busy: additionally the close happens while a second "
    "task of the handler is blocked in client.send_packet() towards a peer that stopped reading (send lock held, link room {0,1,16,64} bytes, "
    "packet 96-1024 bytes): close shape {move_on_after(d): aclose(), aclose_forcefully(client), timeout(d): aclose(), aclose()} x d in {0,1,2,8}/64 s x "
    "peer reads again {never, after 1,2,4,8 /64 s}, then return / yield again (close started => no new generator, generator closed once, socket closed). "
    "Non-trivial run = a fault kind fired and >=1 request observed."
)
COMPONENTS_REAL = [
    "easynetwork.servers.async_tcp.AsyncTCPNetworkServer",
    "easynetwork.servers.misc.build_lowlevel_stream_server_handler",
    "easynetwork.lowlevel.api_async.servers.stream.AsyncStreamServer",
    "easynetwork.lowlevel._stream consumers",
    "easynetwork asyncio backend (ListenerSocketAdapter, AcceptedSocketFactory, StreamReaderBufferedProtocol, CancelScope, TaskGroup)",
    "CPython asyncio selector event loop and _SelectorSocketTransport",
]
COMPONENTS_STUB = ["SimSocket", "SimSelector", "virtual clock", "scripted peers (vsim.harness.Peer)", "name resolution (numeric hosts)"]
ASSUMPTIONS = [
    "a stream recv never under-reports what is visible; fragmentation is modelled by when bytes become visible (DESIGN 2.6)",
    "SO_LINGER(0) set by the server before an ungraceful close is not modelled; the wire clause is evaluated on the bytes handed to the socket",
    "handler processing is instantaneous in virtual time except for its explicit sleeps",
]
BUDGET = {"quick": 40, "thorough": 480}

HOST = "127.0.0.1"
PORT = 5015
G = 1.0 / 64

try:  # the shared reference model (DESIGN §8); a local equivalent is used when it is not importable
    from models.frames import Framing as _Framing, reference_outcomes as _ref_outcomes, same_outcome as _same_outcome, split_frames as _split_frames
except Exception:  # pragma: no cover
    _Framing = None


# ------------------------------------------------------------------------------------------------ reference model
def _strict_eq(a, b) -> bool:
    if type(a) is not type(b):
        return False
    if isinstance(a, (list, tuple)):
        return len(a) == len(b) and all(_strict_eq(x, y) for x, y in zip(a, b))
    if isinstance(a, dict):
        return list(a.keys()) == list(b.keys()) and all(_strict_eq(a[k], b[k]) for k in a)
    return bool(a == b)


def _same(a: tuple, b: tuple) -> bool:
    if _Framing is not None:
        return _same_outcome(a, b)
    return a[0] == b[0] and (_strict_eq(a[1], b[1]) if a[0] == "pkt" else a[1] == b[1])


def _reference(fresh, stream: bytes) -> tuple[list[tuple], list[int]]:
    """-> (outcome per complete frame, end offset (one past the terminator) of every complete frame).
    Split at the leftmost LF occurrences; decode each frame alone with a FRESH serializer (one-shot)."""
    if _Framing is not None:
        cfg = _Framing(kind="separator", fresh=fresh, separator=b"\n")
        frames, _tail = _split_frames(cfg, stream)
        return _ref_outcomes(cfg, stream), [f.term_end for f in frames]
    out: list[tuple] = []
    ends: list[int] = []
    pos = 0
    while (i := stream.find(b"\n", pos)) >= 0:
        try:
            out.append(("pkt", fresh().deserialize(stream[pos:i])))
        except DeserializeError:
            out.append(("err", "IncrementalDeserializeError"))
        ends.append(i + 1)
        pos = i + 1
    return out, ends


# ------------------------------------------------------------------------------------------------ scenario
TIMEOUTS = (None, 8 * G, 32 * G, 2 * G, 0.0, G / 16)  # 0.0 = "only if a request is already there" poll
SLEEPS = (0.0, 0.0, 4 * G, 16 * G)
GAPS = (0, 0, 1, 2, 4, 8, 16, 32)
A_NONE, A_CLOSE_RETURN, A_CLOSE_YIELD, A_RAISE = 0, 1, 2, 3
# close-while-a-sender-is-blocked shapes (harness tcp-high-busy)
B_MOVE_ON, B_FORCEFULLY, B_TIMEOUT, B_PLAIN = 0, 1, 2, 3  # move_on_after(d): aclose() / aclose_forcefully(client) / timeout(d): aclose() / aclose()
BUSY_DEADLINES = (2 * G, 0.0, G, 8 * G)
BUSY_RESUMES = (None, 4 * G, G, 2 * G, 8 * G)  # when the peer reads again after the blocked send started (None: never)
BUSY_ROOMS = (16, 0, 1, 64)  # free room left in the link when the background send starts
BUSY_SIZES = (256, 96, 1024)  # filler of the background packet (always larger than the room)


class HandlerBoom(Exception):
    pass


def _fresh_factory(fam: int):
    if fam == 0:
        return lambda: StringLineSerializer("LF", encoding="ascii", limit=1024)
    if fam == 1:
        return lambda: JSONSerializer(limit=1024)
    # JSONSerializer has no buffered interface: on the buffer-filling path JSON travels inside the base64 line wrapper
    return lambda: Base64EncoderSerializer(JSONSerializer(), separator=b"\n", limit=1024)


def _gen_frame(world: World, rng, fam: int, k: int, i: int) -> tuple[str, bytes]:
    if fam == 2:
        kind, p = _gen_frame(world, rng, 1, k, i)
        p = base64.urlsafe_b64encode(p)
        if kind == "bad" and rng.randrange(2):
            p = p[:1] + b"!" + p[2:]  # not base64 at all
        return kind, p
    kind = world.pick("kind", ["valid", "valid", "bad", "valid", "empty"])
    fill = "".join(rng.choice("abcdefgh") for _ in range(rng.randrange(0, 13)))
    if fam == 0:
        if kind == "empty":
            return kind, b""
        p = bytearray(f"c{k}r{i}{fill}".encode())
        if kind == "bad":
            p[rng.randrange(len(p))] = 0xE9
        return kind, bytes(p)
    if kind == "empty":
        kind = "valid"
    shape = rng.randrange(3)
    if kind == "valid":
        if shape == 0:
            return kind, f'{{"c":{k},"i":{i},"p":"{fill}"}}'.encode()
        if shape == 1:
            return kind, f'[{k},{i},"{fill}"]'.encode()
        return kind, f'"c{k}r{i}{fill}"'.encode()
    if shape == 0:
        return kind, f'{{"c":{k},"i":}}'.encode()
    if shape == 1:
        return kind, f'[{k},,{i}]'.encode()
    return kind, f'{{"c":{k},"p":"'.encode() + b"\xff" + b'"}'


def _gen_conn(world: World, fam: int, k: int, level: str, calm: bool, busy: bool = False) -> dict:
    rng = world.sub_rng(f"fill{k}")
    nframes = 1 + world.choose("nframes", 6)
    frames = [_gen_frame(world, rng, fam, k, i) for i in range(nframes)]
    stream = b"".join(p + b"\n" for _, p in frames)
    tail = b""
    if world.chance("tail", 1, 4):
        tail = f"t{k}".encode() + bytes(rng.choice(b"xyz") for _ in range(rng.randrange(0, 6)))
    stream += tail
    # segmentation of the peer's writes
    seg_mode = world.choose("seg", 3)  # 0 whole, 1 one write per frame, 2 random cuts
    cuts: list[int] = []
    if seg_mode == 1:
        pos = 0
        for _, p in frames:
            pos += len(p) + 1
            cuts.append(pos)
    elif seg_mode == 2:
        ncuts = 1 + world.choose("ncuts", 5)
        cuts = sorted({1 + world.choose("cut", max(1, len(stream) - 1)) for _ in range(ncuts)})
    cuts = [c for c in cuts if 0 < c < len(stream)]
    bounds = [0] + cuts + [len(stream)]
    t = world.choose("tconn", 4) * 8
    t_conn = t
    writes = []
    for a, b in zip(bounds, bounds[1:]):
        if a == b:
            continue
        t += world.pick("gap", GAPS)
        writes.append((t, stream[a:b]))
    end_kind = "rst" if not calm and world.chance("rst", 1, 5) else "fin"
    if end_kind == "rst" and writes and world.chance("rst_early", 1, 2):
        t_end = world.pick("rst_t", [w[0] for w in writes]) + world.choose("rst_off", 2)
    else:
        t_end = t + world.pick("endgap", GAPS)
    n_items = nframes + 2
    plan = {
        "oc": world.choose("oc", 4) if level == "high" else 0,  # 0 coroutine, 1/2 asyncgen consuming 1/2 requests, 3 asyncgen without yield
        "gen_lens": [1 + world.choose("genlen", 4) for _ in range(8)] if level == "high" else [0 if not world.chance("ll_return", 1, 4) else 1 + world.choose("ll_n", 4)],
        "timeouts": [world.choose("tmo", len(TIMEOUTS)) for _ in range(n_items)],
        "sleeps": [world.choose("sleep", 4) for _ in range(n_items)],
        "end_at": world.choose("end_at", n_items + 1),  # 0 = the handler never ends the connection itself
        "end_kind": 1 + world.choose("end_kind", 2 if calm else 3),
        "err_mode": 0 if calm else world.choose("err_mode", 2),  # 0 catch and continue, 1 re-raise
        "tmo_mode": world.choose("tmo_mode", 2 if calm else 3),  # 0 wait again, 1 return (generator restart), 2 re-raise
        "recv_fail": (2 + world.choose("recv_fail_n", 6)) if not calm and world.chance("recv_fail", 1, 12) else 0,
        "filter": 0 if level == "high" else world.choose("filter", 2),  # low level: 1 = disconnect_error_filter=None
    }
    # the kernel gives the connection up (keep-alive probes / retransmissions unanswered): from a drawn instant of the
    # connection's life (before any request, between requests, inside a frame, while the handler waits at ``yield None`` /
    # ``yield <timeout>`` or is busy) the server side's recv fails with ETIMEDOUT, i.e. the builtin TimeoutError, which is
    # a disconnection and not a timeout of the handler.  High level only: at the low level the filter is the caller's.
    plan["etimedout"] = None
    if level == "high" and not calm and world.chance("etimedout", 1, 6):
        span = max(t_end, t_conn) - t_conn + 3
        plan["etimedout"] = t_conn + world.choose("etimedout_t", span) + (0.5 if world.chance("etimedout_half", 1, 2) else 0.0)
        plan["recv_fail"] = 0
    if busy:
        # harness tcp-high-busy: the handler closes the client while another task of the handler is blocked in
        # client.send_packet() (the peer stopped reading), i.e. while the client's send lock is held (see Ctx.close_busy)
        if plan["end_at"] == 0 and world.chance("busy_force_end", 3, 4):
            plan["end_at"] = 1 + world.choose("busy_end_at", nframes)
        if plan["end_at"]:
            plan["end_kind"] = 1 + world.choose("busy_end_kind", 2)  # close then return / close then yield again
            mode = world.choose("busy_mode", 4)
            resume = world.pick("busy_resume", BUSY_RESUMES)
            if mode == B_PLAIN and resume is None:
                resume = BUSY_RESUMES[1]  # a close without deadline needs the peer to read again (else the handler waits for ever: its own business)
            plan["busy"] = {
                "mode": mode,
                "deadline": world.pick("busy_deadline", BUSY_DEADLINES),
                "resume": resume,
                "room": world.pick("busy_room", BUSY_ROOMS),
                "size": world.pick("busy_size", BUSY_SIZES),
            }
    return {"k": k, "frames": frames, "stream": stream, "tail": tail, "t_conn": t_conn, "writes": writes, "end": end_kind, "t_end": max(t_end, t_conn), "plan": plan}


def _gen(world: World, level: str, busy: bool = False) -> dict:
    calm = world.choose("swarm", 3) == 0  # a third of the runs: no fault kind at all (baseline)
    fam = world.choose("ser", 2)
    buffered = bool(world.choose("path", 2))
    if fam == 1 and buffered:
        fam = 2
    mrs = world.pick("max_recv", [16384, 1, 2, 3, 5, 8, 64])
    npeers = 1 + world.choose("npeers", 3)
    conns = [_gen_conn(world, fam, k, level, calm, busy) for k in range(npeers)]
    return {"calm": calm, "fam": fam, "buffered": buffered, "max_recv": mrs, "conns": conns, "level": level}


# ------------------------------------------------------------------------------------------------ instrumentation
class GenRec:
    __slots__ = ("kind", "n", "finallies", "genexits", "active")

    def __init__(self, kind: str, n: int):
        self.kind = kind
        self.n = n
        self.finallies = 0
        self.genexits = 0
        self.active = True


class Conn:
    def __init__(self, ctx: "Ctx", sc: dict):
        self.ctx = ctx
        self.sc = sc
        self.k = sc["k"]
        self.label = f"p{self.k}"
        self.plan = sc["plan"]
        self.ref, self.ends = _reference(ctx.fresh, sc["stream"])
        self.peer: Peer | None = None
        self.srv = None  # server-side SimSocket
        self.items: list[tuple] = []  # values / parse errors observed inside the handler
        self.gens: list[GenRec] = []
        self.ntimeouts = 0
        self.handler_closed_at: int | None = None
        self.handler_end: tuple | None = None  # (cause, number of items observed then)
        self.rst_done = False
        self.etimedout_done = False  # the server side's socket reports ETIMEDOUT from now on (connection given up)
        self.waiting: str | None = None  # "none" / "timeout": the handler is suspended at ``yield None`` / ``yield <timeout>``
        self.resp_done: list[bytes] = []
        self.resp_pending: bytes | None = None
        self.gen_index = 0
        self.disconnections = 0
        self.bg_tasks: list[asyncio.Task] = []  # background senders started by the handler (tcp-high-busy)
        self.bg_state: str | None = None

    # what the handler is going to do
    def timeout_for(self, i: int) -> float | None:
        if self.ntimeouts >= 40:
            return None
        t = self.plan["timeouts"]
        return TIMEOUTS[t[i] if i < len(t) else 0]

    def sleep_for(self, i: int) -> float:
        s = self.plan["sleeps"]
        return SLEEPS[s[i] if i < len(s) else 0]

    def action_at(self, i: int) -> int:
        return self.plan["end_kind"] if self.plan["end_at"] == i + 1 else A_NONE

    def next_gen_len(self) -> int:
        lens = self.plan["gen_lens"]
        n = lens[self.gen_index % len(lens)]
        self.gen_index += 1
        return n

    def peer_gone(self) -> bool:
        p = self.srv.rx_pipe if self.srv is not None else None
        return self.rst_done or self.etimedout_done or (p is not None and (p.fin_visible or p.rst))


class Ctx:
    def __init__(self, world: World, net: SimNet, sc: dict, name: str):
        self.world = world
        self.net = net
        self.sc = sc
        self.name = name
        self.path = "buffered" if sc["buffered"] else "copy"
        self.fresh = _fresh_factory(sc["fam"])
        self.conns = [Conn(self, c) for c in sc["conns"]]
        self.by_port: dict[int, Conn] = {}
        self.stopping = False
        self.connecting: Conn | None = None
        self.violation: Violation | None = None

    def key(self, clause: str, site: str = "") -> str:
        return f"C15/{self.name}/{self.path}/{clause}" + (f"/{site}" if site else "")

    def flag(self, clause: str, message: str, site: str = "", conn: "Conn | None" = None) -> None:
        if self.violation is None:
            self.violation = Violation(clause, message, key=self.key(clause, site))
            self.world.log("violation", clause, site)

    def response(self, conn: Conn, i: int, item: tuple):
        tag = f"{conn.k}.{i}.{'E' if item[0] == 'err' else 'P'}"
        return tag if self.sc["fam"] == 0 else {"r": tag}

    def encode(self, resp) -> bytes:
        return b"".join(self.fresh().incremental_serialize(resp))

    # -------------------------------------------------------------------------------------- the handler body
    async def consume(self, conn: Conn, client, kind: str, n: int):
        """Async generator: consume up to n requests (n == 0: unbounded), instrumented."""
        world = self.world
        low = self.sc["level"] == "low"
        for g in conn.gens:
            if g.active:
                self.flag("generator-close", f"{conn.label}: generator {kind!r} started while generator {g.kind!r} of the same connection is still active", "two-active", conn=conn)
        if conn.handler_closed_at is not None or conn.handler_end is not None:
            self.flag(
                "generator-close",
                f"{conn.label}: a new generator {kind!r} was started after the handler had closed the client / ended the connection "
                f"(closed at request #{conn.handler_closed_at}, end={conn.handler_end}) and its generator had finished",
                "started-after-close",
                conn=conn,
            )
        rec = GenRec(kind, n)
        conn.gens.append(rec)
        world.log("gen", conn.label, kind, n)
        if len(conn.gens) > 1:
            world.probe("generator_restart")
        try:
            seen = 0
            while n == 0 or seen < n:
                i = len(conn.items)
                T = conn.timeout_for(i)
                t0 = world.now
                c0 = world.creep_iterations
                if conn.handler_end is not None:
                    self.flag("request-after-close", f"{conn.label}: handler generator {kind!r} is asked for a request after the handler ended the connection {conn.handler_end}", conn=conn)
                conn.waiting = "none" if T is None else "timeout"
                try:
                    try:
                        req = yield T
                    finally:
                        conn.waiting = None
                except GeneratorExit:
                    rec.genexits += 1
                    world.log("genexit", conn.label, kind)
                    if not (self.stopping or conn.handler_closed_at is not None or conn.peer_gone()):
                        self.flag("spurious-close", f"{conn.label}: generator {kind!r} closed at t={world.now} after {len(conn.items)} requests although the peer is still connected (no FIN/RST visible) and the handler did not close the client; ref has {len(conn.ref)} frames", conn=conn)
                    raise
                except TimeoutError:
                    conn.ntimeouts += 1
                    world.log("tmo", conn.label, i)
                    world.probe("timeout_thrown")
                    self.check_timeout(conn, i, t0, T, world.creep_iterations - c0)
                    if self.violation is not None:
                        # the finding is recorded: a handler that went on ("except TimeoutError: continue", or a restart)
                        # could be resumed with the same error for ever without any checkpoint and freeze the loop
                        conn.handler_end = ("stop-after-violation", len(conn.items))
                        raise
                    mode = conn.plan["tmo_mode"]
                    if mode == 0:
                        continue
                    if mode == 1 and not low:
                        return  # the server starts a fresh handle() generator
                    conn.handler_end = ("timeout-return" if mode == 1 or low else "timeout-raise", len(conn.items))
                    if low:
                        return  # low level: an exception escaping the generator is the caller's business (it would stop serve())
                    raise
                except StreamProtocolParseError as exc:
                    item = ("err", type(exc.error).__name__)
                    caught = exc
                except OSError as exc:
                    world.log("oserr", conn.label, type(exc).__name__)
                    injected = conn.plan["recv_fail"] and exc.errno == errno.EHOSTUNREACH
                    unfiltered_rst = conn.plan["filter"] == 1 and conn.rst_done and isinstance(exc, ConnectionError)
                    if not (injected or unfiltered_rst):
                        self.flag("unexpected-exception", f"{conn.label}: {type(exc).__name__}({exc}) thrown into the handler at request {i}", type(exc).__name__, conn=conn)
                    else:
                        world.probe("transport_error_thrown")
                    conn.handler_end = ("transport-error", len(conn.items))
                    if low:
                        return
                    raise
                except BaseException as exc:
                    if not self.stopping:
                        self.flag("unexpected-exception", f"{conn.label}: {type(exc).__name__}({exc}) thrown into the handler at request {i}", type(exc).__name__, conn=conn)
                    raise
                else:
                    item = ("pkt", req)
                    caught = None
                if conn.handler_closed_at is not None:
                    self.flag("request-after-close", f"{conn.label}: request #{i} {item!r} delivered after the handler closed the client at request #{conn.handler_closed_at}", conn=conn)
                conn.items.append(item)
                seen += 1
                world.progress(1)
                world.log("obs", conn.label, i, item[0])
                if item[0] == "err":
                    world.probe("parse_error_thrown")
                d = conn.sleep_for(i)
                if d:
                    await asyncio.sleep(d)
                resp = self.encode(self.response(conn, i, item))
                conn.resp_pending = resp
                try:
                    await client.send_packet(self.response(conn, i, item))
                except Exception:
                    conn.handler_end = ("send-error", len(conn.items))
                    if low:
                        return
                    raise
                conn.resp_pending = None
                conn.resp_done.append(resp)
                if caught is not None and conn.plan["err_mode"] == 1:
                    conn.handler_end = ("reraise-parse-error", len(conn.items))
                    world.fault("handler_raises")
                    if low:
                        return
                    raise caught
                act = conn.action_at(i)
                if act == A_RAISE:
                    conn.handler_end = ("raise", len(conn.items))
                    world.fault("handler_raises")
                    if low:
                        return
                    raise HandlerBoom(f"boom at {i}")
                if act in (A_CLOSE_RETURN, A_CLOSE_YIELD):
                    world.probe("handler_closes_client")
                    world.log("hclose", conn.label, i)
                    if conn.plan.get("busy") is not None:
                        await self.close_busy(conn, client, i, conn.plan["busy"])
                    else:
                        await client.aclose()
                        conn.handler_closed_at = i
                    if act == A_CLOSE_RETURN:
                        return
            if low:
                conn.handler_end = ("return", len(conn.items))
        finally:
            rec.finallies += 1
            rec.active = False
            world.log("genfin", conn.label, kind)

    # -------------------------------------------------------------------- close while the send lock is held
    async def bg_send(self, conn: Conn, client, size: int, started: asyncio.Event) -> None:
        """Second task of the handler: one large response to a peer that does not read -> suspended inside
        client.send_packet() with the client's send lock held."""
        world = self.world
        tag = f"{conn.k}.bg." + "B" * size
        packet = tag if self.sc["fam"] == 0 else {"r": tag}
        conn.resp_pending = self.encode(packet)
        conn.bg_state = "sending"
        world.log("bg_send", conn.label, size)
        started.set()
        try:
            await client.send_packet(packet)
        except asyncio.CancelledError:
            conn.bg_state = "cancelled"
            raise
        except Exception as exc:
            # the connection was closed under the blocked send: which error it gets is not C15's business
            conn.bg_state = "failed"
            world.log("bg_failed", conn.label, type(exc).__name__)
        else:
            conn.bg_state = "sent"
            conn.resp_done.append(conn.resp_pending)
            conn.resp_pending = None
            world.log("bg_sent", conn.label)
            world.probe("busy_sender_completed")

    async def close_busy(self, conn: Conn, client, i: int, busy: dict) -> None:
        """The handler closes the client while another of its tasks holds the client's send lock (blocked send_packet(),
        the peer does not read): client.aclose() has to wait for the lock and is, depending on the drawn shape, cut short
        by a deadline / aclose_forcefully() (documented: the client is then closed forcefully), or completes once the
        peer reads again.  Whatever the outcome, from here on the handler has closed the client."""
        world = self.world
        backend = client.backend()
        pipe = conn.srv.tx_pipe
        conn.peer.pause_reading()  # counts the fault kind peer_stops_reading
        pipe.capacity = len(pipe.flight) + len(pipe.rx) + busy["room"]
        world.fault("capacity_small")
        started = asyncio.Event()
        task = asyncio.create_task(self.bg_send(conn, client, busy["size"], started), name=f"c15-bg-{conn.label}")
        conn.bg_tasks.append(task)
        await started.wait()
        await asyncio.sleep(0)  # the sender is now suspended in its first flush (or already failed: peer gone)
        if busy["resume"] is not None:
            world.after(busy["resume"], lambda: (None if conn.rst_done else conn.peer.resume_reading()))
        blocked = conn.bg_state == "sending"
        if blocked:
            world.probe("close_while_sender_blocked")
        world.log("hclose_busy", conn.label, i, busy["mode"], blocked)
        conn.handler_closed_at = i  # the close starts here; its outcome does not matter for the clauses
        mode = busy["mode"]
        if mode == B_MOVE_ON:
            with backend.move_on_after(busy["deadline"]) as scope:
                await client.aclose()
            cut = scope.cancelled_caught()
        elif mode == B_FORCEFULLY:
            await aclose_forcefully(client)
            cut = True
        elif mode == B_TIMEOUT:
            try:
                with backend.timeout(busy["deadline"]):
                    await client.aclose()
                cut = False
            except TimeoutError:
                cut = True
        else:
            await client.aclose()
            cut = False
        world.log("hclosed_busy", conn.label, cut, conn.bg_state)
        if cut and blocked:
            world.fault("cancel_at_time")
            world.probe("aclose_cut_short_while_send_lock_held")
        elif blocked:
            world.probe("aclose_completed_after_blocked_sender")

    def check_timeout(self, conn: Conn, i: int, t0: float, T: float | None, crept: int = 0) -> None:
        world = self.world
        if T is None:
            self.flag("timeout-unjustified", f"{conn.label}: TimeoutError thrown into the handler at t={world.now} although it yielded None (server-side recv fails with ETIMEDOUT: {conn.etimedout_done})", conn=conn)
            return
        if T > 0 and world.now + 1e-6 < t0 + T:
            # the yielded timeout has not expired yet: this TimeoutError is not the handler's timeout (e.g. an OSError of
            # the transport with errno ETIMEDOUT thrown into the handler instead of being treated as a disconnection)
            self.flag(
                "timeout-unjustified",
                f"{conn.label}: TimeoutError thrown into the handler at t={world.now} although the timeout {T} yielded at t={t0} had not expired "
                f"(deadline >= {t0 + T}); server-side recv fails with ETIMEDOUT since: {conn.plan.get('etimedout') if conn.etimedout_done else None} (1/64 s)",
                "early",
                conn=conn,
            )
            return
        if i >= len(conn.ends) or conn.srv is None:
            return
        tv = conn.srv.rx_pipe.time_visible(conn.ends[i])
        if tv is None:
            return
        slack = world.creep_iterations * World.CREEP
        if T == 0:
            # An already expired deadline is a single poll: the receiver is cancelled at its first checkpoint.  A request
            # that is complete on the socket / in the transport's buffer but has not been pulled into the consumer yet
            # is then answered with TimeoutError (nothing is lost; it is delivered by the next wait).  Whether "it was
            # already there" holds is not decidable from outside (same rule as DESIGN C11 for T == 0), so only the
            # exactly-once / in-order clauses apply to such a wait.  Counted, not asserted.
            world.probe("timeout_zero_poll")
            if tv + slack < t0:
                world.probe("timeout_zero_poll_while_request_visible")
            return
        if crept * World.CREEP >= T:
            # the whole wait was virtual CPU time (DESIGN 2.1 creep: the receiver needed more zero-wait loop iterations
            # to pull the bytes through than the timeout lasts): a time comparison means nothing here
            world.probe("timeout_within_creep")
            return
        if tv == t0 + T:
            world.probe("timeout_exact_tie")
        if tv + slack < t0 + T:
            self.flag(
                "timeout-unjustified",
                f"{conn.label}: TimeoutError at t={world.now} for a wait started at t={t0} with timeout {T} while request #{i} "
                f"(stream bytes ..{conn.ends[i]}) was completely visible on the socket at t={tv}",
                conn=conn,
            )


class HighHandler(AsyncStreamRequestHandler):
    def __init__(self, ctx: Ctx):
        self.ctx = ctx

    def _conn(self, client) -> Conn:
        addr = client.extra(INETClientAttribute.remote_address)
        return self.ctx.by_port[addr.port]

    def on_connection(self, client):
        conn = self._conn(client)
        oc = conn.plan["oc"]
        if oc == 0:
            return self._oc(conn)
        self.ctx.world.probe("on_connection_asyncgen")
        return self.ctx.consume(conn, client, "oc", {1: 1, 2: 2, 3: -1}[oc])

    async def _oc(self, conn: Conn) -> None:
        self.ctx.world.log("oc", conn.label)

    async def on_disconnection(self, client) -> None:
        conn = self._conn(client)
        conn.disconnections += 1
        self.ctx.world.log("od", conn.label)

    def handle(self, client):
        conn = self._conn(client)
        return self.ctx.consume(conn, client, "handle", conn.next_gen_len())


# ------------------------------------------------------------------------------------------------ one run
def _run(world: World, level: str, busy: bool = False) -> None:
    name = ("tcp-high-busy" if busy else "tcp-high") if level == "high" else "stream-low"
    sc = _gen(world, level, busy)
    net = SimNet(world)
    backend = SimAsyncIOBackend(net)
    ctx = Ctx(world, net, sc, name)
    world.notes.update(
        serializer=("line", "json", "b64json")[sc["fam"]],
        path=ctx.path,
        max_recv=sc["max_recv"],
        conns=[
            {"frames": [(k, p.decode("latin1")) for k, p in c["frames"]], "tail": c["tail"].decode("latin1"), "writes": [(t, len(d)) for t, d in c["writes"]], "end": (c["end"], c["t_end"]), "plan": c["plan"]}
            for c in sc["conns"]
        ],
    )

    def on_pair(srv, peer_sock) -> None:
        conn = ctx.connecting
        if conn is None:
            raise HarnessError("unexpected connection")
        ctx.by_port[peer_sock.sockname[1]] = conn
        conn.srv = srv
        n = conn.plan["recv_fail"]
        if n:
            cf = CallFaults(world)
            cf.fail_from["recv"] = (n, errno.EHOSTUNREACH)
            srv.fault_plan = cf

    net.on_accept_pair = on_pair

    def connect(conn: Conn) -> None:
        lst = net.listeners[(HOST, PORT)]
        delivery = Delivery() if sc["calm"] else Delivery.draw(world, f"link{conn.k}")
        ctx.connecting = conn
        psock = net.connect_to_listener(lst, label=conn.label, delivery_ba=delivery)
        ctx.connecting = None
        conn.peer = Peer(world, psock)
        for t, data in conn.sc["writes"]:
            world.at(t * G, lambda data=data, conn=conn: (None if conn.rst_done or conn.etimedout_done else conn.peer.write(data)))
        if conn.plan["etimedout"] is not None:

            def give_up(conn=conn) -> None:
                srv = conn.srv
                if srv is None or srv.sim_closed:
                    return
                conn.etimedout_done = True
                world.log("etimedout", conn.label)
                world.probe("etimedout_while_handler_" + ("busy" if conn.waiting is None else "waits_at_yield_" + conn.waiting))
                vis = srv.rx_pipe.total_visible
                if not conn.items:
                    world.probe("etimedout_before_first_request")
                if vis not in (0, *conn.ends) and vis < len(conn.sc["stream"]):
                    world.probe("etimedout_inside_frame")
                elif 0 < vis < len(conn.sc["stream"]):
                    world.probe("etimedout_between_requests")
                cf = CallFaults(world)  # counts the fault kind errno_etimedout when a recv() really fails
                cf.fail_from["recv"] = (0, errno.ETIMEDOUT)
                srv.fault_plan = cf
                srv.so_error = errno.ETIMEDOUT  # pending socket error: the socket polls readable/writable, send fails too

            world.at(max(world.now, conn.plan["etimedout"] * G), give_up)
        if conn.sc["end"] == "fin":
            world.at(conn.sc["t_end"] * G, conn.peer.fin)
        else:

            def rst(conn=conn) -> None:
                conn.rst_done = True
                world.fault("rst_at")
                conn.peer.reset()

            world.at(conn.sc["t_end"] * G, rst)

    def make_protocol():
        ser = ctx.fresh()
        return BufferedStreamProtocol(ser) if sc["buffered"] else StreamProtocol(ser)

    def all_done() -> bool:
        return all(c.srv is not None and c.srv.sim_closed and world.now >= c.sc["t_end"] * G for c in ctx.conns)

    async def drive() -> None:
        for conn in ctx.conns:
            world.at(max(world.now, conn.sc["t_conn"] * G), lambda conn=conn: connect(conn))
        # a flagged violation ends the run at once (a handler that spins under a defective library must not turn the
        # finding into a step-cap HARNESS-ERROR); without a violation this is the old condition
        done = await wait_until(world, lambda: ctx.violation is not None or all_done(), max_time=400.0, step=0.25)
        # a handler that was asleep when its socket was closed under it (RST, recv error) finishes its sleep first
        await asyncio.sleep(1.0)
        await settle(world, 12)
        if not done:
            bad = [c.label for c in ctx.conns if c.srv is None or not c.srv.sim_closed]
            ctx.flag("connection-closed", f"connections {bad} still open 400 virtual seconds after the peers disconnected / the handlers ended; t={world.now}")
        # background senders of the handlers (tcp-high-busy): their connection is closed, they have been woken up
        for c in ctx.conns:
            for t in c.bg_tasks:
                if not t.done():
                    world.probe("busy_sender_still_blocked_after_close")  # not C15's business (C14/C16: teardown)
                    world.log("bg_stuck", c.label)
                    t.cancel()
            await asyncio.gather(*c.bg_tasks, return_exceptions=True)
        # generator accounting is evaluated at the moment every connection is closed, before the server is stopped
        for c in ctx.conns:
            for g in c.gens:
                if g.finallies != 1:
                    ctx.flag("generator-close", f"{c.label}: generator {g.kind!r} (n={g.n}) ran its finally block {g.finallies} times by the time the connection was closed", "finally-count", conn=c)
                if g.genexits > 1:
                    ctx.flag("generator-close", f"{c.label}: generator {g.kind!r} received GeneratorExit {g.genexits} times", "double-genexit", conn=c)
        ctx.stopping = True
        world.log("stopping")

    async def amain_high() -> None:
        loop = asyncio.get_running_loop()
        if not sc["calm"]:
            swarm_selector(world, loop.sim_selector)
        server = AsyncTCPNetworkServer(HOST, PORT, make_protocol(), HighHandler(ctx), backend=backend, max_recv_size=sc["max_recv"])
        async with server:
            up = asyncio.Event()
            task = asyncio.create_task(server.serve_forever(is_up_event=up), name="c15-serve")
            await up.wait()
            await drive()
            await server.shutdown()
            await task

    async def amain_low() -> None:
        loop = asyncio.get_running_loop()
        if not sc["calm"]:
            swarm_selector(world, loop.sim_selector)
        listeners = await backend.create_tcp_listeners(HOST, PORT, 100)
        server = AsyncStreamServer(listeners[0], make_protocol(), sc["max_recv"])

        def cb(client):
            peername = client.extra(INETSocketAttribute.peername)
            conn = ctx.by_port[peername[1]]
            return ctx.consume(conn, client, "cb", conn.next_gen_len())

        def flt(exc: Exception) -> bool:
            return isinstance(exc, ConnectionError)

        use_filter = any(c.plan["filter"] == 0 for c in ctx.conns)
        for c in ctx.conns:
            c.plan["filter"] = 0 if use_filter else 1

        task = asyncio.create_task(server.serve(cb, None, disconnect_error_filter=flt if use_filter else None), name="c15-serve")
        await asyncio.sleep(0)
        await drive()
        if task.done():
            ctx.flag("connection-closed", f"AsyncStreamServer.serve() ended by itself: {task.exception()!r}", "serve-ended")
        task.cancel()
        await asyncio.gather(task, return_exceptions=True)
        await server.aclose()

    with sim_sockets(net):
        run_async(world, amain_high if level == "high" else amain_low)
    if ctx.violation is not None:
        raise ctx.violation
    _final_checks(ctx)


def _final_checks(ctx: Ctx) -> None:
    world = ctx.world
    for c in ctx.conns:
        ref = c.ref
        desc = f"{c.label}: serializer={('line', 'json', 'b64json')[ctx.sc['fam']]} path={ctx.path} max_recv={ctx.sc['max_recv']} stream={c.sc['stream']!r} writes={[(t, len(d)) for t, d in c.sc['writes']]} end={c.sc['end']}@{c.sc['t_end']} plan={c.plan}"
        # 1. exactly once, in order
        for i, item in enumerate(c.items):
            if i >= len(ref) or not _same(item, ref[i]):
                raise Violation("sequence", f"{desc}\n handler observed {c.items}\n reference        {ref}\n first difference at #{i}", key=ctx.key("sequence"))
        # 2. completeness when the peer's FIN ended the connection
        handler_ended = c.handler_end is not None or c.handler_closed_at is not None
        if not handler_ended and c.sc["end"] == "fin" and not c.etimedout_done and len(c.items) != len(ref):
            raise Violation("sequence-incomplete", f"{desc}\n the peer wrote {len(ref)} complete frames and then FIN; the handler did not end the connection but observed only {c.items}\n reference {ref}", key=ctx.key("sequence-incomplete"))
        if c.handler_end is not None and len(c.items) != c.handler_end[1]:
            raise Violation("request-after-close", f"{desc}\n handler ended the connection {c.handler_end} but observed {len(c.items)} requests", key=ctx.key("request-after-close"))
        # 3. the connection's socket ends closed
        if c.srv is None or not c.srv.sim_closed:
            raise Violation("connection-closed", f"{desc}\n server-side socket not closed at the end of the run", key=ctx.key("connection-closed"))
        # 4. generators
        for g in c.gens:
            if g.finallies != 1 or g.genexits > 1 or g.active:
                raise Violation("generator-close", f"{desc}\n generator {g.kind!r}: finally x{g.finallies}, GeneratorExit x{g.genexits}, active={g.active}", key=ctx.key("generator-close", "final"))
        # 5. responses on the wire: contiguous, in handler order
        wire = b"".join(c.srv.sent_log)
        exp = b"".join(c.resp_done)
        ok = wire == exp or (c.resp_pending is not None and wire.startswith(exp) and c.resp_pending.startswith(wire[len(exp) :]))
        if not ok:
            raise Violation("wire", f"{desc}\n bytes handed to the socket {wire!r}\n responses completed in handler order {exp!r} (pending {c.resp_pending!r})", key=ctx.key("wire"))
        if c.peer is not None and not wire.startswith(bytes(c.peer.received)):
            raise HarnessError(f"simulator: peer received {bytes(c.peer.received)!r}, not a prefix of what the socket accepted {wire!r}")
        if c.peer is not None:
            c.peer.close()


HARNESSES = [
    Harness("tcp-high", lambda w: _run(w, "high"), weight=2),
    Harness("stream-low", lambda w: _run(w, "low"), weight=1),
    Harness("tcp-high-busy", lambda w: _run(w, "high", busy=True), weight=1),
]
