"""C16 — datagram server: per-client FIFO, one active handler, nothing dropped (DESIGN §4 C16).

Real ``AsyncUDPNetworkServer`` (harness ``udp-high``) and real low-level ``AsyncDatagramServer`` (harness
``dgram-low``) over CPython's real ``_SelectorDatagramTransport`` on the ``SimSocket`` the library itself creates
(through ``sim_sockets``; found in ``net.bound``).  2-4 remote client addresses.  The world decides when every datagram
becomes visible on the server socket: scripted arrivals on a 1/64 s grid (gap 0 = burst: several datagrams queued on
the socket at the same instant, read one per loop iteration), optionally held back a few loop iterations, and
*reactive* arrivals injected exactly when a handler finishes a request (in the same task step, or 1-3 loop iterations
later) — the race between "client task finishing" and "next datagram arriving".  Handler shape per client: requests
consumed per generator (1-4, then return => a fresh generator has to be started for queued datagrams), virtual
processing time per request, yielded timeouts for the following request (wait again / return / raise on expiry),
exceptions (high-level server only: the low-level server documents nothing about them), the handler ending with
asyncio.CancelledError (both servers: supported, the server keeps running), malformed datagrams.
History: in a third of the faulty runs serving is stopped once at a quiescent moment (low level: the serve() task is
cancelled; high level: shutdown()), datagrams reach the socket while nobody serves, and the SAME server object serves
again; what arrived in between and afterwards must be delivered exactly once, in order (latency counted from the
moment serving resumed).
The documented "generator returns before its first yield => datagram discarded" case is never generated.

Oracle clauses (violation keys ``C16/<harness>/<clause>[/<site>]``):
  fifo        per address: what the handlers observed (values / parse errors, across generator instances) is, at any
              time, a prefix of the arrival order at the socket (``net.dgram_log``) — in order, exactly once
  one-active  instrumentation counter "active generators for this address" never exceeds 1
  liveness    once arrivals have stopped, every datagram delivered to the socket has been handled
  latency     request i of a client is finished no later than f_i = max(arrival_i, f_(i-1)) + own processing time of
              request i  (single-server FIFO model of THAT client alone; everything but the handler's own sleeps takes
              zero virtual time, loop iterations are free): neither a queued datagram waits for an unrelated event,
              nor does another client's slow handler delay this one
  server-up   serve() / serve_forever() is still running when the workload ends
  stop-hangs  cancelling serve() / shutdown() completes (stops may coincide with the expiry of a handler's yielded
              timeout and happen while a handler polls with expired timeouts); needed for the serve-again history
"""
from __future__ import annotations

import asyncio

from easynetwork.exceptions import DatagramProtocolParseError
from easynetwork.lowlevel.api_async.servers.datagram import AsyncDatagramServer
from easynetwork.protocol import DatagramProtocol
from easynetwork.serializers.line import StringLineSerializer
from easynetwork.servers.async_udp import AsyncUDPNetworkServer
from easynetwork.servers.handlers import AsyncDatagramRequestHandler, INETClientAttribute

from vsim.backend import SimAsyncIOBackend, sim_sockets
from vsim.harness import swarm_selector
from vsim.loop import run_async, settle
from vsim.runner import Harness
from vsim.sock import SimNet
from vsim.world import HarnessError, Violation, World

PROPERTY = "C16"
LEVEL = "exploration"
RULE = (
    "per run: 2-4 client addresses, 3-14 scripted datagrams (valid / undecodable) with inter-arrival gaps {0(burst),1,2,8,32}/64 s, "
    "each optionally held back 1-3 loop iterations, plus up to 3 reactive datagrams per client injected when a handler finishes a "
    "request (same task step or 1-3 iterations later, to the same or another client); handler shape per client: requests per generator "
    "1-4, processing sleeps {0,2,8,32}/64 s, yielded timeouts {None, 0, 1/1024, 4/64, 16/64} s with wait-again/return/raise, handler exceptions "
    "(high-level server), handler raising asyncio.CancelledError after request r (both servers), parse errors caught or re-raised; selector hold/reorder/spurious readiness. "
    "Non-trivial run = a fault kind fired and >=1 request handled."
)
COMPONENTS_REAL = [
    "easynetwork.servers.async_udp.AsyncUDPNetworkServer",
    "easynetwork.servers.misc.build_lowlevel_datagram_server_handler",
    "easynetwork.lowlevel.api_async.servers.datagram.AsyncDatagramServer",
    "easynetwork asyncio backend (DatagramListenerSocketAdapter, DatagramListenerProtocol, TaskGroup, Condition, CancelScope)",
    "CPython asyncio selector event loop and _SelectorDatagramTransport",
]
COMPONENTS_STUB = ["SimSocket (datagram)", "SimSelector", "virtual clock", "remote clients = datagrams injected by the world"]
ASSUMPTIONS = [
    "the asyncio ready queue is FIFO (call_soon order is never permuted)",
    "everything except the handlers' explicit sleeps takes zero virtual time (loop iterations are free until the creep threshold)",
    "datagrams are never lost between the socket queue and recvfrom",
]
BUDGET = {"quick": 40, "thorough": 480}

HOST = "127.0.0.1"
PORT = 5016
G = 1.0 / 64
GAPS = (0, 0, 1, 2, 8, 32, 0, 1)
SLEEPS = (0.0, 2 * G, 8 * G, 32 * G)
STOP_BOUND = 30.0
TIMEOUTS = (None, 4 * G, 16 * G, 0.0, G / 16)  # 0.0 = poll ("only if a datagram is already queued")


class HandlerBoom(Exception):
    pass


# ------------------------------------------------------------------------------------------------ scenario
def _gen_client(world: World, k: int, low: bool, calm: bool) -> dict:
    n_items = 20
    return {
        "k": k,
        "addr": (f"10.0.0.{k + 1}", 6000 + k),
        "gen_lens": [1 + world.choose("genlen", 4) for _ in range(6)],
        "sleeps": [world.choose("sleep", 4) for _ in range(n_items)],
        "timeouts": [world.choose("tmo", len(TIMEOUTS)) for _ in range(n_items)],
        "tmo_mode": world.choose("tmo_mode", 2 if (calm or low) else 3),  # 0 wait again, 1 return, 2 re-raise TimeoutError
        "err_mode": 0 if (calm or low) else world.choose("err_mode", 2),  # parse error: 0 catch, 1 re-raise
        "raise_at": 0 if (calm or low) else world.choose("raise_at", 8),  # 0 never; else raise after request raise_at-1
        # the handler itself ends with asyncio.CancelledError after request cancel_at-1 (supported: the server keeps
        # running, see the functional test test____serve_forever____request_handler_is_cancelled); both servers
        "cancel_at": 0 if calm else world.choose("cancel_at", 6),
        # reactive arrivals: after finishing request i -> (target client offset, iteration offset)
        "react": {} if calm else {world.choose("react_i", 8): (world.choose("react_to", 2), world.choose("react_o", 4)) for _ in range(world.choose("nreact", 4))},
    }


def _gen(world: World, low: bool) -> dict:
    calm = world.choose("swarm", 3) == 0
    nclients = 2 + world.choose("nclients", 3)
    clients = [_gen_client(world, k, low, calm) for k in range(nclients)]
    n = 3 + world.choose("ndgrams", 12)
    t = 4
    arrivals = []
    for j in range(n):
        t += world.pick("gap", GAPS)
        k = world.choose("who", nclients)
        bad = (not calm) and world.chance("bad", 1, 8)
        hold = 0 if calm else world.pick("hold", (0, 0, 0, 1, 2, 3))
        arrivals.append({"t": t, "k": k, "bad": bad, "hold": hold})
    # history: serving stopped while everything delivered so far has been handled (low level: the serve() task is
    # cancelled; high level: shutdown()), datagrams keep reaching the socket while nobody serves, then the SAME
    # server object serves again (the high-level server keeps its listeners between serve_forever() calls too)
    pause = None
    if not calm and world.chance("pause", 1, 3):
        pause = {
            "t": world.pick("pause_t", [a["t"] for a in arrivals]) + world.choose("pause_off", 3),
            "gap": world.pick("pause_gap", (0, 1, 2, 8, 32)),
            "dgrams": [world.choose("pause_who", nclients) for _ in range(world.choose("pause_n", 4))],
            # 0: stop at the scripted time; 1: move to the instant a waiting handler's yielded timeout expires;
            # 2: stop issued by the world at the very moment a handler finishes a request and nothing is left in
            #    flight (the handler may go on polling with expired timeouts while the stop travels to its task)
            "aim": world.choose("pause_aim", 3),
        }
    aim_final = 0 if calm else world.choose("aim_final", 3)  # same three modes for the stop at the end of the workload
    return {"calm": calm, "low": low, "clients": clients, "arrivals": arrivals, "pause": pause, "aim_final": aim_final}


# ------------------------------------------------------------------------------------------------ instrumentation
class Client:
    def __init__(self, sc: dict):
        self.sc = sc
        self.k = sc["k"]
        self.addr = sc["addr"]
        self.label = f"c{self.k}"
        self.items: list[tuple] = []  # observed by the handlers, in order
        self.obs_t: list[float] = []
        self.fin_t: list[float] = []  # time at which the handler finished request i (None while running)
        self.proc: list[float] = []  # the handler's own processing time of request i
        self.active = 0
        self.max_active = 0
        self.gen_index = 0
        self.ngens = 0
        self.ntimeouts = 0
        self.sent = 0  # datagrams injected for this address
        self.wait_deadline: float | None = None  # absolute deadline of the finite timeout the handler is waiting with
        self.reacted = 0

    def next_gen_len(self) -> int:
        lens = self.sc["gen_lens"]
        n = lens[self.gen_index % len(lens)]
        self.gen_index += 1
        return n

    def sleep_for(self, i: int) -> float:
        s = self.sc["sleeps"]
        return SLEEPS[s[i % len(s)]]

    def timeout_for(self, i: int) -> float | None:
        if self.ntimeouts >= 30:
            return None
        t = self.sc["timeouts"]
        return TIMEOUTS[t[i % len(t)]]


class Ctx:
    def __init__(self, world: World, net: SimNet, sc: dict, name: str):
        self.world = world
        self.net = net
        self.sc = sc
        self.name = name
        self.low = sc["low"]
        self.clients = [Client(c) for c in sc["clients"]]
        self.by_port = {c.addr[1]: c for c in self.clients}
        self.sock = None  # the server's SimSocket
        self.staged: list[list] = []  # [iterations left, client, payload]
        self.stopping = False
        self.pausing = False
        self.resuming = False
        self.stop_armed: str | None = None  # "pause" / "final": the next handler that leaves the system quiescent requests the stop
        self.stop_event: asyncio.Event | None = None
        self.aborted_at: int | None = None  # len(world.trace) when a hanging stop was torn down
        self.pauses: list[tuple[int, float]] = []  # (len(net.dgram_log) when serving stopped, time serving resumed)
        self.violation: Violation | None = None
        self.scripted_left = len(sc["arrivals"])

    def key(self, clause: str, site: str = "") -> str:
        return f"C16/{self.name}/{clause}" + (f"/{site}" if site else "")

    def flag(self, clause: str, message: str, site: str = "") -> None:
        if self.violation is None:
            self.violation = Violation(clause, message, key=self.key(clause, site))
            self.world.log("violation", clause, site)

    # ---- arrivals
    def payload(self, cl: Client, bad: bool) -> bytes:
        p = f"c{cl.k}n{cl.sent}".encode()
        cl.sent += 1
        if bad:
            self.world.fault("dgram_corrupt")
            p = b"\xe9" + p
        return p

    def inject(self, cl: Client, data: bytes) -> None:
        if self.sock is None or self.sock.sim_closed:
            raise HarnessError("server socket is gone")
        self.net.inject_dgram(self.sock, data, cl.addr)

    def arrive(self, cl: Client, bad: bool, hold: int) -> None:
        data = self.payload(cl, bad)  # the sequence number is given at decision time; holding back may reorder *arrivals*, which is fine
        if hold <= 0:
            self.inject(cl, data)
        else:
            self.world.fault("delay")
            self.staged.append([hold, cl, data])

    def hook(self) -> None:
        """before every loop iteration: release datagrams that were held back for a number of iterations"""
        if not self.staged:
            return
        keep = []
        for ent in self.staged:
            ent[0] -= 1
            if ent[0] <= 0:
                self.inject(ent[1], ent[2])
            else:
                keep.append(ent)
        self.staged = keep

    # ---- handler body (shared by both servers)
    async def consume(self, cl: Client, send):
        world = self.world
        cl.active += 1
        cl.ngens += 1
        cl.max_active = max(cl.max_active, cl.active)
        world.log("gen", cl.label, cl.active)
        if cl.ngens > 1:
            world.probe("fresh_generator")
        if cl.active > 1:
            self.flag("one-active", f"{cl.label} {cl.addr}: {cl.active} handler generators active at the same time at t={world.now}; observed so far {cl.items}")
        try:
            k = cl.next_gen_len()
            seen = 0
            T: float | None = None
            while seen < k:
                cl.wait_deadline = None if T is None else world.now + T
                try:
                    try:
                        req = yield T
                    finally:
                        cl.wait_deadline = None
                except GeneratorExit:
                    world.log("genexit", cl.label)
                    raise
                except TimeoutError:
                    if T is None:
                        self.flag("fifo", f"{cl.label}: TimeoutError thrown into the handler although it yielded None", "timeout-none")
                    cl.ntimeouts += 1
                    world.log("tmo", cl.label)
                    world.probe("timeout_thrown")
                    mode = cl.sc["tmo_mode"]
                    if mode == 0:
                        T = cl.timeout_for(len(cl.items))
                        continue
                    if mode == 1:
                        return
                    world.fault("handler_raises")
                    raise
                except DatagramProtocolParseError as exc:
                    item = ("err",)
                    caught = exc
                except BaseException as exc:
                    if not (self.stopping or self.pausing):
                        self.flag("fifo", f"{cl.label}: unexpected {type(exc).__name__}({exc}) thrown into the handler", "unexpected-exception")
                    raise
                else:
                    item = ("pkt", req)
                    caught = None
                i = len(cl.items)
                cl.items.append(item)
                cl.obs_t.append(world.now)
                cl.fin_t.append(None)
                d = cl.sleep_for(i)
                cl.proc.append(d)
                seen += 1
                world.log("obs", cl.label, i, item[0])
                if item[0] == "err":
                    world.probe("parse_error_thrown")
                if d:
                    await asyncio.sleep(d)
                await send(f"ack{i}")
                cl.fin_t[i] = world.now
                world.progress(1)
                world.log("done", cl.label, i)
                react = cl.sc["react"].get(i)
                if react is not None and cl.reacted < 3:
                    cl.reacted += 1
                    tgt = self.clients[(cl.k + react[0]) % len(self.clients)]
                    world.probe("reactive_arrival_same_client" if tgt is cl else "reactive_arrival_other_client")
                    self.arrive(tgt, False, react[1])
                self.maybe_request_stop()
                if caught is not None and cl.sc["err_mode"] == 1:
                    world.fault("handler_raises")
                    raise caught
                if cl.sc["raise_at"] == i + 1:
                    world.fault("handler_raises")
                    raise HandlerBoom(f"boom at {i}")
                if cl.sc["cancel_at"] == i + 1:
                    world.fault("handler_raises")
                    world.probe("handler_raises_cancelled_error")
                    world.log("hcancel", cl.label, i)
                    raise asyncio.CancelledError()
                T = cl.timeout_for(i + 1)
        finally:
            cl.active -= 1
            world.log("genfin", cl.label)

    def expected(self, cl: Client) -> list[tuple]:
        """arrival order at the socket for this address, decoded alone"""
        out = []
        for _t, src, _dst, data in self.net.dgram_log:
            if src == cl.addr:
                out.append(("err",) if data[:1] == b"\xe9" else ("pkt", data.decode("ascii")))
        return out

    def arrival_times(self, cl: Client) -> list[float]:
        return [t for t, src, _dst, _data in self.net.dgram_log if src == cl.addr]

    def service_times(self, cl: Client) -> list[float]:
        """arrival time, or the time serving resumed for datagrams that reached the socket while nobody served"""
        out = []
        for n, (t, src, _dst, _data) in enumerate(self.net.dgram_log):
            if src == cl.addr:
                for n_stop, t_resume in self.pauses:
                    if n >= n_stop:
                        t = max(t, t_resume)
                out.append(t)
        return out

    def quiescent(self) -> bool:
        """everything that reached the socket so far has been handled completely, nothing is in between"""
        if self.staged or self.sock.dgram_q:
            return False
        for cl in self.clients:
            n = sum(1 for _t, src, _d, _p in self.net.dgram_log if src == cl.addr)
            if len(cl.items) != n or any(t is None for t in cl.fin_t):
                return False
        return True

    def model_finish(self, cl: Client) -> list[float]:
        """single-server FIFO model of this client alone"""
        arr = self.service_times(cl)
        out: list[float] = []
        prev = 0.0
        for i, a in enumerate(arr):
            p = cl.proc[i] if i < len(cl.proc) else cl.sleep_for(i)
            prev = max(a, prev) + p
            out.append(prev)
        return out

    def maybe_request_stop(self) -> None:
        """called by a handler that has just finished a request: reactive stop (aim mode 2)"""
        if self.stop_armed is None or self.stop_event is None:
            return
        if self.stop_armed == "final" and not self.all_handled():
            return
        if not self.quiescent():
            return
        self.world.probe("stop_requested_when_handler_finishes")
        self.world.log("stopreq", self.stop_armed)
        self.stop_armed = None
        self.stop_event.set()

    async def wait_stop_request(self, kind: str, max_wait: float) -> None:
        self.stop_event = asyncio.Event()
        self.stop_armed = kind
        t_end = self.world.now + max_wait
        while not self.stop_event.is_set() and self.world.now < t_end and self.violation is None:
            try:  # wake up regularly: datagrams held back by the iteration hook need loop iterations
                await asyncio.wait_for(self.stop_event.wait(), 0.25)
            except TimeoutError:
                pass
        self.stop_armed = None

    async def aim(self) -> None:
        """if a handler is waiting with a finite yielded timeout, move to the very instant at which it expires, so that
        the stop that follows coincides with the expiry (cancellation and timeout in the same loop iteration)"""
        now = self.world.now
        ds = [cl.wait_deadline for cl in self.clients if cl.wait_deadline is not None and cl.wait_deadline > now]
        if ds:
            self.world.probe("stop_aimed_at_timeout_expiry")
            self.world.fault("coincide_timer")
            await asyncio.sleep(min(ds) - now)

    def all_handled(self) -> bool:
        if self.scripted_left or self.staged:
            return False
        return all(len(cl.items) == cl.sent and all(t is not None for t in cl.fin_t) for cl in self.clients)


class HighHandler(AsyncDatagramRequestHandler):
    def __init__(self, ctx: Ctx):
        self.ctx = ctx

    def handle(self, client):
        cl = self.ctx.by_port[client.extra(INETClientAttribute.remote_address).port]
        return self.ctx.consume(cl, client.send_packet)


# ------------------------------------------------------------------------------------------------ one run
def _run(world: World, low: bool) -> None:
    name = "dgram-low" if low else "udp-high"
    sc = _gen(world, low)
    net = SimNet(world)
    backend = SimAsyncIOBackend(net)
    ctx = Ctx(world, net, sc, name)
    world.notes.update(pause=sc["pause"], aim_final=sc["aim_final"], clients=[{k: v for k, v in c.items() if k != "react"} | {"react": {str(i): v for i, v in c["react"].items()}} for c in sc["clients"]], arrivals=sc["arrivals"], calm=sc["calm"])
    world.iteration_hooks.append(ctx.hook)

    def scripted(a: dict) -> None:
        ctx.scripted_left -= 1
        ctx.arrive(ctx.clients[a["k"]], a["bad"], a["hold"])

    async def bounded_stop(stop, serve_task: asyncio.Task, where: str) -> bool:
        """Stop serving (low level: cancel the serve() task; high level: shutdown()).  The stop may coincide with the
        expiry of a handler's yielded timeout or happen while a handler spins on expired timeouts; it has to complete
        without any virtual time passing.  If it has not completed after STOP_BOUND virtual seconds it hangs."""
        if ctx.aborted_at is not None:
            return False
        t0 = world.now
        if not sc["calm"]:
            # which loop iteration (and which position inside it) the cancellation reaches the handlers' tasks in
            for _ in range(world.choose("stop_delay", 6)):
                await asyncio.sleep(0)
        st = asyncio.create_task(stop(serve_task), name="c16-stop")
        await asyncio.wait([st], timeout=STOP_BOUND)
        if st.done():
            st.result()
            return True
        waiting = [cl.label for cl in ctx.clients if cl.active]
        ctx.flag(
            "stop-hangs",
            f"stopping the server {where} at t={t0} did not complete within {STOP_BOUND} virtual seconds; handler generators still alive: {waiting} "
            f"(timeouts thrown so far: { {cl.label: cl.ntimeouts for cl in ctx.clients} }); serve task done={serve_task.done()}",
        )
        # tear everything down so that the run ends; nothing after this point belongs to the execution's identity
        ctx.aborted_at = len(world.trace)
        ctx.stopping = True
        me = asyncio.current_task()
        others = sorted((t for t in asyncio.all_tasks() if t is not me), key=lambda t: t.get_name())
        for _ in range(3):
            for t in others:
                t.cancel()
            await asyncio.wait(others, timeout=5.0)
        return False

    async def drive(serve_task: asyncio.Task, start, stop) -> asyncio.Task:
        ctx.sock = net.bound[(HOST, PORT)]
        base = world.now
        t_last = base
        for a in sc["arrivals"]:
            world.at(base + a["t"] * G, lambda a=a: scripted(a))
            t_last = max(t_last, base + a["t"] * G)
        # generous bound for the wait only; the per-request bound is the latency clause below
        budget = sum(SLEEPS[s] for c in sc["clients"] for s in c["sleeps"]) + 20.0
        pause = sc["pause"]
        if pause is not None:
            await asyncio.sleep(max(0.0, base + pause["t"] * G - world.now))
            ready = False
            while world.now < t_last + budget and not serve_task.done() and ctx.violation is None:
                if pause["aim"] == 2 and not ctx.all_handled():
                    await ctx.wait_stop_request("pause", 2.0)
                if ctx.quiescent():
                    if pause["aim"] == 1:
                        await ctx.aim()
                    if ctx.quiescent():
                        ready = True
                        break
                await asyncio.sleep(G)
            if ready and not serve_task.done() and ctx.violation is None:
                # stop serving at a moment where nothing is in flight: whatever reaches the socket from now on has to
                # be delivered by the next serving period
                world.fault("cancel_at_time")
                world.probe("serve_again")
                n_stop = len(net.dgram_log)
                t_stop = world.now
                world.log("pause", name, n_stop)
                ctx.pausing = True
                stopped = await bounded_stop(stop, serve_task, "between two serving periods")
                ctx.pausing = False
                if not stopped:
                    ctx.stopping = True
                    return serve_task
                if len(net.dgram_log) != n_stop or world.now != t_stop:
                    raise HarnessError("a datagram arrived / time passed while serving was being stopped")
                for k in pause["dgrams"]:
                    ctx.arrive(ctx.clients[k], False, 0)
                if pause["gap"]:
                    await asyncio.sleep(pause["gap"] * G)
                ctx.resuming = True
                serve_task = await start()
                ctx.pauses.append((n_stop, world.now))
                world.log("resume", name, len(net.dgram_log))
                await settle(world, 4)
                if serve_task.done():
                    ctx.flag("server-up", f"serving again on the same server object after the first serving period was stopped at t={t_stop}: the new serve()/serve_forever() ended at once ({'cancelled' if serve_task.cancelled() else repr(serve_task.exception())}); {len(net.dgram_log) - n_stop} datagrams had reached the socket in between", "serve-again")
        if sc["aim_final"] == 2 and not ctx.all_handled() and not serve_task.done() and ctx.violation is None:
            await ctx.wait_stop_request("final", max(0.0, t_last + budget - world.now))
        if not ctx.all_handled():
            while not ctx.all_handled() and world.now < t_last + budget and not serve_task.done() and ctx.violation is None:
                await asyncio.sleep(0.25)
            await settle(world, 8)
            if sc["aim_final"] == 1 and ctx.all_handled():
                await ctx.aim()
        if serve_task.done():
            exc = serve_task.exception() if not serve_task.cancelled() else None
            ctx.flag("server-up", f"the server stopped by itself during the workload: {type(exc).__name__}: {exc}", type(exc).__name__)
        ctx.stopping = True
        world.log("stopping")
        return serve_task

    async def amain_high() -> None:
        loop = asyncio.get_running_loop()
        if not sc["calm"]:
            swarm_selector(world, loop.sim_selector)
        server = AsyncUDPNetworkServer(HOST, PORT, DatagramProtocol(StringLineSerializer()), HighHandler(ctx), backend=backend)

        async def start() -> asyncio.Task:
            up = asyncio.Event()
            task = asyncio.create_task(server.serve_forever(is_up_event=up), name="c16-serve")
            waiter = asyncio.create_task(up.wait(), name="c16-up")
            await asyncio.wait([task, waiter], return_when=asyncio.FIRST_COMPLETED)
            if not up.is_set():
                waiter.cancel()
                if not ctx.pauses and not ctx.resuming:
                    raise HarnessError(f"server did not start: {task!r}")
            return task

        async def stop(task: asyncio.Task) -> None:
            await server.shutdown()
            await asyncio.gather(task, return_exceptions=True)

        async with server:
            task = await drive(await start(), start, stop)
            await bounded_stop(stop, task, "at the end of the workload")

    async def amain_low() -> None:
        loop = asyncio.get_running_loop()
        if not sc["calm"]:
            swarm_selector(world, loop.sim_selector)
        listeners = await backend.create_udp_listeners(HOST, PORT)
        server = AsyncDatagramServer(listeners[0], DatagramProtocol(StringLineSerializer()))

        def cb(client_ctx):
            cl = ctx.by_port[client_ctx.address[1]]

            async def send(packet: str) -> None:
                await client_ctx.server.send_packet_to(packet, client_ctx.address)

            return ctx.consume(cl, send)

        async def start() -> asyncio.Task:
            task = asyncio.create_task(server.serve(cb, None), name="c16-serve")
            await asyncio.sleep(0)
            return task

        async def stop(task: asyncio.Task) -> None:
            task.cancel()
            await asyncio.gather(task, return_exceptions=True)

        task = await drive(await start(), start, stop)
        await bounded_stop(stop, task, "at the end of the workload")
        await server.aclose()

    with sim_sockets(net):
        run_async(world, amain_low if low else amain_high)
    if ctx.aborted_at is not None:
        del world.trace[ctx.aborted_at :]
    if ctx.violation is not None:
        raise ctx.violation
    _final_checks(ctx)


def _final_checks(ctx: Ctx) -> None:
    world = ctx.world
    slack = world.creep_iterations * World.CREEP
    for cl in ctx.clients:
        exp = ctx.expected(cl)
        arr = ctx.arrival_times(cl)
        desc = f"{cl.label} {cl.addr}: plan={ {k: v for k, v in cl.sc.items() if k not in ('k', 'addr')} } arrivals(t)={arr}"
        if len(exp) != cl.sent:
            raise HarnessError(f"{cl.label}: {cl.sent} datagrams injected, {len(exp)} in net.dgram_log")
        if cl.max_active > 1:
            raise Violation("one-active", f"{desc}\n {cl.max_active} generators active at the same time", key=ctx.key("one-active"))
        # per-address FIFO, exactly once
        for i, item in enumerate(cl.items):
            if i >= len(exp) or item != exp[i]:
                raise Violation("fifo", f"{desc}\n handlers observed {cl.items}\n arrival order     {exp}\n first difference at #{i}", key=ctx.key("fifo"))
        # liveness
        if len(cl.items) != len(exp) or any(t is None for t in cl.fin_t):
            raise Violation(
                "liveness",
                f"{desc}\n {len(exp)} datagrams reached the socket (last at t={arr[-1] if arr else None}), the handlers observed {len(cl.items)} and finished {sum(1 for t in cl.fin_t if t is not None)} by t={world.now}\n observed {cl.items}\n arrivals {exp}",
                key=ctx.key("liveness"),
            )
        # latency: own single-server FIFO model
        model = ctx.model_finish(cl)
        for i, (got, bound) in enumerate(zip(cl.fin_t, model)):
            if got > bound + slack:
                raise Violation(
                    "latency",
                    f"{desc}\n request #{i} {cl.items[i]} arrived at t={arr[i]}, own processing {cl.proc[i]}, finished at t={got} > bound {bound} (model finishes {model}, observed {cl.fin_t}, processing {cl.proc})",
                    key=ctx.key("latency"),
                )


HARNESSES = [
    Harness("udp-high", lambda w: _run(w, False), weight=2),
    Harness("dgram-low", lambda w: _run(w, True), weight=1),
]
