"""C12 — concurrent senders never interleave packets (DESIGN §4 C12).  Engines: ``aionet``, ``tls``, ``threads``.

N in 2..5 sender tasks, 1-4 self-identifying packets each (sender id, sequence number, length, position-dependent
filler, trailer; sizes from 0 to several times the link capacity, serialised as several chunks), all calling
``send_packet`` on the same object:

  client   AsyncTCPNetworkClient.send_packet
  endpoint-fairlock   AsyncStreamEndpoint.send_packet behind the repo's FairLock (the clients' locking pattern; the asyncio
           backend's create_fair_lock() returns asyncio.Lock, so FairLock itself is only reached this way)
  server   the server-side client object (``_ConnectedClientAPI``) of a real AsyncTCPNetworkServer on SimAsyncIOBackend; the
           request handler fans out to tasks (from ``handle`` after a trigger request, or from ``on_connection``)

Schedule space: link capacity (tiny .. large), delivery fragmentation/delay, a peer that reads in bursts of drawn size
after drawn pauses (=> pause_writing / resume_writing at arbitrary points), short writes, spurious EAGAIN/EINTR on
send, staggered sender start times (=> arrival order at the fair lock), selector perturbation.

Oracle (an independent reference decoder, not the repo's code): the byte stream seen by the peer decodes without any
error into exactly the multiset of packets sent; per sender the sequence numbers increase; every send_packet call
returned normally; nothing hangs once the peer keeps reading.

  tls      N tasks calling AsyncTLSStreamTransport.send_all / send_all_from_iterable on ONE transport over the adapter, or
           over a piecewise (non-atomic send_all) wrapper of it; the reference TLSPeer must decrypt exactly the multiset.
           The transport send lock is the stock asyncio.Lock or the repo's FairLock; the peer application may stop reading
           for 3..40 ticks after the handshake (the lock owner stays suspended mid-flush); senders QUEUED on the transport
           send lock are cancelled: every later sender must still succeed and the peer must still decrypt everything (the
           packet of the cancelled call itself may or may not arrive - its records are already in the write BIO).
           Over the plain adapter (whose send_all() buffers the whole cipher-text before waiting, so a cancellation cannot
           tear a record) the OWNER of the send lock is cancelled too while it is suspended mid-flush (task.cancel() from the
           cancellers, or a 1/4/15-tick backend.move_on_after() scope around the call, which fires wherever the call is),
           with other calls already returned or queued; the peer's window may shrink to 64..1024 bytes after the handshake;
           the transport may be closed with standard_compatible=False (aclose() flushes nothing, the peer sees EOF without
           close_notify): every call that REPORTED SUCCESS must have its packet decrypted by the peer by the end of the run

  client-first-use / udp-first-use   N senders on a FRESH AsyncTCPNetworkClient / AsyncUDPNetworkClient built from (host, port):
           the first call performs the connection lazily under the send lock (asyncio.Lock or FairLock), the others queue up.
           The connection (UDP: name resolution) takes 0..12 ticks and succeeds / is refused (UDP: ENETUNREACH, unknown name) /
           never completes (TCP); 0-2 task.cancel() from a timer callback at a drawn half-tick (possibly the tick at which the
           connection completes) or before a drawn loop iteration, on the connecting sender or on a queued one.  Connection
           established and connecting sender not cancelled => every non-cancelled call succeeds; attempt failed or cancelled =>
           every non-cancelled call ends with success, ClientClosedError or an OSError (possibly grouped: create_connection()
           reports its OSErrors in an ExceptionGroup) - nothing else; the wire carries exactly the packets of the calls that
           reported success

Cancellation of queued senders (``*-fairlock`` and ``tls`` harnesses, up to 3 per run, never the lock owner): from a polling
task woken by a timer, and/or from an iteration hook (``cancel before iteration j``), any queue position, biased towards the
iteration in which the lock owner is about to run - i.e. the iteration in which it releases: the victim's CancelledError is
then processed after the release but before the notified head waiter has taken the lock (lock free, head woken, a head or
non-head waiter leaves the queue, the new owner suspends mid-packet on the small link).
  threads-tcp / threads-udp   2-4 real threads under the baton scheduler (vsim.threads; switch rate 1/2..1/6 per scheduling
           point, optional line-level pre-emption inside clients/tcp.py, clients/udp.py, lowlevel/_utils.py) calling
           send_packet on ONE blocking TCPNetworkClient / UDPNetworkClient; UDP: one packet per datagram, none merged
"""
from __future__ import annotations

import asyncio
import struct
from collections import Counter
from typing import Any, Callable, Generator

from easynetwork.clients.async_tcp import AsyncTCPNetworkClient
from easynetwork.clients.tcp import TCPNetworkClient
from easynetwork.clients.udp import UDPNetworkClient
from easynetwork.exceptions import DeserializeError, IncrementalDeserializeError
from easynetwork.lowlevel.api_async.backend._common.fair_lock import FairLock
from easynetwork.lowlevel.api_async.endpoints.stream import AsyncStreamEndpoint
from easynetwork.lowlevel.api_async.transports.abc import AsyncStreamTransport
from easynetwork.protocol import DatagramProtocol, StreamProtocol
from easynetwork.serializers.abc import AbstractIncrementalPacketSerializer
from easynetwork.servers.async_tcp import AsyncTCPNetworkServer
from easynetwork.servers.handlers import AsyncStreamRequestHandler

from vsim.backend import SimAsyncIOBackend, sim_sockets
from vsim.harness import CallFaults, draw_rate, swarm_selector
from vsim.loop import run_async
from vsim.runner import Harness
from vsim.sock import Delivery, HalfPipe, SimNet, SimSocket
from vsim.world import Deadlock, HarnessError, StepCap, Violation, World

PROPERTY = "C12"
LEVEL = "exploration"
RULE = (
    "2-5 sender tasks x 1-4 self-identifying multi-chunk packets (0..300 bytes) on one AsyncTCPNetworkClient or one server-side "
    "client object; link capacity in {7,16,64,256,1MiB}; peer reads bursts of drawn size after drawn pauses; short writes, EAGAIN, "
    "EINTR on send; staggered sender starts; delivery fragmentation; *-fairlock (repo FairLock behind client/server/endpoint) and tls "
    "(asyncio.Lock or FairLock as transport send lock, peer pauses reading after the handshake): 0-3 task.cancel() on senders queued "
    "on the send lock at any queue position, from a timer-woken task or from an iteration hook biased to the iteration in which the "
    "owner releases (cancellation processed between release and the head waiter's resumption); oracle = independent decoder: wire == "
    "multiset of packets of the calls that returned, per-sender order, every non-cancelled call returned normally, no hang; tls: the "
    "peer decrypts everything, a call cancelled while queued may still have its packet delivered whole at most once; tls over the plain "
    "adapter: the send-lock OWNER is cancelled / timed out (move_on_after 1, 4, 15 ticks) mid-flush as well, peer window shrunk to "
    "64..1024 bytes after the handshake, close with standard_compatible=False (no flush at close): every call that reported success has "
    "its packet at the peer; "
    "client-first-use / udp-first-use: 2-5 senders on a not yet connected async TCP/UDP client (lazy connection by the first call under "
    "the send lock), connection delay 0..12 ticks, outcome ok / refused / never (UDP: unreachable / unknown name), 0-2 cancels of the "
    "connecting or of a queued sender at a drawn half-tick or loop iteration; after a failed or cancelled attempt a call may only end "
    "with success, ClientClosedError or (grouped) OSError, and the wire carries exactly the successful calls' packets"
)
COMPONENTS_REAL = [
    "AsyncTCPNetworkClient (also lazily connecting), AsyncUDPNetworkClient (lazily connecting), AsyncTCPNetworkServer/_ConnectedClientAPI, lowlevel AsyncStreamServer/ConnectedStreamClient, AsyncStreamEndpoint",
    "TCPNetworkClient, UDPNetworkClient (blocking, real threads), AsyncTLSStreamTransport",
    "FairLock, ResourceGuard, StreamDataProducer, AsyncioTransportStreamSocketAdapter, WriteFlowControl, asyncio backend TaskGroup/CancelScope",
    "CPython asyncio selector event loop and _SelectorSocketTransport (write buffer, pause/resume_writing)",
]
COMPONENTS_STUB = ["SimSocket/SimNet (bounded half pipes, short writes, EAGAIN/EINTR)", "SimSelector + virtual clock", "scripted burst-reading peer", "baton thread scheduler (vsim.threads)", "reference TLS peer (stdlib ssl)"]
ASSUMPTIONS = [
    "a send() accepts at most the free room of the link and never reports 0 bytes for non-empty data (DESIGN §2.6)",
    "the asyncio ready queue is FIFO and is never permuted",
]
BUDGET = {"quick": 40, "thorough": 480}

TICK = 1.0 / 64
MAGIC, TRAILER = 0xA5, 0x5A
HEADER = struct.Struct(">BBHI")  # magic, sender, seq, length


def _filler(sender: int, seq: int, n: int) -> bytes:
    return bytes((sender * 31 + seq * 17 + k * 7 + (k >> 8)) % 251 for k in range(n))


# ===================================================================================================== code under test side
class _PacketSerializer(AbstractIncrementalPacketSerializer[tuple, tuple]):
    """(sender, seq, length) <-> header + filler + trailer, produced as several chunks (never an empty one)"""

    def __init__(self, piece: int):
        self.piece = max(1, piece)

    def incremental_serialize(self, packet: tuple) -> Generator[bytes, None, None]:
        sender, seq, n = packet
        yield HEADER.pack(MAGIC, sender, seq, n)
        body = _filler(sender, seq, n)
        for i in range(0, n, self.piece):
            yield body[i : i + self.piece]
        yield bytes([TRAILER])

    def incremental_deserialize(self) -> Generator[None, bytes, tuple[tuple, bytes]]:
        buf = b""
        while len(buf) < HEADER.size:
            buf += yield
        magic, sender, seq, n = HEADER.unpack_from(buf)
        total = HEADER.size + n + 1
        while len(buf) < total:
            buf += yield
        if magic != MAGIC or buf[total - 1] != TRAILER:
            raise IncrementalDeserializeError("bad frame", buf[total:])
        return (sender, seq, n), buf[total:]

    def serialize(self, packet: tuple) -> bytes:
        return b"".join(self.incremental_serialize(packet))

    def deserialize(self, data: bytes) -> tuple:
        raise DeserializeError("not used")


# ===================================================================================================== reference side
def _decode_wire(data: bytes) -> tuple[list[tuple[int, int, int]], str | None, str]:
    """independent reference decoder: (packets, error kind or None, error message)"""
    out: list[tuple[int, int, int]] = []
    pos = 0
    n_all = len(data)
    while pos < n_all:
        if n_all - pos < 8:
            return out, "truncated-header", f"truncated header at offset {pos}"
        if data[pos] != MAGIC:
            return out, "bad-magic", f"bad magic 0x{data[pos]:02x} at offset {pos}"
        sender = data[pos + 1]
        seq = int.from_bytes(data[pos + 2 : pos + 4], "big")
        n = int.from_bytes(data[pos + 4 : pos + 8], "big")
        end = pos + 8 + n
        if end + 1 > n_all:
            return out, "cut-short", f"packet ({sender},{seq},{n}) at offset {pos} is cut short: stream ends at {n_all}"
        body = data[pos + 8 : end]
        exp = _filler(sender, seq, n)
        if body != exp:
            k = next(i for i in range(n) if body[i] != exp[i])
            return out, "foreign-bytes", f"packet ({sender},{seq},{n}) at offset {pos}: foreign byte at body offset {k} (got {body[k:k + 12].hex()} expected {exp[k:k + 12].hex()})"
        if data[end] != TRAILER:
            return out, "bad-trailer", f"packet ({sender},{seq},{n}) at offset {pos}: bad trailer 0x{data[end]:02x}"
        out.append((sender, seq, n))
        pos = end + 1
    return out, None, ""


class _BurstReader:
    """the peer: reads a drawn number of bytes after a drawn pause, sleeps while there is nothing to read"""

    def __init__(self, world: World, sock: SimSocket, profile: int, capacity: int):
        self.world = world
        self.pipe: HalfPipe = sock.rx_pipe  # type: ignore[assignment]
        self.received = bytearray()
        self.profile = profile  # 0 greedy, 1 bursts, 2 slow drip, 3 long pauses then everything
        self.unit = max(1, min(capacity, 4096) // 2)
        self.scheduled = False
        self.saw_fin = False
        self.saw_rst = False
        self.steps = 0
        self.pipe.on_visible = self._wake

    def _wake(self) -> None:
        if self.profile == 0:
            self._read(None)
            return
        if not self.scheduled and (self.pipe.rx or self.pipe.fin_visible or self.pipe.rst):
            self.scheduled = True
            w = self.world
            if self.profile == 1:
                delay = (0, 1, 2, 5)[w.choose("rd.pause", 4)]
            elif self.profile == 2:
                delay = 1
            else:
                delay = (0, 0, 0, 40)[w.choose("rd.pause", 4)]
            if delay:
                w.fault("peer_stops_reading")
            w.after(delay * TICK, self._step)

    def _step(self) -> None:
        self.scheduled = False
        self.steps += 1
        if self.steps > 20000:
            raise StepCap("C12 burst reader: more than 20000 steps")
        w = self.world
        if self.profile == 1:
            k = (None, 1, self.unit, 2 * self.unit, 3)[w.choose("rd.n", 5)]
        elif self.profile == 2:
            k = self.unit
        else:
            k = None
        self._read(k)
        self._wake()

    def _read(self, k: int | None) -> None:
        p = self.pipe
        if p.rst:
            self.saw_rst = True
            return
        n = len(p.rx) if k is None else min(k, len(p.rx))
        if n:
            self.received += p.read(n)
            self.world.log("peer_read", p.name, n)
        if p.fin_visible and not p.rx:
            self.saw_fin = True


# ===================================================================================================== workload
class _CallTimedOut(Exception):
    """raised by a harness' send_packet wrapper when the timeout scope it had put around the call fired"""


class _Workload:
    def __init__(self, world: World, name: str, *, max_extra_senders: int = 4, max_packets: int = 4, timed: bool = False, cancels: bool = False):
        self.world = world
        self.name = name
        # a third of the runs are fault-free baselines (profile 0): roomy link, greedy peer, no injected socket behaviour
        self.baseline = world.choose("profile", 3) == 0
        self.nsenders = 2 + world.choose("nsenders", max_extra_senders)
        self.capacity = 1 << 20 if self.baseline else (1 << 20, 7, 16, 64, 256)[world.choose("capacity", 5)]
        sizes = (0, 1, 5, 23, 90, 300)
        self.plan: list[list[tuple[int, tuple[int, int, int]]]] = []  # per sender: [(stagger ticks, packet)]
        for s in range(self.nsenders):
            k = 1 + world.choose("npackets", max_packets)
            lst = []
            for q in range(k):
                lst.append((world.choose("stagger", 4), (s + 1, q, sizes[world.choose("size", len(sizes))])))
            self.plan.append(lst)
        self.piece = (4096, 2, 16, 64)[world.choose("piece", 4)]
        self.protocol: Any = StreamProtocol(_PacketSerializer(self.piece))
        if self.baseline:
            self.profile, self.delivery, self.short_den, self.eagain_den, self.eintr_den = 0, Delivery(), 0, 0, 0
        else:
            self.profile = world.choose("rd.profile", 4)
            self.delivery = Delivery.draw(world, "link")
            self.short_den = draw_rate(world, "sw.short", (0, 0, 6, 2))
            self.eagain_den = draw_rate(world, "sw.eagain", (0, 0, 8, 3))
            self.eintr_den = draw_rate(world, "sw.eintr", (0, 0, 0, 6))
        self.calls: list[tuple[int, int, str]] = []  # (sender, seq, outcome)
        self.inflight = 0
        # threaded harnesses: some calls are send_packet(packet, timeout=T), T in {0, half a tick}, issued only while another
        # call is outstanding, so that they normally time out waiting for the client's send lock.  TimeoutError is an
        # allowed outcome for THAT call only; its packet must then be absent from the wire.
        self.timeouts: dict[tuple[int, int], float] = {}
        self.touched: set[str] = set()  # names of threads whose current call reached the socket's send
        self.stream_broken_by_timeout = False
        # FairLock harnesses: up to 3 task.cancel() on a sender that is QUEUED on the send lock (never on the owner): the
        # cancelled call may end with CancelledError, its packet must be wholly absent, nobody else may notice
        self.ncancel = (0, 1, 2, 3)[world.choose("ncancel", 4)] if cancels and not self.baseline else 0
        # when the cancels are issued: 0 = from a polling task woken by a timer (between two iterations, the lock being owned);
        # 1 = from an iteration hook (= a callback that runs before the handles already queued for this iteration), biased towards
        # the iterations in which the lock owner is about to run, i.e. the very iteration in which it releases the lock: the
        # victim (any queue position, not only the head) then sees its cancellation after the release but before the notified
        # head has taken the lock; 2 = both share the budget
        self.cancel_mode = world.choose("cancel.mode", 3) if self.ncancel else 0
        self.cancels_left = self.ncancel
        # TLS: the cipher-text of a sender that is queued on the transport send lock is already in the write BIO and is flushed
        # by the lock owner, so the packet of a call cancelled there may legitimately reach the peer (whole, at most once)
        self.cancelled_may_be_sent = False
        # TLS over the asyncio adapter: the OWNER of the transport send lock (locks[0]) may be cancelled too while it is suspended
        # mid-flush (the adapter's send_all() buffers the whole cipher-text before it waits, so the record stream stays whole)
        self.owner_cancellable = False
        self.owner_cancelled = False
        self.locks: list[Any] = []  # tracking locks whose waiters may be cancelled
        self.in_call: set[Any] = set()  # sender tasks currently inside send_packet()
        self.failure_allowed: Callable[[BaseException], bool] | None = None  # first-use harnesses, see sender()
        self.cancel_targets: set[Any] = set()
        if timed and not self.baseline:
            for lst in self.plan:
                for _, pk in lst:
                    t = (None, None, 0.0, 0.0, TICK / 2)[world.choose("call.timeout", 5)]
                    if t is not None:
                        self.timeouts[(pk[0], pk[1])] = t
            world.notes.update(call_timeouts=sorted((k[0], k[1], v) for k, v in self.timeouts.items()))
        self.total_bytes = sum(8 + p[2] + 1 for lst in self.plan for _, p in lst)
        if self.capacity < self.total_bytes:
            world.fault("capacity_small")
        world.notes.update(
            harness=name,
            baseline=self.baseline,
            capacity=self.capacity,
            packets=[[(st, p[2]) for st, p in lst] for lst in self.plan],
            piece=self.piece,
            reader_profile=self.profile,
            short_den=self.short_den,
            eagain_den=self.eagain_den,
            eintr_den=self.eintr_den,
            link=(self.delivery.frag, self.delivery.size, self.delivery.delays),
        )

    def configure(self, net: SimNet, lib: SimSocket, ops: tuple[str, ...] = ("send",)) -> None:
        net.short_write_den = self.short_den
        inner = CallFaults(self.world, eagain_den=self.eagain_den, eintr_den=self.eintr_den, ops=ops) if self.eagain_den or self.eintr_den else None
        if self.timeouts:
            import threading

            def plan(sock: SimSocket, op: str) -> Any:
                if op in ops:
                    self.touched.add(threading.current_thread().name)
                return inner(sock, op) if inner is not None else None

            lib.fault_plan = plan
        elif inner is not None:
            lib.fault_plan = inner

    async def sender(self, idx: int, send_packet: Callable[[Any], Any]) -> None:
        for stagger, packet in self.plan[idx]:
            if stagger:
                await asyncio.sleep(stagger * TICK)
            self.world.log("send_call", self.name, packet[0], packet[1])
            if self.inflight:
                self.world.probe("call-while-%d-other-calls-outstanding" % min(self.inflight, 3))
            self.inflight += 1
            it = self.world.counters["loop_iterations"]
            me = asyncio.current_task()
            self.in_call.add(me)
            try:
                await send_packet(packet)
            except asyncio.CancelledError:
                if me not in self.cancel_targets:
                    raise
                self.cancel_targets.discard(me)
                me.uncancel()  # type: ignore[union-attr]
                self.calls.append((packet[0], packet[1], "cancelled@lock"))
                self.world.log("send_cancelled", self.name, packet[0], packet[1])
            except _CallTimedOut:  # tls harness: the call was made under a timeout scope, which fired
                self.calls.append((packet[0], packet[1], "cancelled@timeout"))
                self.world.log("send_timed_out", self.name, packet[0], packet[1])
            except Exception as exc:  # the property: every call succeeds
                # first-use harnesses: once the (lazy) connection attempt has failed or was cancelled, a call may report that
                # (ClientClosedError / OSError); nothing else
                kind = type(exc).__name__
                if self.failure_allowed is not None and self.failure_allowed(exc):
                    kind = "allowed@" + kind
                self.calls.append((packet[0], packet[1], kind))
                self.world.log("send_raised", self.name, packet[0], packet[1], type(exc).__name__)
            else:
                self.calls.append((packet[0], packet[1], "ok"))
                self.world.log("send_ok", self.name, packet[0], packet[1])
                self.world.progress(1)
                if self.world.counters["loop_iterations"] != it:
                    self.world.probe("send-suspended")
            finally:
                self.inflight -= 1
                self.in_call.discard(me)

    def sender_sync(self, idx: int, send_packet: Callable[[Any], Any]) -> None:
        """thread body (threads engine: time.sleep is virtual)"""
        import threading
        import time

        for stagger, packet in self.plan[idx]:
            if stagger:
                time.sleep(stagger * TICK)
            self.world.log("send_call", self.name, packet[0], packet[1])
            if self.inflight:
                self.world.probe("call-while-%d-other-calls-outstanding" % min(self.inflight, 3))
            tmo = self.timeouts.get((packet[0], packet[1])) if self.inflight else None
            me = threading.current_thread().name
            self.touched.discard(me)
            self.inflight += 1
            try:
                if tmo is None:
                    send_packet(packet)
                else:
                    self.world.log("send_timed", self.name, packet[0], packet[1], tmo)
                    send_packet(packet, timeout=tmo)
            except TimeoutError as exc:
                if tmo is None:
                    self.calls.append((packet[0], packet[1], type(exc).__name__))
                else:
                    where = "send" if me in self.touched else "lock"
                    self.calls.append((packet[0], packet[1], "timeout@" + where))
                    self.world.probe("timed-call-timed-out-on-" + where)
                    if where == "send" and self.name == "threads-tcp":
                        # documented: after a timeout inside the write the stream is in an inconsistent state
                        self.stream_broken_by_timeout = True
                self.world.log("send_raised", self.name, packet[0], packet[1], type(exc).__name__)
            except Exception as exc:  # the property: every call succeeds
                self.calls.append((packet[0], packet[1], type(exc).__name__))
                self.world.log("send_raised", self.name, packet[0], packet[1], type(exc).__name__)
            else:
                self.calls.append((packet[0], packet[1], "ok"))
                self.world.log("send_ok", self.name, packet[0], packet[1])
                self.world.progress(1)
                if tmo is not None:
                    self.world.probe("timed-call-succeeded")
            finally:
                self.inflight -= 1

    def run_threads(self, send_packet: Callable[[Any], Any]) -> None:
        import threading

        threads = [threading.Thread(target=self.sender_sync, args=(i, send_packet), name=f"c12-thread{i + 1}") for i in range(self.nsenders)]
        for t in threads:
            t.start()
        for t in threads:
            t.join()

    def make_scheduler(self) -> Any:
        """baton scheduler with drawn switch rate; on a coin flip line-level pre-emption inside the clients"""
        from vsim.threads import Scheduler

        w = self.world
        if self.baseline:
            return Scheduler(w, switch_den=1 << 30)  # never switches voluntarily: threads run one after the other
        switch_den = (6, 3, 2)[w.choose("sched.switch_den", 3)]
        if w.choose("sched.lines", 2):
            sched = Scheduler(w, switch_den=switch_den, preempt_files=("clients/tcp.py", "clients/udp.py", "lowlevel/_utils.py"), max_preemptions=w.choose("sched.max_preempt", 4))
            sched.preempt_den = (30, 10)[w.choose("sched.preempt_den", 2)]
        else:
            sched = Scheduler(w, switch_den=switch_den)
        w.notes.update(switch_den=switch_den, preempt=(sched.preemptions_left, sched.preempt_den))
        return sched

    async def run_senders(self, send_packet: Callable[[Any], Any]) -> None:
        loop = asyncio.get_running_loop()
        tasks = [loop.create_task(self.sender(i, send_packet), name=f"c12-sender{i + 1}") for i in range(self.nsenders)]
        killer = loop.create_task(self.canceller(tasks), name="c12-canceller") if self.ncancel and self.cancel_mode != 1 else None
        hook = self.iteration_canceller(tasks, loop) if self.ncancel and self.cancel_mode != 0 else None
        if hook is not None:
            self.world.iteration_hooks.append(hook)
        try:
            await asyncio.gather(*tasks)
        finally:
            if hook is not None:
                self.world.iteration_hooks.remove(hook)
            if killer is not None:
                killer.cancel()

    def _cancel_candidates(self, tasks: list[Any], owned_only: bool) -> list[tuple[Any, Any, int]]:
        """(task, lock, queue position) of every sender inside acquire() of a tracked lock, in arrival order"""
        out = []
        for lk in self.locks:
            if owned_only and not lk.locked():
                continue
            for pos, t in enumerate(lk.waiting):
                if t in tasks and t not in self.cancel_targets and not t.done():
                    out.append((t, lk, pos))
        if self.owner_cancellable and self.locks:
            lk = self.locks[0]
            t = lk.owner
            if lk.locked() and t in tasks and t in self.in_call and t not in self.cancel_targets and not t.done():
                out.append((t, lk, -1))  # last: candidate 0 stays the head waiter
        return out

    def _cancel(self, victim: Any, lk: Any, pos: int, fault: str) -> None:
        w = self.world
        queued = len(lk.waiting)
        self.cancel_targets.add(victim)
        victim.cancel()
        self.cancels_left -= 1
        w.fault(fault)
        if pos < 0:
            self.owner_cancelled = True
            w.probe("cancelled-the-lock-owner-mid-flush:%d-queued,%d-calls-already-returned" % (min(queued, 2), min(len(self.calls), 2)))
            w.log("cancel", self.name, victim.get_name(), pos)
            return
        w.probe("cancelled-a-queued-sender:%d-queued" % min(queued, 3))
        if pos > 0:
            w.probe("cancelled-a-non-head-waiter:%s-behind-it" % ("somebody" if pos < queued - 1 else "nobody"))
        w.log("cancel", self.name, victim.get_name(), pos)

    async def canceller(self, tasks: list[Any]) -> None:
        """cancel senders that are queued on a tracked lock while somebody else owns it"""
        w = self.world
        polls = 0
        while self.cancels_left > 0 and not all(t.done() for t in tasks):
            await asyncio.sleep(TICK * (1 + w.choose("cancel.gap", 3)) / 2)
            polls += 1
            if polls > 20000:
                raise StepCap("C12 canceller: more than 20000 polls")
            if self.cancels_left <= 0:
                break
            cands = self._cancel_candidates(tasks, owned_only=True)
            if not cands or not w.chance("cancel.now", 2, 3):
                continue
            self._cancel(*cands[w.choose("cancel.victim", len(cands))], "cancel_at_time")

    def iteration_canceller(self, tasks: list[Any], loop: Any) -> Callable[[], None]:
        """`cancel before iteration j`: task.cancel() on a queued sender (any queue position) issued before the handles of the
        iteration run, like a timeout/another thread whose callback precedes them.  When the lock owner has a step pending in
        this iteration (it is about to finish its packet and release), the victim's CancelledError is delivered right after
        the release and before the notified head waiter runs: the lock is free, the head has been woken, a non-head waiter
        leaves the queue."""
        w = self.world

        def about_to_run(t: Any) -> bool:
            if t is None or t.done():
                return False
            fw = getattr(t, "_fut_waiter", None)
            return fw is None or fw.done()

        def hook() -> None:
            if self.cancels_left <= 0:
                return
            cands = self._cancel_candidates(tasks, owned_only=False)
            if not cands:
                return
            releasing = any(lk.locked() and about_to_run(lk.owner) for lk in self.locks)
            if not w.chance("cancel.iter", 1, 2 if releasing else 24):
                return
            victim, lk, pos = cands[w.choose("cancel.victim", len(cands))]
            if releasing:
                w.probe("cancel-in-the-iteration-the-owner-runs:%d-queued" % min(len(lk.waiting), 3))
            self._cancel(victim, lk, pos, "cancel_at_iteration")
            loop._write_to_self()  # the hook runs inside select(): the callback it made ready must not wait for a network event

        return hook


def _check_calls(wl: _Workload) -> tuple[list[tuple[int, int, int]], str]:
    planned = [p for lst in wl.plan for _, p in lst]
    ctx = f"harness={wl.name} plan={wl.world.notes} calls={wl.calls}"
    # a call made with a timeout may end in TimeoutError (timeout@lock / timeout@send), a call cancelled by the harness while it
    # was queued on the lock in CancelledError (cancelled@lock); nothing else may fail
    # (first-use harnesses: allowed@<Type> = ClientClosedError / OSError after the connection attempt failed or was cancelled)
    bad = [c for c in wl.calls if c[2] != "ok" and not c[2].startswith(("timeout@", "allowed@", "cancelled@"))]
    if bad:
        raise Violation("every-call-succeeds", f"send_packet raised for (sender, seq, exception) {bad}; {ctx}", key=f"C12/{wl.name}/call-raised/{bad[0][2]}")
    if len(wl.calls) != len(planned):
        raise HarnessError(f"C12 {wl.name}: {len(wl.calls)} calls recorded for {len(planned)} packets")
    ok = {(c[0], c[1]) for c in wl.calls if c[2] == "ok"}
    sent = [p for p in planned if (p[0], p[1]) in ok]  # the wire must carry exactly the packets of the calls that returned normally
    return sent, ctx


def _optional_packets(wl: _Workload) -> list[tuple[int, int, int]]:
    """packets which may be on the wire (whole, at most once) or not: TLS calls cancelled / timed out while queued on the
    transport send lock or while owning it"""
    if not wl.cancelled_may_be_sent:
        return []
    gone = {(c[0], c[1]) for c in wl.calls if c[2].startswith("cancelled@")}
    return [p for lst in wl.plan for _, p in lst if (p[0], p[1]) in gone]


def _check_packets(wl: _Workload, packets: list[tuple[int, int, int]], sent: list[tuple[int, int, int]], ctx: str) -> None:
    name = wl.name
    missing = sorted((Counter(sent) - Counter(packets)).elements())
    extra = sorted((Counter(packets) - Counter(sent) - Counter(_optional_packets(wl))).elements())
    if missing or extra:
        raise Violation("wire-multiset", f"missing on the wire {missing}, unexpected on the wire {extra}; {ctx}", key=f"C12/{name}/multiset/{'missing' if missing else 'extra'}")
    last: dict[int, int] = {}
    for s, q, _ in packets:
        if s in last and q <= last[s]:
            raise Violation("per-sender-order", f"sender {s}: sequence {q} after {last[s]} on the wire {packets}; {ctx}", key=f"C12/{name}/order")
        last[s] = q


def _check(wl: _Workload, reader: Any) -> None:
    """stream: `reader.received` is the byte stream the peer saw"""
    sent, ctx = _check_calls(wl)
    if wl.stream_broken_by_timeout:
        wl.world.probe("wire-not-checked:timeout-inside-a-write")
        return
    wire = bytes(reader.received)
    packets, kind, err = _decode_wire(wire)
    if kind is not None:
        raise Violation("wire-decodes", f"reference decoder: {err}; decoded so far {packets}; wire length {len(wire)} (sent {wl.total_bytes}); {ctx}", key=f"C12/{wl.name}/wire/{kind}")
    _check_packets(wl, packets, sent, ctx)


def _check_datagrams(wl: _Workload, datagrams: list[bytes]) -> None:
    """datagrams: one packet per datagram, none merged, none split"""
    sent, ctx = _check_calls(wl)
    packets = []
    for i, d in enumerate(datagrams):
        got, kind, err = _decode_wire(d)
        if kind is not None or len(got) != 1:
            what = kind or ("merged" if len(got) > 1 else "empty")
            raise Violation("one-packet-per-datagram", f"datagram #{i} ({len(d)} bytes) decodes to {got} ({err or what}); {ctx}", key=f"C12/{wl.name}/datagram/{what}")
        packets.append(got[0])
    _check_packets(wl, packets, sent, ctx)


def _finish(world: World, wl: _Workload, box: dict[str, Any], amain: Callable[[], Any]) -> None:
    """box: {"reader": _BurstReader (may be created during the run), "closed": True once the connection was closed}"""
    try:
        run_async(world, amain)
    except Deadlock as exc:
        reader = box.get("reader")
        raise Violation(
            "no-hang",
            f"harness={wl.name}: the peer keeps reading but the senders never finish ({len(wl.calls)} of {sum(len(x) for x in wl.plan)} calls returned; "
            f"peer got {len(reader.received) if reader else 0} of {wl.total_bytes} bytes): {exc}; plan={world.notes}",
            key=f"C12/{wl.name}/hang",
        ) from None
    if not box.get("closed") or "reader" not in box:
        raise HarnessError(f"C12 {wl.name}: run ended before the connection was closed")
    reader = box["reader"]
    # the loop is gone; let the link deliver what is still in flight and the peer read it
    steps = 0
    while not (reader.saw_fin or reader.saw_rst) and world.has_events():
        world.advance(None)
        steps += 1
        if steps > 100000:
            raise StepCap("C12: draining the link after the run took more than 100000 events")
    _check(wl, reader)


# ===================================================================================================== FairLock plumbing
class _Tracking:
    """mixin: records, in arrival order, which tasks are currently inside acquire(), and who took the lock last; the lock's own
    logic is inherited unchanged"""

    world: Any = None

    def _track_init(self) -> None:
        self.waiting: list[Any] = []
        self.owner: Any = None
        self.taken: Counter[Any] = Counter()  # task -> how many times it got the lock

    async def acquire(self) -> Any:
        task = asyncio.current_task()
        self.waiting.append(task)
        try:
            r = await super().acquire()  # type: ignore[misc]
        except asyncio.CancelledError:
            if self.world is not None and not self.locked() and len(self.waiting) > 1:  # type: ignore[attr-defined]
                # the rare state: the lock has been released, the head waiter is notified but has not run, somebody leaves the queue
                self.world.probe("waiter-cancelled-while-the-lock-is-free:%s" % ("head" if self.waiting[0] is task else "non-head"))
            raise
        finally:
            self.waiting.remove(task)
        self.owner = task
        self.taken[task] += 1
        return r


class _TrackingFairLock(_Tracking, FairLock):
    """the repo's FairLock"""

    def __init__(self, backend: Any):
        super().__init__(backend)
        self._track_init()


class _TrackingAsyncioLock(_Tracking, asyncio.Lock):
    """asyncio.Lock = what the stock asyncio backend returns from create_fair_lock()"""

    def __init__(self) -> None:
        super().__init__()
        self._track_init()


class _FairLockBackend(SimAsyncIOBackend):
    """fair=True: what a backend that keeps the ABC's default create_fair_lock() gives its clients, servers and transports;
    fair=False: the stock asyncio.Lock.  Either way the lock only additionally records who is queued on it."""

    def __init__(self, net: SimNet, wl: "_Workload", fair: bool = True):
        super().__init__(net)
        self._wl = wl
        self._fair = fair

    def create_fair_lock(self) -> Any:
        lock: Any = _TrackingFairLock(self) if self._fair else _TrackingAsyncioLock()
        lock.world = self._wl.world
        self._wl.locks.append(lock)
        return lock


# ===================================================================================================== client harness
def _h_client(world: World, fair: bool = False) -> None:
    wl = _Workload(world, "client-fairlock" if fair else "client", cancels=fair)
    net = SimNet(world)
    backend = _FairLockBackend(net, wl) if fair else SimAsyncIOBackend(net)
    lib, psock = net.socketpair(capacity_ab=wl.capacity, delivery_ab=wl.delivery)
    wl.configure(net, lib)
    box: dict[str, Any] = {"reader": _BurstReader(world, psock, wl.profile, wl.capacity)}

    async def amain() -> None:
        loop = asyncio.get_running_loop()
        if not wl.baseline:
            swarm_selector(world, loop.sim_selector)  # type: ignore[attr-defined]
        client: Any = AsyncTCPNetworkClient(lib, wl.protocol, backend=backend)
        await client.wait_connected()
        try:
            await wl.run_senders(client.send_packet)
        finally:
            await client.aclose()
            box["closed"] = True

    _finish(world, wl, box, amain)


def _h_fairlock(world: World) -> None:
    """the clients' pattern (send lock around endpoint.send_packet) with the repo's own FairLock, which the asyncio backend
    does not use by itself (create_fair_lock() returns asyncio.Lock): a lock that lets two senders in shows up as
    BusyResourceError from the endpoint's guard, or as interleaved bytes"""
    wl = _Workload(world, "endpoint-fairlock", cancels=True)
    net = SimNet(world)
    backend = SimAsyncIOBackend(net)
    lib, psock = net.socketpair(capacity_ab=wl.capacity, delivery_ab=wl.delivery)
    wl.configure(net, lib)
    box: dict[str, Any] = {"reader": _BurstReader(world, psock, wl.profile, wl.capacity)}

    async def amain() -> None:
        loop = asyncio.get_running_loop()
        if not wl.baseline:
            swarm_selector(world, loop.sim_selector)  # type: ignore[attr-defined]
        endpoint: Any = AsyncStreamEndpoint(await backend.wrap_stream_socket(lib), wl.protocol, max_recv_size=4096)
        lock = _TrackingFairLock(backend)
        lock.world = world
        wl.locks.append(lock)

        async def send_packet(packet: Any) -> None:
            async with lock:
                await endpoint.send_packet(packet)

        try:
            await wl.run_senders(send_packet)
        finally:
            await endpoint.aclose()
            box["closed"] = True

    _finish(world, wl, box, amain)


# ===================================================================================================== first use of a lazy client
def _h_first_use(world: World, udp: bool = False) -> None:
    """N senders call send_packet concurrently on a FRESH client built from (host, port): the connection is performed lazily by
    the first call, under the send lock, while the others queue up behind it.  The connection takes a drawn time and succeeds,
    is refused (UDP: connect() -> ENETUNREACH, or the name does not resolve) or never completes (TCP); 0-2 task.cancel() at
    drawn instants (a timer callback at a drawn half-tick, possibly the tick at which the connection completes, or before a
    drawn loop iteration) hit the connecting sender (= the send lock owner) or a sender queued on the send lock - never a
    sender that is already writing.  Oracle: connection established and the connecting sender not cancelled => every
    non-cancelled call succeeds; connection attempt failed or cancelled => every non-cancelled call ends with success,
    ClientClosedError or another OSError - nothing else (e.g. not RuntimeError); in every case the wire carries exactly the
    packets of the calls that reported success (stream: contiguous, once; UDP: one datagram each)."""
    import errno as _errno
    import socket as _socket

    from easynetwork.clients.async_udp import AsyncUDPNetworkClient

    name = "udp-first-use" if udp else "client-first-use"
    wl = _Workload(world, name, max_extra_senders=3, max_packets=3)
    delay = 0 if wl.baseline else (0, 1, 4, 12)[world.choose("fu.delay", 4)]  # ticks the connection (UDP: the name resolution) takes
    outcomes = ("ok", "unreachable", "noname") if udp else ("ok", "refused", "never")
    conn = "ok" if wl.baseline else outcomes[(0, 0, 1, 2)[world.choose("fu.outcome", 4)]]
    ncancel = 0 if wl.baseline else (0, 1, 1, 2)[world.choose("fu.ncancel", 4)]
    events: list[tuple[int, int, int]] = []  # (0 = at half-tick / 1 = before iteration, when, role: 0 = the connecting sender, r = r-th queued sender)
    for _ in range(ncancel):
        kind = world.choose("fu.cancel.kind", 2)
        when = world.choose("fu.cancel.t", 2 * delay + 4) if kind == 0 else 1 + world.choose("fu.cancel.iter", 12)
        events.append((kind, when, world.choose("fu.cancel.role", 3)))
    world.notes.update(connect=conn, connect_delay=delay, cancels=events)
    if conn != "ok":
        world.fault({"refused": "errno_econnrefused", "never": "connect_never", "unreachable": "errno_enetunreach", "noname": "dns_noname"}[conn])
    if delay:
        world.fault("connect_delay")
    net = SimNet(world)
    fair = False if wl.baseline else bool(world.choose("fu.fairlock", 2))
    backend = _FairLockBackend(net, wl, fair=fair)  # the send lock (asyncio.Lock or the repo's FairLock) records who is queued on it
    backend.sim_hosts = {"sim.host": [(_socket.AF_INET, "10.0.0.1")]}
    box: dict[str, Any] = {}
    state = {"attempt_over": conn != "ok", "connector_cancelled": False}

    def connection_error(exc: BaseException) -> bool:
        # ClientClosedError is an OSError; a failed create_connection() reports its OSError(s) wrapped in an ExceptionGroup
        if isinstance(exc, BaseExceptionGroup):
            return bool(exc.exceptions) and all(connection_error(e) for e in exc.exceptions)
        return isinstance(exc, OSError)

    wl.failure_allowed = lambda exc: state["attempt_over"] and connection_error(exc)
    peer_dgram: Any = None
    if udp:
        backend.getaddrinfo_delay = delay * TICK
        peer_dgram = SimSocket(net, _socket.AF_INET, _socket.SOCK_DGRAM, 0, "peer")
        peer_dgram.bind(("10.0.0.1", 7000))

        def on_dgram_connect(sock: SimSocket, addr: tuple) -> Any:
            wl.configure(net, sock, ops=("sendto", "send"))
            return OSError(_errno.ENETUNREACH, "Network is unreachable") if conn == "unreachable" else None

        net.dgram_connect_fault = on_dgram_connect
    else:
        net.default_capacity = wl.capacity
        net.default_delivery = lambda pipe_name: wl.delivery if pipe_name.endswith("@peer") else None  # type: ignore[assignment,return-value]

        def on_peer(peer: SimSocket) -> None:
            box["reader"] = _BurstReader(world, peer, wl.profile, wl.capacity)

        def script(sock: SimSocket, addr: tuple) -> Any:
            wl.configure(net, sock)
            if conn == "ok":
                return ("ok", delay * TICK, on_peer)
            return ("never", 0.0) if conn == "never" else ("err", delay * TICK, _errno.ECONNREFUSED)

        net.connect_script = script

    async def amain() -> None:
        loop = asyncio.get_running_loop()
        if not wl.baseline:
            swarm_selector(world, loop.sim_selector)  # type: ignore[attr-defined]
            # no spurious readiness: a connecting socket reported writable with SO_ERROR == 0 *is* an established connection
            # for sock_connect(); a kernel never reports that spuriously
            loop.sim_selector.spurious_den = 0  # type: ignore[attr-defined]
        client: Any
        if udp:
            client = AsyncUDPNetworkClient(("sim.host" if conn != "noname" else "nowhere.invalid", 7000), DatagramProtocol(_PacketSerializer(wl.piece)), backend=backend)
        else:
            client = AsyncTCPNetworkClient(("127.0.0.1", 4000), wl.protocol, backend=backend)
        it0 = world.counters["loop_iterations"]
        t0 = loop.time()

        def fire(role: int, fault: str, forced: bool = False) -> None:
            lk = wl.locks[0]
            owner = lk.owner if lk.locked() and lk.owner in wl.in_call and lk.owner not in wl.cancel_targets and not lk.owner.done() else None
            queued = [t for t in lk.waiting if t in wl.in_call and t not in wl.cancel_targets and not t.done()]
            victim: Any = None
            if role == 0:
                if owner is not None and not client.is_connected():
                    victim = owner  # the sender that performs the connection
            elif queued:
                victim = queued[(role - 1) % len(queued)]
            if victim is None:
                if not forced:
                    world.probe("first-use:cancel-found-nobody")
                return
            if role == 0:
                state["attempt_over"] = state["connector_cancelled"] = True
                world.probe("first-use:connecting-sender-cancelled:%d-queued" % min(len(queued), 3))
            else:
                world.probe("first-use:queued-sender-cancelled-%s" % ("while-connecting" if not client.is_connected() else "after-connection"))
            wl.cancel_targets.add(victim)
            victim.cancel()
            world.fault(fault)
            world.log("cancel", name, victim.get_name(), role)

        def hook() -> None:
            j = world.counters["loop_iterations"] - it0
            hit = False
            for kind, when, role in events:
                if kind == 1 and when == j:
                    fire(role, "cancel_at_iteration")
                    hit = True
            if hit:
                loop._write_to_self()  # type: ignore[attr-defined]  # inside select(): what became ready must not wait for the network

        timers = [loop.call_at(t0 + when * TICK / 2, fire, role, "cancel_at_time") for kind, when, role in events if kind == 0]

        async def reaper() -> None:
            # a connection that never completes only ends when its caller gives up: cancel the connecting sender, late
            for _ in range(1000):
                await asyncio.sleep(40 * TICK)
                fire(0, "cancel_at_time", forced=True)
            raise StepCap("C12 first-use reaper: 1000 rounds")

        world.iteration_hooks.append(hook)
        reap = loop.create_task(reaper(), name="c12-reaper") if conn == "never" else None
        try:
            await wl.run_senders(client.send_packet)
        finally:
            world.iteration_hooks.remove(hook)
            for th in timers:
                th.cancel()
            if reap is not None:
                reap.cancel()
            await client.aclose()
            box["closed"] = True

    try:
        with sim_sockets(net):
            run_async(world, amain)
    except Deadlock as exc:
        raise Violation("no-hang", f"harness={name}: the senders never finish ({len(wl.calls)} of {sum(len(x) for x in wl.plan)} calls returned): {exc}; plan={world.notes}", key=f"C12/{name}/hang") from None
    if not box.get("closed"):
        raise HarnessError(f"C12 {name}: run ended before the client was closed")
    if state["connector_cancelled"] or conn != "ok":
        if any(c[2].startswith("allowed@") for c in wl.calls):
            world.probe("first-use:a-later-call-reported-the-failed-attempt")
    if udp:
        _drain_world(world, lambda: False)
        _check_datagrams(wl, [bytes(d) for d, _ in peer_dgram.dgram_q])
        return
    reader = box.get("reader")
    if reader is None:

        class _Nothing:
            received = b""

        _check(wl, _Nothing)
        return
    _drain_world(world, lambda: reader.saw_fin or reader.saw_rst)
    _check(wl, reader)


# ===================================================================================================== TLS harness
class _PiecewiseTransport(AsyncStreamTransport):
    """A legal AsyncStreamTransport whose send_all() is NOT atomic with respect to concurrent callers: it hands the
    data to the wrapped adapter in pieces, suspending in between (like any transport that loops over a partial
    ``send``).  The transport API does not promise more; AsyncTLSStreamTransport must serialise its users itself."""

    def __init__(self, inner: Any, piece: int):
        super().__init__()
        self.inner = inner
        self.piece = piece

    async def aclose(self) -> None:
        await self.inner.aclose()

    def is_closing(self) -> bool:
        return self.inner.is_closing()

    def backend(self) -> Any:
        return self.inner.backend()

    async def recv(self, bufsize: int) -> bytes:
        return await self.inner.recv(bufsize)

    async def recv_into(self, buffer: Any) -> int:
        return await self.inner.recv_into(buffer)

    async def send_all(self, data: Any) -> None:
        with memoryview(data) as mv:
            for i in range(0, len(mv), self.piece):
                await self.inner.send_all(mv[i : i + self.piece])
                await asyncio.sleep(0)

    async def send_eof(self) -> None:
        await self.inner.send_eof()

    @property
    def extra_attributes(self) -> Any:
        return self.inner.extra_attributes


def _h_tls(world: World) -> None:
    """N tasks calling AsyncTLSStreamTransport.send_all / send_all_from_iterable on ONE transport; the reference TLSPeer
    must decrypt exactly the multiset of packets"""
    from easynetwork.lowlevel.api_async.transports.tls import AsyncTLSStreamTransport

    from vsim.tls import TLSPeer, make_context

    wl = _Workload(world, "tls", max_extra_senders=3, max_packets=3, cancels=True)
    wl.cancelled_may_be_sent = True
    version = ("1.3", "1.2")[world.choose("tls.version", 2)]
    lib_server = bool(world.choose("tls.lib_server", 2))
    shape = "eager" if wl.baseline else ("eager", "wtr")[world.choose("tls.shape", 2)]
    capacity = {1 << 20: 1 << 20, 7: 2048, 16: 2048, 64: 4096, 256: 16384}[wl.capacity]  # TLS records need room
    world.stats.pop("capacity_small", None)
    piecewise = 0 if wl.baseline else (0, 64, 700)[world.choose("tls.piecewise", 3)]
    use_iter = [[world.choose("tls.iter", 2) for _ in lst] for lst in wl.plan]
    if capacity < (1 << 20):
        world.fault("capacity_small")
    # the transport send lock: the stock asyncio.Lock, or the repo's FairLock (a backend keeping the ABC's create_fair_lock())
    fair = False if wl.baseline else bool(world.choose("tls.fairlock", 2))
    # back-pressure: the peer application stops reading for a while right after the handshake, so that the sender that owns the
    # transport send lock stays suspended mid-flush while the others queue up behind it (and may be cancelled there)
    pause = 0 if wl.baseline else (0, 0, 3, 12, 40)[world.choose("tls.peer_pause", 5)]
    # ... and the peer's receive window may shrink once the handshake (which needs room) is over, so that even one small
    # record keeps the owner of the send lock suspended until the peer reads
    window = 0 if wl.baseline else (0, 0, 64, 256, 1024)[world.choose("tls.window", 5)]
    # standard_compatible=False: aclose() skips the closing handshake, so it flushes nothing: whatever a call that reported
    # success left in the write BIO is never sent (the peer then sees EOF without close_notify, which is expected)
    std_compat = True if wl.baseline else not world.choose("tls.no_shutdown", 2)
    # the lock owner may be cancelled mid-flush only over the plain adapter: a cancelled piecewise send_all() legitimately leaves
    # a torn record behind (documented: the connection is then in an inconsistent state)
    wl.owner_cancellable = not wl.baseline and not piecewise
    # ... and there some calls are made under a timeout scope (backend.move_on_after) of 1, 4 or 15 ticks, which fires wherever
    # the call is: queued on the send lock, or owning it mid-flush while the others have already returned
    call_tmo = [[(0, 0, 0, 1, 4, 15)[world.choose("tls.call_timeout", 6)] if wl.owner_cancellable else 0 for _ in lst] for lst in wl.plan]
    world.notes.update(tls=version, lib_server=lib_server, shape=shape, tls_capacity=capacity, piecewise=piecewise, fairlock=fair, peer_pause=pause, window=window, standard_compatible=std_compat, call_timeouts=call_tmo)
    net = SimNet(world)
    backend = _FairLockBackend(net, wl, fair=fair)
    d = wl.delivery
    if d.frag == 1 or (d.frag in (2, 3) and d.size < 16):
        d.frag, d.size = max(d.frag, 2), 16  # handshake + records byte-by-byte only cost simulation time
    if len(d.delays) > 2:
        d.delays = (0, 1)
    lib, psock = net.socketpair(capacity_ab=capacity, delivery_ab=d)
    net.short_write_den = wl.short_den
    peer = TLSPeer(world, psock, server_side=not lib_server, version=version, shape=shape)
    peer.auto_close_reply = True  # graceful aclose()
    serializer = _PacketSerializer(wl.piece)
    state: dict[str, Any] = {}

    async def amain() -> None:
        loop = asyncio.get_running_loop()
        if not wl.baseline:
            swarm_selector(world, loop.sim_selector)  # type: ignore[attr-defined]
            loop.sim_selector.spurious_den = 0  # type: ignore[attr-defined]
        tr: Any = await backend.wrap_stream_socket(lib)
        if piecewise:
            tr = _PiecewiseTransport(tr, piecewise)
        tls = await AsyncTLSStreamTransport.wrap(tr, make_context(lib_server, version), server_side=lib_server, server_hostname=None if lib_server else "sim.host", handshake_timeout=200000.0, standard_compatible=std_compat)

        async def send_now(packet: Any) -> None:
            if use_iter[packet[0] - 1][packet[1]]:
                await tls.send_all_from_iterable(serializer.incremental_serialize(packet))
            else:
                await tls.send_all(serializer.serialize(packet))

        async def send_packet(packet: Any) -> None:
            tmo = call_tmo[packet[0] - 1][packet[1]]
            if not tmo:
                return await send_now(packet)
            lk, me = wl.locks[0], asyncio.current_task()
            before = lk.taken[me]
            with backend.move_on_after(tmo * TICK) as scope:
                return await send_now(packet)
            if scope.cancelled_caught():
                world.fault("cancel_at_time")
                world.probe("call-timed-out:%s" % ("owning-the-send-lock" if lk.taken[me] != before else "queued-on-the-send-lock"))
                raise _CallTimedOut()

        if window:
            assert lib.tx_pipe is not None
            lib.tx_pipe.capacity = window
            world.fault("capacity_small")
        if pause:
            peer.paused = True
            world.fault("peer_stops_reading")
            world.after(pause * TICK, peer.resume)
        try:
            await wl.run_senders(send_packet)
            guard = 0
            pipe = lib.tx_pipe
            assert pipe is not None
            quiet, last = 0, -1
            while peer.engine.error is None and (pipe.flight or pipe.rx or quiet < 4):
                # let the reference peer take what is still on the link before closing, and the socket transport hand over what
                # a cancelled lock owner left in its write buffer (nothing written for 4 ticks with an empty link = nothing left)
                quiet = quiet + 1 if pipe.total_written == last and not (pipe.flight or pipe.rx) else 0
                last = pipe.total_written
                await asyncio.sleep(TICK)
                guard += 1
                if guard > 50000:
                    raise StepCap("C12 tls: the link did not drain within 50000 ticks")
        finally:
            # generous: on the slowest links (7 bytes per tick) what cancelled lock owners left in the socket transport's buffer, plus the
            # close_notify, can take minutes of virtual time; a close cut short by THIS bound truncates the stream by the harness's own doing
            with backend.move_on_after(600.0) as close_scope:
                await tls.aclose()
            state["close_cut"] = close_scope.cancelled_caught()
            state["closed"] = True

    try:
        run_async(world, amain)
    except Deadlock as exc:
        raise Violation(
            "no-hang",
            f"harness=tls: the peer keeps reading but the senders never finish ({len(wl.calls)} of {sum(len(x) for x in wl.plan)} calls returned; peer decrypted {len(peer.plain_in)} of {wl.total_bytes} bytes): {exc}; plan={world.notes}",
            key="C12/tls/hang",
        ) from None
    if not state.get("closed"):
        raise HarnessError("C12 tls: run ended before the transport was closed")
    # the loop is gone; let the link deliver what is still in flight (e.g. what a cancelled owner left in the socket buffer)
    _drain_world(world, lambda: peer.fin_seen or peer.rst_seen or peer.engine.error is not None)
    if state.get("close_cut"):
        world.probe("tls-close-cut-short-by-the-harness")  # the harness aborted a close that was still flushing: truncation is its own doing
        return
    if not std_compat and peer.engine.saw_ragged_eof and peer.fin_seen:
        world.probe("tls-closed-without-shutdown")  # EOF without close_notify is what standard_compatible=False produces
    elif peer.engine.error is not None:
        sent, ctx = _check_calls(wl)
        raise Violation("wire-decodes", f"the reference TLS peer could not decrypt the cipher-text stream: {type(peer.engine.error).__name__} after {len(peer.plain_in)} plaintext bytes; {ctx}", key=f"C12/tls/wire/tls-{type(peer.engine.error).__name__}")

    class _Plain:
        received = peer.plain_in

    _check(wl, _Plain)


# ===================================================================================================== threaded harnesses
def _drain_world(world: World, done: Callable[[], bool]) -> None:
    steps = 0
    while not done() and world.has_events():
        world.advance(None)
        steps += 1
        if steps > 100000:
            raise StepCap("C12: draining the link after the run took more than 100000 events")


def _h_threads_tcp(world: World) -> None:
    """2-4 real threads (baton scheduler) calling send_packet on ONE blocking TCPNetworkClient"""
    from vsim.harness import sync_engine

    wl = _Workload(world, "threads-tcp", max_extra_senders=3, max_packets=3, timed=True)
    net = SimNet(world)
    lib, psock = net.socketpair(capacity_ab=wl.capacity, delivery_ab=wl.delivery)
    wl.configure(net, lib)
    reader = _BurstReader(world, psock, wl.profile, wl.capacity)
    sched = wl.make_scheduler()
    world.sched = sched  # type: ignore[attr-defined]
    try:
        with sync_engine(world), sched:
            client: Any = TCPNetworkClient(lib, wl.protocol)
            try:
                wl.run_threads(client.send_packet)
            finally:
                client.close()
    except Deadlock as exc:
        raise Violation(
            "no-hang",
            f"harness={wl.name}: the peer keeps reading but the sender threads never finish ({len(wl.calls)} of {sum(len(x) for x in wl.plan)} calls returned; "
            f"peer got {len(reader.received)} of {wl.total_bytes} bytes): {exc}; plan={world.notes}",
            key=f"C12/{wl.name}/hang",
        ) from None
    finally:
        world.sched = None  # type: ignore[attr-defined]
        if wl.baseline:  # Thread.start() waiting for its started-event is counted as contention by the scheduler: not a fault
            world.stats.pop("lock_contention", None)
    _drain_world(world, lambda: reader.saw_fin or reader.saw_rst)
    _check(wl, reader)


def _h_threads_udp(world: World) -> None:
    """2-4 real threads calling send_packet on ONE blocking UDPNetworkClient: one datagram per packet"""
    import socket as _socket

    from vsim.harness import sync_engine

    wl = _Workload(world, "threads-udp", max_extra_senders=3, max_packets=3, timed=True)
    net = SimNet(world)
    peer = SimSocket(net, _socket.AF_INET, _socket.SOCK_DGRAM, 0, "peer")
    peer.bind(("127.0.0.1", 7000))
    lib = SimSocket(net, _socket.AF_INET, _socket.SOCK_DGRAM, 0, "lib")
    lib.bind(("127.0.0.1", 0))
    lib.connect(("127.0.0.1", 7000))
    wl.configure(net, lib, ops=("sendto",))
    protocol: Any = DatagramProtocol(_PacketSerializer(wl.piece))
    sched = wl.make_scheduler()
    world.sched = sched  # type: ignore[attr-defined]
    try:
        with sync_engine(world), sched:
            client: Any = UDPNetworkClient(lib, protocol)
            try:
                wl.run_threads(client.send_packet)
            finally:
                client.close()
    except Deadlock as exc:
        raise Violation("no-hang", f"harness={wl.name}: sender threads never finish ({len(wl.calls)} calls returned): {exc}; plan={world.notes}", key=f"C12/{wl.name}/hang") from None
    finally:
        world.sched = None  # type: ignore[attr-defined]
        if wl.baseline:  # Thread.start() waiting for its started-event is counted as contention by the scheduler: not a fault
            world.stats.pop("lock_contention", None)
    _drain_world(world, lambda: False)
    _check_datagrams(wl, [bytes(d) for d, _ in peer.dgram_q])


# ===================================================================================================== server harness
class _FanOutHandler(AsyncStreamRequestHandler):
    def __init__(self, wl: _Workload, where: int):
        self.wl = wl
        self.where = where  # 0: fan out from handle() after a trigger request; 1: from on_connection()
        self.done: Any = None

    async def on_connection(self, client):  # type: ignore[override]
        if self.where == 1:
            await self.wl.run_senders(client.send_packet)
            await client.aclose()

    async def handle(self, client):  # type: ignore[override]
        request = yield
        if self.where == 0 and request == (0, 0, 0):
            await self.wl.run_senders(client.send_packet)
            await client.aclose()

    async def on_disconnection(self, client) -> None:  # type: ignore[override]
        self.done.set()


def _h_server(world: World, fair: bool = False) -> None:
    wl = _Workload(world, "server-fairlock" if fair else "server", cancels=fair)
    where = world.choose("srv.where", 2)
    net = SimNet(world)
    backend = _FairLockBackend(net, wl) if fair else SimAsyncIOBackend(net)
    handler = _FanOutHandler(wl, where)
    box: dict[str, Any] = {}
    async def amain() -> None:
        loop = asyncio.get_running_loop()
        if not wl.baseline:
            swarm_selector(world, loop.sim_selector)  # type: ignore[attr-defined]
        handler.done = asyncio.Event()
        server: Any = AsyncTCPNetworkServer("127.0.0.1", 5000, wl.protocol, handler, backend=backend, log_client_connection=False)
        async with server:
            await server.server_activate()
            # make_pair(srv, peer): ab = server -> peer (the direction under test)
            peer = net.connect_to_listener(net.listeners[("127.0.0.1", 5000)], label="peer", capacity_ab=wl.capacity, delivery_ab=wl.delivery)
            srv_sock = next(s for s in world.sockets if s.label == "peer@srv")
            wl.configure(net, srv_sock)
            box["reader"] = _BurstReader(world, peer, wl.profile, wl.capacity)
            up = asyncio.Event()
            serve = loop.create_task(server.serve_forever(is_up_event=up), name="c12-serve")
            await up.wait()
            if where == 0:
                assert peer.tx_pipe is not None
                peer.tx_pipe.write(b"".join(wl.protocol.generate_chunks((0, 0, 0))))
            await handler.done.wait()
            box["closed"] = True
            await server.shutdown()
            await serve

    with sim_sockets(net):
        _finish(world, wl, box, amain)


HARNESSES = [
    Harness("client", _h_client, weight=1),
    Harness("server", _h_server, weight=1),
    Harness("endpoint-fairlock", _h_fairlock, weight=1),
    Harness("client-fairlock", lambda w: _h_client(w, True), weight=1),
    Harness("client-first-use", _h_first_use, weight=1),
    Harness("udp-first-use", lambda w: _h_first_use(w, True), weight=1),
    Harness("server-fairlock", lambda w: _h_server(w, True), weight=1),
    Harness("tls", _h_tls, weight=2),
    Harness("threads-tcp", _h_threads_tcp, weight=2),
    Harness("threads-udp", _h_threads_udp, weight=1),
]
