"""C03 — receive endpoints: every complete packet once, then sticky end-of-stream (DESIGN §4 C03).

Actors: a scripted peer writes 0-6 complete frames, optionally followed by a proper prefix of one more frame, in 1-3
bursts over a fragmenting/delaying link, then closes (FIN) — either some time after its last byte or glued to byte k
with more bytes behind it that are never delivered.  The caller runs a drawn history of
recv_packet(timeout in {None, 0, >0}) / iter_received_packets(timeout) / sleeps that continues 1-4 calls past the first
end-of-stream report.  The oracle (class Hist) is evaluated on the recorded outcomes, with the world's delivery log.
"""
from __future__ import annotations

import asyncio
import math
import socket as _socket
from typing import Any, Callable, Iterator

from easynetwork.clients.async_tcp import AsyncTCPNetworkClient
from easynetwork.clients.tcp import TCPNetworkClient
from easynetwork.lowlevel.api_async.endpoints.stream import AsyncStreamEndpoint
from easynetwork.lowlevel.api_sync.endpoints.stream import StreamEndpoint
from easynetwork.lowlevel.api_sync.transports.socket import SocketStreamTransport
from easynetwork.protocol import BufferedStreamProtocol, StreamProtocol
from easynetwork.serializers.json import JSONSerializer
from easynetwork.serializers.line import StringLineSerializer
from easynetwork.serializers.struct import StructSerializer
from easynetwork.serializers.wrapper.base64 import Base64EncoderSerializer

from vsim.backend import SimAsyncIOBackend, sim_sockets
from vsim.harness import CallFaults, Peer, ProbeSelector, draw_rate, sync_engine, vsleep
from vsim.loop import run_async
from vsim.runner import Harness
from vsim.sock import Delivery, HalfPipe, SimNet, patched_clock
from vsim.world import Deadlock, StepCap, Violation, World

PROPERTY = "C03"
LEVEL = "exploration"
RULE = (
    "peer stream = 0-6 complete frames (StringLineSerializer LF/CRLF, JSONSerializer lines [base64-wrapped on the fill path], StructSerializer '!HI') + optional "
    "proper prefix of one more frame (random cut / one byte short = inside the separator), written in 1-3 bursts, link "
    "fragmentation whole/byte/fixed/random with per-fragment delays, FIN either later than the last byte or glued to byte k "
    "with undelivered bytes behind it; receive path copy (StreamProtocol) / fill (BufferedStreamProtocol), max_recv_size 1..1024; "
    "targets StreamEndpoint, TCPNetworkClient (blocking, SimSelector + virtual perf_counter), AsyncStreamEndpoint, "
    "AsyncTCPNetworkClient given a socket or an address (SimEventLoop + SimAsyncIOBackend); caller history = 0-8 drawn calls of "
    "recv_packet(None|0|T) / iter_received_packets(None|0|T) / sleep, then recv_packet(None) until end-of-stream, then 1-4 "
    "more drawn calls; non-trivial = a fault kind fired (frag, delay, fin_at, eagain, eintr) and >=1 packet was returned"
)
COMPONENTS_REAL = [
    "easynetwork.lowlevel.api_sync.endpoints.stream.StreamEndpoint",
    "easynetwork.lowlevel.api_sync.transports.socket.SocketStreamTransport + base_selector._retry",
    "easynetwork.clients.tcp.TCPNetworkClient",
    "easynetwork.clients._iter (both iterators)",
    "easynetwork.lowlevel.api_async.endpoints.stream.AsyncStreamEndpoint",
    "easynetwork.clients.async_tcp.AsyncTCPNetworkClient",
    "easynetwork asyncio backend: StreamReaderBufferedProtocol, AsyncioTransportStreamSocketAdapter, CancelScope/timeout",
    "easynetwork.lowlevel._stream consumers, serializers line/json/struct",
    "CPython asyncio selector transport (_SelectorSocketTransport) and event loop",
]
COMPONENTS_STUB = ["socket (SimSocket)", "selector (SimSelector)", "clocks (world clock)", "peer (scripted)", "name resolution (table)"]
ASSUMPTIONS = [
    "a stream recv never returns fewer bytes than are visible and asked for (DESIGN 2.6); fragmentation = delivery times",
    "asyncio engine: finite timeouts are placed off the 1/64 s delivery grid so that a deadline never coincides with a "
    "delivery (that coincidence is C10's subject; it keeps clause (e) free of ties); clause (e) is not evaluated there for timeout 0 "
    "(a cancelled scope cannot poll the kernel) nor for calls during which virtual CPU creep occurred",
    "clause (e) is not evaluated for a pure poll (no wait) during which the fault plan injected a spurious EAGAIN/EINTR",
]
BUDGET = {"quick": 40, "thorough": 480}

GUARD = 600.0  # virtual seconds: a timeout=None call on the asyncio engine that is still pending then is "blocked"


# ============================================================================================== scenario
def _gen_packet(kind: str, rng) -> Any:
    if kind.startswith("line"):
        return "".join(rng.choice("abcxyz 019") for _ in range(1 + rng.randrange(10)))
    if kind == "json":
        t = rng.randrange(6)
        i = rng.randrange(-50, 1000)
        if t == 0:
            return {"k": i}
        if t == 1:
            return [i, "s" * rng.randrange(4), None]
        if t == 2:
            return "v%d" % i
        if t == 3:
            return i
        if t == 4:
            return {"a": {"b": [i, i + 1]}, "c": "\né"}
        return None
    return (rng.randrange(65536), rng.randrange(1 << 32))


class Scenario:
    def __init__(self, world: World, sync: bool):
        calm = world.choose("swarm", 3) == 0
        self.calm = calm
        self.ser_name = world.pick("ser", ["line-LF", "line-CRLF", "json", "struct"])
        self.path = world.pick("path", ["copy", "buffered"])
        if self.ser_name == "line-LF":
            ser: Any = StringLineSerializer("LF")
        elif self.ser_name == "line-CRLF":
            ser = StringLineSerializer("CRLF")
        elif self.ser_name == "json":
            # JSONSerializer has no buffer-filling API: on the fill path it is wrapped (base64 lines, CRLF separator)
            ser = JSONSerializer() if self.path == "copy" else Base64EncoderSerializer(JSONSerializer())
        else:
            ser = StructSerializer("!HI")
        self.proto: Any = StreamProtocol(ser) if self.path == "copy" else BufferedStreamProtocol(ser)
        n = world.choose("npkt", 7)
        self.tail = 0 if calm else world.choose("tail", 3)
        rng = world.sub_rng("payload")
        values = [_gen_packet(self.ser_name, rng) for _ in range(n + 1)]
        frames = [b"".join(ser.incremental_serialize(v)) for v in values]
        self.packets = values[:n]  # the complete packets, in order
        self.ends: list[int] = []
        pos = 0
        for f in frames[:n]:
            pos += len(f)
            self.ends.append(pos)
        extra = frames[n]
        cut = 0
        if self.tail == 1:
            cut = 1 + world.choose("tail.cut", len(extra) - 1)
        elif self.tail == 2:
            cut = len(extra) - 1  # one byte short: inside the separator (CRLF) / before the terminator / last struct byte
        sent = b"".join(frames[:n]) + extra[:cut]
        self.sent = sent
        self.k = len(sent)
        self.fin_mode = 0 if (calm or self.k == 0) else world.choose("fin.mode", 2)
        written = sent if self.fin_mode == 0 else sent + extra[cut:] + frames[0]
        if self.tail and self.fin_mode == 0:
            world.fault("fin_at")  # close inside a frame (mode 1: counted by the pipe when it cuts)
        # bursts
        nb = 1 + world.choose("bursts", 3) if written else 1
        cuts = sorted(world.choose("burst.cut", len(written) + 1) for _ in range(nb - 1)) if written else []
        self.writes: list[tuple[float, bytes]] = []
        t = 0.0
        prev = 0
        for c in cuts + [len(written)]:
            piece = written[prev:c]
            prev = c
            if piece:
                self.writes.append((t, piece))
            t += world.pick("gap", (0, 1, 4, 32)) / 64.0
        last_t = self.writes[-1][0] if self.writes else 0.0
        self.fin_time = last_t + world.pick("fin.gap", (0, 1, 8, 64)) / 64.0
        self.delivery = Delivery() if calm else Delivery.draw(world, "link")
        self.mrs = world.pick("mrs", (1024, 1, 2, 3, 5, 8, 64))
        self.eagain_den = 0 if (calm or not sync) else draw_rate(world, "sw.eagain", (0, 0, 8, 3))
        self.eintr_den = 0 if (calm or not sync) else draw_rate(world, "sw.eintr", (0, 0, 8, 3))
        self.retry = world.pick("retry", (1.0, math.inf, 1 / 32)) if sync else 0.0
        self.history: list[tuple] = []
        world.notes.update(
            serializer=self.ser_name,
            path=self.path,
            complete_packets=n,
            tail=("none", "random-cut", "one-byte-short")[self.tail],
            fin=("after-last-byte+%g" % (self.fin_time - last_t), "glued-to-byte-%d" % self.k)[self.fin_mode],
            stream_len=self.k,
            writes=[(round(t, 6), len(d)) for t, d in self.writes],
            link=(self.delivery.frag, self.delivery.size, self.delivery.delays),
            max_recv_size=self.mrs,
        )

    def install(self, world: World, peer: Peer, pipe: HalfPipe, t0: float) -> None:
        if self.fin_mode == 1:
            pipe.fin_at = self.k
        for dt, data in self.writes:
            peer.write_at(t0 + dt, data)
        if self.fin_mode == 0:
            peer.fin_at(t0 + self.fin_time)
        world.log("script", "peer", self.k, self.fin_mode, len(self.writes))


# ============================================================================================== oracle
class Hist:
    """The recorded caller history and the five clauses of DESIGN C03, checked as outcomes arrive."""

    def __init__(self, world: World, sc: Scenario, site: str, sync: bool):
        self.world = world
        self.sc = sc
        self.site = site
        self.sync = sync
        self.pipe: HalfPipe | None = None
        self.delivered = 0
        self.eos = False
        self.log: list[tuple] = []
        # asyncio + fill path only: number of receive calls issued under an already expired deadline (timeout 0).
        # Such a call is cancelled in the loop iteration in which the transport reads the socket, which is the
        # trigger of defect D5 (bytes written into the consumer's buffer were dropped; fixed in /repo e60fd44).
        # Violations after such a call keep their own structural key so that "revert D5" is recognisable.
        self.zero_deadline_calls = 0

    def _fail(self, clause: str, sub: str, msg: str) -> None:
        sc = self.sc
        ctx = (
            f"\n  target={self.site} serializer={sc.ser_name} max_recv_size={sc.mrs} complete_packets={sc.packets!r}"
            f"\n  delivered_stream={sc.sent!r} (fin {'after last byte' if sc.fin_mode == 0 else 'glued to byte %d' % sc.k})"
            f"\n  visible_log={self.pipe.visible_log if self.pipe is not None else None}"
            f"\n  history={self.log}"
        )
        key = f"C03/{self.site}/{clause}" + (f"/{sub}" if sub else "")
        if self.zero_deadline_calls:
            # input class of DESIGN D5 (C10): asyncio fill path, receive under an already expired deadline
            key = f"C03/{self.site}/after-zero-timeout/{clause}" + (f"/{sub}" if sub else "")
            msg = f"[{self.zero_deadline_calls} receive call(s) with timeout 0 were made on the asyncio buffer-filling path before this] " + msg
        raise Violation(clause, msg + ctx, key=key)

    def record(self, *ev: Any) -> None:
        self.log.append(ev)
        self.world.log("out", self.site, *[e if not isinstance(e, (dict, list)) else repr(e) for e in ev])

    # ---- outcomes
    def on_packet(self, call: tuple, value: Any, t0: float, t1: float) -> None:
        self.record("pkt", call, value, t0, t1)
        sc = self.sc
        if self.eos:
            self._fail("no-packet-after-eos", "", f"(b) {call} returned {value!r} after end-of-stream had been reported")
        i = self.delivered
        if i >= len(sc.packets):
            if sc.tail:
                self._fail("incomplete-frame-delivered", "", f"(c) {call} returned {value!r} but only {len(sc.packets)} complete packets were sent; the trailing frame was cut")
            self._fail("prefix", "extra", f"(a) {call} returned {value!r} but only {len(sc.packets)} packets were sent")
        exp = sc.packets[i]
        if value != exp or type(value) is not type(exp):
            self._fail("prefix", "", f"(a) packet #{i}: {call} returned {value!r}, expected {exp!r}")
        self.delivered += 1
        self.world.progress()

    def on_eos(self, call: tuple, t0: float, t1: float, pos_waits: int, slack: float) -> None:
        self.record("eos", call, t0, t1, pos_waits)
        sc = self.sc
        if not self.eos:
            if self.delivered != len(sc.packets):
                self._fail("all-before-eos", "", f"(a) {call} reported end-of-stream after {self.delivered} of {len(sc.packets)} complete packets")
            self.eos = True
            self.world.probe("eos-timeout-%s" % ("none" if call[1] is None else "zero" if call[1] == 0 else "pos"))
            return
        self.world.probe("eos-again")
        if t1 - t0 > slack:
            self._fail("sticky-eos", "waited", f"(d) {call} after end-of-stream waited {t1 - t0} virtual seconds before reporting it again")
        if self.sync and pos_waits:
            self._fail("sticky-eos", "select", f"(d) {call} after end-of-stream called select() with a positive wait {pos_waits}x")

    def on_timeout(self, call: tuple, t0: float, t1: float, pos_waits: int, injected: int, slack: float) -> None:
        self.record("timeout", call, t0, t1, pos_waits)
        sc = self.sc
        if self.eos:
            self._fail("sticky-eos", "timeout", f"(d) {call} after end-of-stream raised TimeoutError instead of ConnectionAbortedError")
        i = self.delivered
        if i >= len(sc.packets) or self.pipe is None:
            return
        tv = self.pipe.time_visible(sc.ends[i])
        if tv is None:
            return
        if self.sync:
            unjust = tv < t1 or (tv == t1 and pos_waits == 0)
            if unjust and pos_waits == 0 and injected:
                self.world.probe("e-skipped-injected-eagain")
                unjust = False
        else:
            if slack or t1 <= t0:
                self.world.probe("e-skipped-aio")
                return
            unjust = tv < t1
        if unjust:
            self._fail("timeout-justified", "", f"(e) {call} raised TimeoutError at t={t1} (started {t0}) although the last byte of packet #{i} was visible to the socket at t={tv}")
        self.world.probe("timeout-justified")

    def on_other(self, call: tuple, exc: BaseException) -> None:
        self.record("exc", call, type(exc).__name__)
        if self.eos:
            self._fail("sticky-eos", type(exc).__name__, f"(d) {call} after end-of-stream raised {type(exc).__name__}: {exc}")
        self._fail("unexpected-exception", type(exc).__name__, f"{call} raised {type(exc).__name__}: {exc} (valid frames only were sent)")

    def on_blocked(self, call: tuple, what: str) -> None:
        self.record("blocked", call)
        self._fail("sticky-eos", "blocked", f"(d) {call} after end-of-stream blocks: {what}")


# ============================================================================================== caller history
def _plan(world: World, hist: Hist, has_iter: bool, draw_T: Callable[[], float]) -> Iterator[tuple]:
    kinds = ["recv-None", "recv-0", "recv-T", "sleep"] + (["iter-0", "iter-T", "iter-None"] if has_iter else [])

    def draw_call() -> tuple:
        kind = world.pick("call", kinds)
        if kind == "sleep":
            return ("sleep", world.pick("sleep", (1, 4, 32, 128)) / 64.0, 0)
        op, t = kind.split("-")
        T = None if t == "None" else 0 if t == "0" else draw_T()
        m = 1 + world.choose("iter.n", 4) if op == "iter" else 0
        return (op, T, m)

    for _ in range(world.choose("hist.n", 9)):
        if hist.eos:
            break
        yield draw_call()
    rounds = 0
    while not hist.eos:
        rounds += 1
        if rounds > len(hist.sc.packets) + 3:
            raise StepCap("end-of-stream was never reported to timeout=None calls")
        yield ("recv", None, 0)
    for _ in range(1 + world.choose("hist.extra", 4)):
        world.probe("call-past-eos")
        yield draw_call()


class _Probe:
    def __init__(self, world: World):
        self.world = world
        self.pos = 0
        world.select_probe = self  # type: ignore[attr-defined]

    def __call__(self, timeout: float | None) -> None:
        if timeout is None or timeout > 0:
            self.pos += 1


def _run_sync_history(world: World, sc: Scenario, hist: Hist, obj: Any, has_iter: bool) -> None:
    probe = _Probe(world)
    draw_T = lambda: world.pick("T", (1, 4, 16, 64, 320)) / 64.0  # noqa: E731

    def injected() -> int:
        return world.stats["eagain"] + world.stats["eintr"]

    def one(call: tuple, fn: Callable[[], Any]) -> bool:
        """run one blocking library call; returns False when an iterator is exhausted"""
        t0, p0, i0 = world.now, probe.pos, injected()
        try:
            value = fn()
        except StopIteration as e:
            exc: BaseException | None = e.__cause__
            t1 = world.now
            if isinstance(exc, TimeoutError):
                hist.on_timeout(call, t0, t1, probe.pos - p0, injected() - i0, 0.0)
            elif isinstance(exc, ConnectionAbortedError):
                hist.on_eos(call, t0, t1, probe.pos - p0, 0.0)
            else:
                hist.on_other(call, exc if exc is not None else e)
            return False
        except TimeoutError:
            hist.on_timeout(call, t0, world.now, probe.pos - p0, injected() - i0, 0.0)
        except ConnectionAbortedError:
            hist.on_eos(call, t0, world.now, probe.pos - p0, 0.0)
        except Deadlock as e:
            if hist.eos:
                world.fatal = None
                hist.on_blocked(call, str(e))
            raise
        except Exception as e:
            hist.on_other(call, e)
        else:
            hist.on_packet(call, value, t0, world.now)
        return True

    for op, T, m in _plan(world, hist, has_iter, draw_T):
        sc.history.append((op, T, m))
        world.log("call", hist.site, op, T, m)
        if op == "sleep":
            vsleep(world, T)
        elif op == "recv":
            one(("recv_packet", T), lambda: obj.recv_packet(timeout=T))
        else:
            it = obj.iter_received_packets(timeout=T)
            for j in range(m):
                if not one(("iter.next", T, j), lambda: next(it)):
                    break
    world.notes["history"] = [(op, T if T is None else round(T, 9), m) for op, T, m in sc.history]


async def _run_async_history(world: World, sc: Scenario, hist: Hist, obj: Any, backend: Any, has_iter: bool) -> None:
    timed = [0]

    def draw_T() -> float:
        # off-grid on purpose: base on the 1/64 grid plus a distinct tiny binary fraction per timed call
        timed[0] += 1
        return world.pick("T", (0, 1, 4, 16, 64, 320)) / 64.0 + 2.0 ** -(8 + min(timed[0], 30))

    def slack0() -> int:
        return world.creep_iterations

    async def one(call: tuple, T: float | None, fn: Callable[[], Any]) -> bool:
        t0, c0 = world.now, slack0()

        def slack() -> float:
            return (world.creep_iterations - c0) * World.CREEP

        try:
            if T is None:
                async with asyncio.timeout(GUARD):
                    value = await fn()
            else:
                value = await fn()
        except StopAsyncIteration as e:
            exc = e.__cause__
            if isinstance(exc, TimeoutError):
                if T is None:
                    hist.on_other(call, exc)
                hist.on_timeout(call, t0, world.now, 0, 0, slack())
            elif isinstance(exc, ConnectionAbortedError):
                hist.on_eos(call, t0, world.now, 0, slack())
            else:
                hist.on_other(call, exc if exc is not None else e)
            return False
        except TimeoutError as e:
            if T is None:
                if world.now - t0 >= GUARD:
                    if hist.eos:
                        hist.on_blocked(call, f"still pending after {GUARD} virtual seconds")
                    raise StepCap(f"{call} still pending after {GUARD} virtual seconds before end-of-stream was reported") from None
                hist.on_other(call, e)
            hist.on_timeout(call, t0, world.now, 0, 0, slack())
        except ConnectionAbortedError:
            hist.on_eos(call, t0, world.now, 0, slack())
        except Exception as e:
            hist.on_other(call, e)
        else:
            hist.on_packet(call, value, t0, world.now)
        return True

    async def recv_with(T: float | None) -> Any:
        if T is None:
            return await obj.recv_packet()
        with backend.timeout(T):
            return await obj.recv_packet()

    d5_class = sc.path == "buffered"
    # D5 is fixed (known_findings: fixed): timeout 0 is generated on the fill path in every run; the key is kept.
    for op, T, m in _plan(world, hist, has_iter, draw_T):
        sc.history.append((op, T, m))
        world.log("call", hist.site, op, T, m)
        if d5_class and T == 0 and op != "sleep":
            hist.zero_deadline_calls += 1
        if op == "sleep":
            await asyncio.sleep(T)
        elif op == "recv":
            await one(("recv_packet", T), T, lambda: recv_with(T))
        else:
            it = obj.iter_received_packets(timeout=T)
            for j in range(m):
                if not await one(("iter.anext", T, j), T, lambda: it.__anext__()):
                    break
    world.notes["history"] = [(op, T, m) for op, T, m in sc.history]


# ============================================================================================== harnesses
def _h_sync(world: World, target: str) -> None:
    sc = Scenario(world, sync=True)
    net = SimNet(world)
    lib, ps = net.socketpair(delivery_ba=sc.delivery)
    peer = Peer(world, ps)
    assert lib.rx_pipe is not None
    sc.install(world, peer, lib.rx_pipe, 0.0)
    if sc.eagain_den or sc.eintr_den:
        lib.fault_plan = CallFaults(world, sc.eagain_den, sc.eintr_den, ops=("recv",))
    hist = Hist(world, sc, f"sync-{target}/{sc.path}", sync=True)
    hist.pipe = lib.rx_pipe
    with sync_engine(world, selector_cls=ProbeSelector) as make_selector:
        if target == "endpoint":
            obj: Any = StreamEndpoint(SocketStreamTransport(lib, sc.retry, selector_factory=make_selector), sc.proto, sc.mrs)
        else:
            obj = TCPNetworkClient(lib, sc.proto, max_recv_size=sc.mrs, retry_interval=sc.retry)
        try:
            _run_sync_history(world, sc, hist, obj, has_iter=target == "client")
        finally:
            obj.close()


def _h_async(world: World, target: str) -> None:
    sc = Scenario(world, sync=False)
    net = SimNet(world)
    backend = SimAsyncIOBackend(net, hosts={"sim.host": [(_socket.AF_INET, "10.0.0.1")]})
    hist = Hist(world, sc, f"aio-{target}/{sc.path}", sync=False)

    async def main() -> None:
        by_address = target == "client" and bool(world.choose("connect.by-address", 2))
        if by_address:
            box: dict[str, Any] = {}

            def on_peer(psock: Any) -> None:
                box["peer"] = Peer(world, psock)
                sc.install(world, box["peer"], psock.tx_pipe, world.now)

            def script(sock: Any, addr: tuple) -> tuple:
                box["lib"] = sock
                return ("ok", world.pick("connect.delay", (0, 1, 16)) / 64.0, on_peer)

            net.connect_script = script
            net.default_delivery = lambda name: sc.delivery if name.split(">")[0].endswith("@peer") else None  # type: ignore[assignment,return-value]
            obj: Any = AsyncTCPNetworkClient(("sim.host", 5000), sc.proto, backend=backend, max_recv_size=sc.mrs)
            await obj.wait_connected()
            hist.pipe = box["lib"].rx_pipe
        else:
            lib, ps = net.socketpair(delivery_ba=sc.delivery)
            peer = Peer(world, ps)
            assert lib.rx_pipe is not None
            sc.install(world, peer, lib.rx_pipe, 0.0)
            hist.pipe = lib.rx_pipe
            if target == "endpoint":
                obj = AsyncStreamEndpoint(await backend.wrap_stream_socket(lib), sc.proto, sc.mrs)
            else:
                obj = AsyncTCPNetworkClient(lib, sc.proto, backend=backend, max_recv_size=sc.mrs)
                await obj.wait_connected()
        try:
            await _run_async_history(world, sc, hist, obj, backend, has_iter=target == "client")
        finally:
            await obj.aclose()

    # No virtual-CPU creep here (nothing in this workload legitimately busy-loops; a spin would hit the selector
    # call cap = HARNESS-ERROR): time then only moves in positive waits, which keeps the off-grid argument exact.
    world.FREE_ZERO_WAITS = 1 << 30  # type: ignore[misc]
    # clients/_iter.py measures its budget with time.perf_counter: it must read the world clock on this engine too
    with sim_sockets(net), patched_clock(world):
        run_async(world, main)


HARNESSES = [
    Harness("sync-endpoint", lambda w: _h_sync(w, "endpoint"), weight=2),
    Harness("sync-client", lambda w: _h_sync(w, "client"), weight=2),
    Harness("aio-endpoint", lambda w: _h_async(w, "endpoint"), weight=1),
    Harness("aio-client", lambda w: _h_async(w, "client"), weight=2),
]
