"""C10 — cancelling or timing out a receive never loses data (DESIGN §4 C10).

One receiver per layer reads a numbered byte stream under cancel sources; whatever was successfully returned, in
order, must be a prefix of what the peer wrote, and equal to it after a final uncancelled drain.

Layers (= harness names = second component of violation keys):
  adapter-recv / adapter-recv_into      AsyncioTransportStreamSocketAdapter (backend.wrap_stream_socket(SimSocket))
  endpoint-copy / endpoint-buffered     AsyncStreamEndpoint.recv_packet (StreamProtocol / BufferedStreamProtocol)
  client-copy / client-buffered         AsyncTCPNetworkClient.recv_packet
  client-iter-copy / -buffered          AsyncTCPNetworkClient.iter_received_packets(timeout)
  tls-recv / tls-recv_into              AsyncTLSStreamTransport.recv / recv_into over the adapter, reference TLSPeer, cipher-text via AlignedFeed
  tls-duplex-recv / -recv_into          the same while two writer tasks share the connection and the peer does not read: writer 1 stuck in
                                        send_all owning the transport send lock, writer 2 encrypted and queued for it (capacity_small + peer_stops_reading);
                                        history mode (two runs in three): both send_all() calls are then abandoned (timeout / move_on scope,
                                        task.cancel()) while the peer still does not read, so that cipher-text stays pending in the write
                                        BIO with nobody flushing it; later receives run under the usual cancel kinds (defect D31)
  server-copy / server-buffered         real AsyncTCPNetworkServer, handler does ``request = yield timeout``
  blocking-endpoint-copy / -into            blocking StreamEndpoint.recv_packet(timeout) ending in TimeoutError
(the thread scheduler does not exist yet; threaded harnesses can be added as further Harness entries built on
``_Plan`` / ``_Ledger`` below).

Time is a grid of TICK = 1/64 s.  Data chunks become visible at planned ticks (+ `defer` loop iterations), cancels fire
`d` ticks after the receive started; ties are therefore frequent, and the AlignedFeed coincidence bias additionally
re-times a pending chunk exactly onto the loop's next timer (fault ``coincide_timer``).

Bulk scenario (probe ``bulk-transfer``; 1 run in 4 of adapter-recv_into, 1 in 6 of tls-recv / tls-recv_into): the stream is
[head] + one block of 256 KiB + 1..70000 bytes + [tail] of random filler, each part one chunk, receive buffers of 64 KiB ..
512 KiB: a cancelled receive whose caller buffer (the TLS incoming reader's is 256 KiB) was filled completely by the read
event hands >= 256 KiB back to the adapter's internal buffer while more bytes are already queued in the socket.

Known defect D5 (DESIGN §5, fixed in /repo by e60fd44): on every ``recv_into`` based path a chunk that became visible in
the same loop iteration in which the waiter was cancelled (either order) was lost.  Its key is
``C10/<layer>/lost-bytes/cancel-same-iteration`` for the layers adapter-recv_into, endpoint-buffered[-struct],
client-buffered, client-iter-buffered, server-buffered.  Nothing is avoided under ``world.avoid_known``: coinciding
cancellations are generated on every layer ("revert D5" is the first sensitivity mutant of this property).
"""
from __future__ import annotations

import asyncio
import hashlib
import math
from typing import Any, Callable

from easynetwork.clients.async_tcp import AsyncTCPNetworkClient
from easynetwork.exceptions import StreamProtocolParseError
from easynetwork.lowlevel.api_async.endpoints.stream import AsyncStreamEndpoint
from easynetwork.lowlevel.api_sync.endpoints.stream import StreamEndpoint
from easynetwork.lowlevel.api_sync.transports.socket import SocketStreamTransport
from easynetwork.protocol import BufferedStreamProtocol, StreamProtocol
from easynetwork.serializers.line import StringLineSerializer
from easynetwork.serializers.struct import StructSerializer
from easynetwork.servers.async_tcp import AsyncTCPNetworkServer
from easynetwork.servers.handlers import AsyncStreamRequestHandler

from vsim.backend import SimAsyncIOBackend, sim_sockets
from vsim.harness import AlignedFeed, swarm_selector, sync_engine
from vsim.loop import run_async
from vsim.runner import Harness
from vsim.sock import Delivery, SimNet
from vsim.world import Deadlock, HarnessError, StepCap, Violation, World

PROPERTY = "C10"
LEVEL = "exploration"
RULE = (
    "numbered stream of 1-24 records cut into 1-8 chunks; each chunk visible at a planned 1/64 s tick plus 0-2 loop iterations; "
    "0-6 cancellations (backend.timeout, move_on_after, task.cancel from a timer callback or from a sibling task, "
    "iterator timeout, handler-yielded timeout, blocking timeout) d in 0..6 ticks after the receive started, so that arrival and "
    "cancellation tie often; coincidence bias re-times a pending chunk onto the loop's next timer (same iteration read-first / "
    "next iteration); receiver pauses let the transport's internal buffer fill; 18 harnesses over 7 layers (adapter, endpoint, client, client iterator, TLS transport with cipher-text records fed whole or cut in two, server, blocking endpoint); "
    "TLS also in full-duplex use (tls-duplex-*): two writer tasks on the same connection while the peer does not read (link capacity 2-16 KiB), writer 1 blocked in send_all owning the send lock, "
    "writer 2 encrypted and queued, peer resumes at a drawn tick; in two such runs out of three both send_all() calls are abandoned by a timeout / move_on scope or task.cancel() before the peer resumes "
    "(writer 2 first or at the same tick: its cipher-text stays pending in the write BIO without a flusher) and the receives go on; bulk scenario in a fraction of the adapter-recv_into / tls-recv* runs: one chunk just beyond 256 KiB (internal buffer of the adapter = "
    "buffer of the TLS incoming reader) with receive buffers of 64-512 KiB, so that a cancelled receive hands a completely filled caller buffer back while more bytes are queued; "
    "oracle = returned bytes are a prefix of the written stream at every return and equal it after an uncancelled drain to EOF, no receive fails on a valid stream"
)
COMPONENTS_REAL = [
    "easynetwork asyncio backend: StreamReaderBufferedProtocol, AsyncioTransportStreamSocketAdapter, CancelScope/timeout/move_on_after",
    "AsyncStreamEndpoint, AsyncTCPNetworkClient (+AsyncClientRecvIterator), AsyncTCPNetworkServer + lowlevel AsyncStreamServer request receivers",
    "StreamEndpoint + SocketStreamTransport (blocking)",
    "AsyncTLSStreamTransport (+ OpenSSL on both ends; the peer is the reference vsim.tls.TLSPeer), also with two send_all tasks sharing the connection with the receiver",
    "StreamDataConsumer / BufferedStreamDataConsumer, StringLineSerializer, StructSerializer",
    "CPython asyncio selector event loop and _SelectorSocketTransport",
]
COMPONENTS_STUB = ["SimSocket/SimNet (fd-less sockets)", "SimSelector + virtual clock", "scripted peer (AlignedFeed)"]
ASSUMPTIONS = [
    "a chunk becomes readable atomically at one virtual instant; recv never under-reports visible bytes (DESIGN §2.6)",
    "the asyncio ready queue is FIFO and is never permuted",
]
BUDGET = {"quick": 40, "thorough": 480}

TICK = 1.0 / 64
BIG = 256 * 1024  # size of the adapter's internal buffer and of the TLS incoming reader's buffer
KEY_D5 = "lost-bytes/cancel-same-iteration"


# ===================================================================================================== scenario
class _Codec:
    """how the numbered stream is framed on this layer; `encode(packet)` re-serialises a returned packet"""

    def __init__(self, world: World, mode: str, buffered: bool, big: bool = False):
        self.mode = mode
        n = 1 + world.choose("nrec", 24)
        self.packets: list[Any] = []
        self.maxlen = 1  # longest packet on the wire
        self.big_cuts: list[int] | None = None
        if big:
            # bulk transfer: [head] + one block just beyond the 256 KiB buffers (the adapter's internal one and the
            # TLS incoming reader's) + [tail]; aperiodic filler (an XOF of one recorded choice: cheaper than a PRNG)
            assert mode == "bytes"
            head = (0, 5 * n, 4096)[world.choose("big.head", 3)]
            block = BIG + (1, 1000, 5, 70000)[world.choose("big.over", 4)]
            tail = (0, 5, 70000)[world.choose("big.tail", 3)]
            self.stream = hashlib.shake_128(b"c10-%d" % world.choose("big.fill", 1 << 16)).digest(head + block + tail)
            self.big_cuts = [c for c in (head, head + block) if 0 < c < len(self.stream)]
            self.protocol = None
            return
        if mode == "bytes":
            self.stream = b"".join(b"%03d;" % i for i in range(n))
            self.protocol = None
            return
        if mode == "line":
            ser: Any = StringLineSerializer("LF", encoding="ascii", limit=64)
            for i in range(n):
                self.packets.append("%03d" % i + "x" * world.choose("pad", 6))
            self.encode: Callable[[Any], bytes] = lambda p: p.encode("ascii") + b"\n"
        else:
            ser = StructSerializer(">HI")
            for i in range(n):
                self.packets.append((i, (i * 7919 + 13) & 0xFFFFFFFF))
            self.encode = ser.serialize
        self.stream = b"".join(self.encode(p) for p in self.packets)
        self.maxlen = max(len(self.encode(p)) for p in self.packets)
        self.protocol = BufferedStreamProtocol(ser) if buffered else StreamProtocol(ser)


class _Plan:
    """one drawn scenario: stream, chunk schedule, cancel schedule"""

    def __init__(self, world: World, layer: str, *, into: bool, mode: str, buffered: bool, kinds: tuple[str, ...], sync: bool = False, big_den: int = 0):
        self.world = world
        self.layer = layer
        self.into = into  # recv_into based path (the D5 family)
        # bulk scenario (1 run in `big_den` on the layers that allow it): costs ~1 ms more, hence only a fraction
        self.big = bool(big_den) and world.chance("big", 1, big_den)
        self.codec = _Codec(world, mode, buffered, self.big)
        stream = self.codec.stream
        L = len(stream)
        # a third of the runs are fault-free baselines (profile 0): whole stream at once, no cancellation, no perturbation
        self.baseline = world.choose("profile", 3) == 0
        if self.baseline:
            self.chunks: list[tuple[int, bytes, int]] = [(0, stream, 0)]
            self.fin_tick = 0
            self.align_den = 0
            self.cancels: list[tuple[str, int]] = []
        else:
            if self.codec.big_cuts is not None:
                cuts = self.codec.big_cuts
            else:
                nchunks = 1 + world.choose("nchunks", min(8, L))
                cuts = sorted({1 + world.choose("cut", L - 1) for _ in range(nchunks - 1)}) if L > 1 else []
            bounds = [0, *cuts, L]
            t = world.choose("t0", 5)
            self.chunks = []
            for a, b in zip(bounds, bounds[1:]):
                defer = 0 if sync else (0, 0, 0, 1, 2)[world.choose("defer", 5)]
                self.chunks.append((t, stream[a:b], defer))
                t += world.choose("gap", 6)
            self.fin_tick = t + world.choose("fin.gap", 4)
            # (bulk runs cost more: stronger coincidence bias there)
            self.align_den = ((0, 1, 1, 2) if self.big else (0, 0, 4, 2))[world.choose("align_den", 4)]
            ncancel = world.choose("ncancel", 7)
            self.cancels = [(kinds[world.choose("kind", len(kinds))], world.choose("d", 7)) for _ in range(ncancel)]
        self.pause_den = (0, 0, 3)[world.choose("pause_den", 3)]
        if self.big:
            world.probe("bulk-transfer")
            self.sizes = [(BIG, 65536, BIG, 2 * BIG, BIG + 4096)[world.choose("size", 5)] for _ in range(3)]
        else:
            self.sizes = [(4096, 1, 2, 3, 5, 8, 64)[world.choose("size", 7)] for _ in range(3)]
        if len(self.chunks) > 1:
            world.fault("frag")
        if any(c[0] for c in self.chunks):
            world.fault("delay")
        world.notes.update(layer=layer, baseline=self.baseline, stream_len=L, chunks=[(c[0], len(c[1]), c[2]) for c in self.chunks], fin_tick=self.fin_tick, cancels=self.cancels, align_den=self.align_den, sizes=self.sizes)

    @property
    def align_offsets(self) -> tuple[int, ...]:
        """AlignedFeed offsets (loop iterations between the aligned timer and the chunk); bulk runs: read-first in the
        same iteration (the order in which bytes already sit in the cancelled caller's buffer) more often"""
        return (0, 1, 2, 0, 0) if self.big else (0, 1, 2)

    def start_feed(self, feed: AlignedFeed, t0: float) -> None:
        for tick, data, defer in self.chunks:
            feed.plan(t0 + tick * TICK, data, defer)
        feed.plan_fin(t0 + self.fin_tick * TICK)

    dscale = 1  # (tls-duplex history mode stretches the cancel delays in some runs)

    def delay(self, d: int) -> float:
        """virtual delay of a cancellation requested `d` ticks from now"""
        return d * self.dscale * TICK


def _is_subsequence(small: bytes, big: bytes) -> bool:
    pos = 0
    for byte in small:
        pos = big.find(byte, pos) + 1
        if not pos:
            return False
    return True


class _Ledger:
    """the oracle: everything returned so far, against the written stream"""

    def __init__(self, world: World, plan: _Plan, feed: AlignedFeed):
        self.world = world
        self.plan = plan
        self.feed = feed
        self.stream = plan.codec.stream
        self.got = bytearray()
        self.cancels: list[tuple[float, str]] = []
        self.cancel_i = 0
        self.size_i = 0
        self.eof = False
        self.violation: Violation | None = None
        self.ops = 0
        # TLS layers: the feed carries cipher-text; entry k of feed.log (FIN excluded) made cum_map[k] stream bytes readable
        self.cum_map: list[int] | None = None
        self.eof_ok: Callable[[], bool] = lambda: feed.fin_done  # may EOF be reported now?

    def arrivals(self) -> list[tuple[float, int, int]]:
        """[(time, loop iteration, cumulative stream bytes readable)] (FIN: -1)"""
        if self.cum_map is None:
            return list(self.feed.log)
        out = []
        k = 0
        for t, it, cum in self.feed.log:
            if cum < 0:
                out.append((t, it, -1))
            else:
                out.append((t, it, self.cum_map[k]))
                k += 1
        return out

    def visible(self) -> int:
        return max([c for _, _, c in self.arrivals()] + [0])

    # ---- schedule
    def next_cancel(self) -> tuple[str, int] | None:
        self.step()
        if self.cancel_i < len(self.plan.cancels):
            self.cancel_i += 1
            return self.plan.cancels[self.cancel_i - 1]
        return None

    def next_size(self) -> int:
        self.size_i += 1
        return self.plan.sizes[self.size_i % len(self.plan.sizes)]

    def pause_ticks(self) -> int:
        if self.plan.pause_den and self.world.chance("pause", 1, self.plan.pause_den):
            return 1 + self.world.choose("pause.n", 3)
        return 0

    def step(self) -> None:
        self.ops += 1
        if self.ops > 5000:
            raise StepCap(f"C10 {self.plan.layer}: more than 5000 receive operations")

    @property
    def stopped(self) -> bool:
        return self.eof or self.violation is not None

    # ---- observations
    def note_cancel(self, kind: str) -> None:
        now = self.world.now
        self.cancels.append((now, kind))
        self.world.fault("cancel_at_time")
        self.world.log("cancelled", self.plan.layer, kind)
        # coverage probe: a chunk became visible at the very instant of this cancellation, d loop iterations before it was noticed
        it = self.world.counters["loop_iterations"]
        for t, a, cum in self.arrivals():
            if t == now and cum >= 0:
                self.world.probe(f"tie:{kind}:arrival-{min(it - a, 4)}-iterations-before-notice")

    def record(self, data: bytes) -> bool:
        """a receive returned `data`; False when the oracle failed (receiver must stop)"""
        i = len(self.got)
        self.got += data
        self.world.log("got", self.plan.layer, len(data))
        self.world.progress(1)
        if self.stream[i : i + len(data)] != data or len(self.got) > self.visible():
            self.fail("prefix")
            return False
        return True

    def record_eof(self) -> None:
        self.eof = True
        self.world.log("eof", self.plan.layer)
        if not self.eof_ok():
            self.fail("early-eof")
        elif bytes(self.got) != self.stream:
            self.fail("final")

    def record_error(self, exc: BaseException) -> None:
        self.fail("error", f"{type(exc).__name__}")

    def fail(self, where: str, extra: str = "") -> None:
        if self.violation is not None:
            return
        got, stream = bytes(self.got), self.stream
        i = 0
        n = min(len(got), len(stream))
        while i < n and got[i] == stream[i]:
            i += 1
        window = got[i : i + 8]
        if where == "early-eof":
            what = "eof-before-fin"
        elif where == "error":
            what = "error-on-valid-stream/" + extra
        elif i >= len(stream):
            what = "extra-bytes"
        elif _is_subsequence(got[i:], stream[i:]):  # (the common prefix matches greedily)
            what = "lost-bytes"  # what was returned is the written stream with bytes deleted
        elif stream.find(window, 0, i + len(window) - 1) >= 0:
            what = "dup-bytes"
        else:
            what = "corrupt-bytes"
        # Did a cancellation share a virtual instant with the arrival of the first missing byte?  The first missing
        # byte is somewhere in [lo, hi): `i` is only the first *observable* divergence (a deletion inside a repeated
        # pattern shows later; on packet layers the lost chunk may begin anywhere in the damaged packet).
        lo = i
        for a in range(max(0, i - 512), i):  # (512 > every non-bulk stream; bulk streams are random filler)
            if stream.find(stream[a:i] + got[i : i + 1], a + 1) >= 0:
                lo = a
                break
        hi = i + self.plan.codec.maxlen
        prev = 0
        arrivals = []
        for t, _, cum in self.arrivals():
            if cum >= 0:
                if cum > lo and prev < hi:
                    arrivals.append(t)
                prev = cum
        coincide = any(t == ta for t, _ in self.cancels for ta in arrivals)
        site = "cancel-same-iteration" if coincide else ("after-cancel" if self.cancels else "no-cancel")
        key = f"C10/{self.plan.layer}/{what}/{site}"
        msg = (
            f"layer={self.plan.layer} check={where} first divergence at stream offset {i}: returned ...{got[max(0, i - 8):i + 12]!r} "
            f"expected ...{stream[max(0, i - 8):i + 12]!r}; returned {len(got)} of {len(stream)} bytes (visible {self.visible()}); "
            f"chunk arrivals (t, loop iteration, cumulative)={[(round(t * 64, 3), it, c) for t, it, c in self.arrivals()]} in 1/64 s; "
            f"cancellations noticed={[(round(t * 64, 3), k) for t, k in self.cancels]}; plan={self.world.notes}"
        )
        self.violation = Violation("stream-equality", msg, key=key)
        self.world.log("violation", self.plan.layer, what, site)


# ===================================================================================================== async layers
class _AdapterRecv:
    mode = "bytes"
    buffered = False

    async def setup(self, backend: SimAsyncIOBackend, sock: Any, led: _Ledger) -> None:
        self.led = led
        self.tr = await backend.wrap_stream_socket(sock)

    async def recv1(self) -> bytes | None:
        data = await self.tr.recv(self.led.next_size())
        return data or None

    async def close(self) -> None:
        await self.tr.aclose()


class _AdapterRecvInto(_AdapterRecv):
    async def recv1(self) -> bytes | None:
        buf = bytearray(self.led.next_size())
        n = await self.tr.recv_into(buf)
        return bytes(buf[:n]) or None


class _Endpoint:
    def __init__(self, mode: str, buffered: bool):
        self.mode = mode
        self.buffered = buffered

    async def setup(self, backend: SimAsyncIOBackend, sock: Any, led: _Ledger) -> None:
        self.led = led
        tr = await backend.wrap_stream_socket(sock)
        self.ep: Any = AsyncStreamEndpoint(tr, led.plan.codec.protocol, max_recv_size=led.next_size())

    async def recv1(self) -> bytes | None:
        try:
            p = await self.ep.recv_packet()
        except ConnectionAbortedError:
            return None
        return self.led.plan.codec.encode(p)

    async def close(self) -> None:
        await self.ep.aclose()


class _Client(_Endpoint):
    async def setup(self, backend: SimAsyncIOBackend, sock: Any, led: _Ledger) -> None:
        self.led = led
        self.ep = AsyncTCPNetworkClient(sock, led.plan.codec.protocol, backend=backend, max_recv_size=led.next_size())
        await self.ep.wait_connected()


async def _killer(task: asyncio.Task, delay: float) -> None:
    await asyncio.sleep(delay)
    task.cancel()


async def _rx_body(world: World, backend: SimAsyncIOBackend, layer: Any, led: _Ledger) -> None:
    """receive under a cancel source; on cancellation note it and receive again"""
    plan = led.plan
    loop = asyncio.get_running_loop()
    me = asyncio.current_task()
    assert me is not None
    while not led.stopped:
        e = led.next_cancel()
        data: bytes | None
        try:
            if e is None:
                data = await layer.recv1()
            elif e[0] == "timeout":
                try:
                    with backend.timeout(plan.delay(e[1])):
                        data = await layer.recv1()
                except TimeoutError:
                    led.note_cancel("timeout")
                    continue
            elif e[0] == "move_on":
                scope = backend.move_on_after(plan.delay(e[1]))
                done = False
                data = None
                with scope:
                    data = await layer.recv1()
                    done = True
                if not done:
                    led.note_cancel("move_on")
                    continue
            elif e[0] == "kill_timer":
                h = loop.call_later(plan.delay(e[1]), me.cancel)
                try:
                    data = await layer.recv1()
                finally:
                    h.cancel()
            elif e[0] == "kill_sibling":
                k = loop.create_task(_killer(me, plan.delay(e[1])), name="c10-killer")
                try:
                    data = await layer.recv1()
                finally:
                    k.cancel()
            elif e[0] == "iter":
                n = 0
                async for p in layer.ep.iter_received_packets(timeout=plan.delay(e[1])):
                    n += 1
                    if not led.record(plan.codec.encode(p)):
                        return
                led.note_cancel("iter-end")
                continue
            else:  # pragma: no cover
                raise HarnessError(f"unknown cancel kind {e!r}")
        except Exception as exc:  # nothing may fail on a valid stream (TimeoutError of our own scopes is handled above)
            led.record_error(exc)
            return
        if data is None:
            led.record_eof()
            return
        if not led.record(data):
            return
        p = led.pause_ticks()
        if p:
            await asyncio.sleep(p * TICK)


def _h_async(world: World, name: str, make_layer: Callable[[], Any], *, into: bool, kinds: tuple[str, ...], big_den: int = 0) -> None:
    layer = make_layer()
    plan = _Plan(world, name, into=into, mode=layer.mode, buffered=layer.buffered, kinds=kinds, big_den=big_den)
    net = SimNet(world)
    backend = SimAsyncIOBackend(net)
    lib, psock = net.socketpair(delivery_ba=Delivery(frag=5))
    feed = AlignedFeed(world, psock, align_den=plan.align_den, offsets=plan.align_offsets)
    led = _Ledger(world, plan, feed)

    async def amain() -> None:
        loop = asyncio.get_running_loop()
        loop.sim_selector.align = feed.on_wait  # type: ignore[attr-defined]
        if not plan.baseline:
            swarm_selector(world, loop.sim_selector)  # type: ignore[attr-defined]
        await layer.setup(backend, lib, led)
        plan.start_feed(feed, world.now)
        spawned = 0
        while not led.stopped:
            spawned += 1
            task = loop.create_task(_rx_body(world, backend, layer, led), name=f"c10-rx{spawned}")
            try:
                await task
            except asyncio.CancelledError:
                if not task.cancelled():
                    raise
                led.note_cancel("task.cancel")
        await layer.close()

    _run(world, {"plan": plan, "led": led, "feed": feed}, amain)


def _run(world: World, box: dict[str, Any], amain: Callable[[], Any]) -> None:
    """box: {"plan", "led", "feed"} (led/feed may be created during the run)"""
    layer = box["plan"].layer
    try:
        run_async(world, amain)  # (patches time.perf_counter itself: iterator budgets read the world clock)
    except Deadlock as exc:
        led, feed = box.get("led"), box.get("feed")
        if led is not None and led.violation is None and feed.idle():
            raise Violation(
                "no-hang",
                f"layer={layer}: everything was delivered (incl. FIN) but the receiver never finished: {exc}; returned {len(led.got)} of {len(led.stream)} bytes; plan={world.notes}",
                key=f"C10/{layer}/hang",
            ) from None
        raise
    led = box.get("led")
    if led is None:
        raise HarnessError(f"C10 {layer}: run ended before the connection was set up")
    if led.violation is not None:
        raise led.violation
    if not led.eof:
        raise HarnessError(f"C10 {layer}: run ended without EOF and without violation")


# ===================================================================================================== TLS layer
class _TLSRecv:
    mode = "bytes"
    buffered = False

    def __init__(self, into: bool):
        self.into = into

    async def recv1(self) -> bytes | None:
        size = self.led.next_size()
        if self.into:
            buf = bytearray(size)
            n = await self.tls.recv_into(buf)
            return bytes(buf[:n]) or None
        return (await self.tls.recv(size)) or None

    async def close(self) -> None:
        with self.tls.backend().move_on_after(5.0):
            await self.tls.aclose()


def _h_tls(world: World, name: str, into: bool, duplex: bool = False) -> None:
    """AsyncTLSStreamTransport.recv / recv_into over the adapter; the peer is the reference TLSPeer whose cipher-text
    reaches the library through an AlignedFeed (whole records, or a record cut in two).

    duplex: the same receiver shares the connection with two writer tasks while the peer does not read for a while
    (full-duplex use, e.g. a server pushing data from several tasks to a slow client while its connection task waits
    for the next request under a timeout): writer 1 is stuck in ``send_all`` owning the transport send lock, writer 2
    has encrypted its data and queues for the lock; the numbered stream arrives meanwhile, receives are cancelled as on
    the other layers, the peer resumes reading at a planned tick.  History mode: the two ``send_all()`` calls are
    abandoned (timeout / move_on scope, task.cancel()) before that, leaving cipher-text pending with no flusher (D31:
    a later receive flushed it after a successful SSL read and lost its bytes when cancelled there).
    Same oracle: what the receives return."""
    import ssl

    from easynetwork.lowlevel.api_async.transports.tls import AsyncTLSStreamTransport

    from vsim.tls import TLSPeer, make_context

    layer = _TLSRecv(into)
    plan = _Plan(world, name, into=True, mode="bytes", buffered=False, kinds=_KINDS, big_den=0 if duplex else 6)
    version = ("1.3", "1.2")[world.choose("tls.version", 2)]
    lib_server = bool(world.choose("tls.lib_server", 2))
    splits = [(world.choose("tls.split", 3), world.choose("tls.split.at", 1 << 10), world.choose("tls.split.gap", 3)) for _ in plan.chunks] if not plan.baseline else [(0, 0, 0)] * len(plan.chunks)
    world.notes.update(tls=version, lib_server=lib_server)
    net = SimNet(world)
    backend = SimAsyncIOBackend(net)
    blocked = duplex and not plan.baseline  # (baseline profile: the writers write, the peer reads — fault-free)
    abandon: dict[str, tuple[str, int]] = {}
    if blocked:
        cap = (4096, 2048, 16384)[world.choose("dx.cap", 3)]
        n1 = (40000, 20000, 90000)[world.choose("dx.w1size", 3)]
        n2 = (17, 500, 20000)[world.choose("dx.w2size", 3)]
        start1 = world.choose("dx.start1", 3)  # ticks after the feed started
        start2 = start1 + world.choose("dx.start2", 5)
        jobs: list[tuple[str, int, int]] = [("writer1", start1, n1), ("writer2", start2, n2)]  # (label, start tick, size)
        # history mode (two runs in three): both send_all() calls are abandoned (timeout / move_on scope, task.cancel())
        # while the peer still does not read.  Writer 2 at the same tick as writer 1 or earlier: it is abandoned while
        # queued for the send lock, its cipher-text stays in the write BIO and nobody is left to flush it (until the
        # next operation does).  1-4 such rounds; after the first one the socket is backed up, small writes block too.
        base = start2
        if world.choose("dx.abandon", 3):
            s1, s2 = start1, start2
            for r in range(1 + world.choose("dx.ab.rounds", 4)):
                if r:
                    s1 = base + 1 + world.choose("dx.ab.start1", 3)
                    s2 = s1 + world.choose("dx.ab.start2", 2)
                    jobs += [(f"writer{2 * r + 1}", s1, (17, 500)[world.choose("dx.ab.size1", 2)]), (f"writer{2 * r + 2}", s2, (17, 500)[world.choose("dx.ab.size2", 2)])]
                ab2 = s2 + 1 + world.choose("dx.ab.t2", 4)
                ab1 = max(s1 + 1, ab2 + (0, 0, 1, 2, -1)[world.choose("dx.ab.t1", 5)])
                abandon[f"writer{2 * r + 1}"] = (_AB_KINDS[world.choose("dx.ab.kind1", 3)], ab1)
                abandon[f"writer{2 * r + 2}"] = (_AB_KINDS[world.choose("dx.ab.kind2", 3)], ab2)
                base = max(ab1, ab2)
            # a receive meets the left-over cipher-text with its data at hand when it spans the abandonment (longer cancel
            # delays) or when the receiver was busy meanwhile with data waiting inside the SSL object (more pauses)
            plan.dscale = (1, 2, 3)[world.choose("dx.ab.dscale", 3)]
            plan.pause_den = (plan.pause_den, 2)[world.choose("dx.ab.pause", 2)]
        # the peer reads again: late (after its own last byte), at a drawn tick, or right after writer 2 queued / the
        # writers were abandoned
        last = max(plan.fin_tick, base) + 8
        resume_tick = (last, base + 1 + world.choose("dx.resume", last), base + 1)[world.choose("dx.resume.mode", 3)]
        world.fault("capacity_small")
        world.notes.update(duplex=dict(cap=cap, writers=jobs, resume_tick=resume_tick, abandon=abandon, cancel_delay_scale=plan.dscale, pause_den=plan.pause_den))
        lib, psock = net.socketpair(capacity_ab=cap)
    else:
        cap, resume_tick = 0, 0
        jobs = [("writer1", 0, 2000), ("writer2", 0, 17)]
        lib, psock = net.socketpair()
    peer = TLSPeer(world, psock, server_side=not lib_server, version=version, shape="eager")
    box: dict[str, Any] = {"plan": plan}

    async def amain() -> None:
        loop = asyncio.get_running_loop()
        tr = await backend.wrap_stream_socket(lib)
        tls = await AsyncTLSStreamTransport.wrap(tr, make_context(lib_server, version), server_side=lib_server, server_hostname=None if lib_server else "sim.host", handshake_timeout=200000.0)
        layer.tls = tls  # type: ignore[attr-defined]
        pipe = psock.tx_pipe
        assert pipe is not None
        guard = 0
        while not peer.engine.handshake_done or pipe.flight or pipe.rx or peer.out_pending:
            await asyncio.sleep(TICK)
            guard += 1
            if guard > 1000:
                raise HarnessError("C10 tls: handshake does not settle")
        # from here on the harness decides when cipher-text becomes visible
        pipe.delivery = Delivery(frag=5)
        feed = box["feed"] = AlignedFeed(world, psock, align_den=plan.align_den, offsets=plan.align_offsets)
        led = box["led"] = layer.led = _Ledger(world, plan, feed)  # type: ignore[attr-defined]
        captured: list[bytes] = []
        peer.sink = captured.append
        t0 = world.now
        cum_map: list[int] = []
        plain = 0
        total_cipher = 0
        for (tick, data, defer), (mode, at, gap) in zip(plan.chunks, splits):
            peer.write(data)
            cipher = b"".join(captured)
            captured.clear()
            if not cipher:
                raise HarnessError("C10 tls: the reference peer produced no cipher-text for a write")
            total_cipher += len(cipher)
            if mode and len(cipher) > 1:
                cut = 1 + at % (len(cipher) - 1)
                feed.plan(t0 + tick * TICK, cipher[:cut], defer)
                cum_map.append(plain)  # an incomplete record makes nothing readable
                plain += len(data)
                feed.plan(t0 + (tick + gap) * TICK, cipher[cut:], 0)
                cum_map.append(plain)
            else:
                plain += len(data)
                feed.plan(t0 + tick * TICK, cipher, defer)
                cum_map.append(plain)
        peer.close_notify()
        alert = b"".join(captured)
        captured.clear()
        total_cipher += len(alert)
        feed.plan(t0 + plan.fin_tick * TICK, alert, 0)
        cum_map.append(plain)
        feed.plan_fin(t0 + plan.fin_tick * TICK)
        led.cum_map = cum_map
        led.eof_ok = lambda: feed.total >= total_cipher  # EOF = the peer's close_notify, which precedes its FIN
        loop.sim_selector.align = feed.on_wait  # type: ignore[attr-defined]
        if not plan.baseline:
            swarm_selector(world, loop.sim_selector)  # type: ignore[attr-defined]
            loop.sim_selector.spurious_den = 0  # type: ignore[attr-defined]
        writers: list[asyncio.Task[None]] = []
        if duplex:
            if blocked:
                peer.paused = True
                world.fault("peer_stops_reading")
                world.at(t0 + resume_tick * TICK, lambda: (world.log("peer_resumes", name), peer.resume()))

            async def writer(label: str, start: int, size: int) -> None:
                await asyncio.sleep(start * TICK)
                world.log("writer_start", label, size)
                if blocked and peer.paused:
                    world.probe(f"duplex:{label}-starts-while-peer-not-reading")
                me = asyncio.current_task()
                assert me is not None
                data = bytes(size)
                abandoned = False
                try:
                    if label not in abandon:
                        await tls.send_all(data)
                    else:
                        kind, tick = abandon[label]
                        delay = max(0.0, t0 + tick * TICK - world.now)
                        if kind == "timeout":
                            try:
                                with backend.timeout(delay):
                                    await tls.send_all(data)
                            except TimeoutError:
                                abandoned = True
                        elif kind == "move_on":
                            with backend.move_on_after(delay) as scope:
                                await tls.send_all(data)
                            abandoned = scope.cancelled_caught()
                        else:
                            h = loop.call_later(delay, me.cancel)
                            try:
                                await tls.send_all(data)
                            finally:
                                h.cancel()
                except asyncio.CancelledError:
                    if label in abandon and abandon[label][0] == "task.cancel" and led.violation is None:
                        abandoned_send(label, "task.cancel")
                    raise
                except (OSError, ssl.SSLError) as exc:  # not this property's business (C08); the receive side goes on
                    world.log("writer_failed", label, type(exc).__name__)
                    return
                if abandoned:
                    abandoned_send(label, abandon[label][0])
                    return
                world.log("writer_done", label)
                if blocked and peer.paused and label == "writer1":  # (writer 2 may run first when both start at the same tick)
                    raise HarnessError(f"C10 {name}: {label} finished although the peer never read (cap={cap}, size={size})")

            def abandoned_send(label: str, kind: str) -> None:
                world.fault("cancel_at_time")
                world.log("writer_abandoned", label, kind)
                if tls._write_bio.pending:  # (observation only) cipher-text of an abandoned send_all() is left in the write BIO
                    world.probe("duplex:ciphertext-left-pending-by-abandoned-send")

            for label, start, size in jobs:
                writers.append(loop.create_task(writer(label, start, size), name=f"c10-{label}"))
        spawned = 0
        while not led.stopped:
            spawned += 1
            task = loop.create_task(_rx_body(world, backend, layer, led), name=f"c10-rx{spawned}")
            try:
                await task
            except asyncio.CancelledError:
                if not task.cancelled():
                    raise
                led.note_cancel("task.cancel")
        if writers:
            if led.violation is not None:
                for w in writers:
                    w.cancel()
            done, pending = await asyncio.wait(writers, timeout=4000.0)
            if pending:
                raise HarnessError(f"C10 {name}: the writers never finished although the peer reads again (resume tick {resume_tick}, now {(world.now - t0) / TICK})")
            for w in writers:
                if not w.cancelled() and w.exception() is not None:
                    raise w.exception()  # type: ignore[misc]
        peer.sink = None
        try:
            await layer.close()
        except Exception:
            if led.violation is None:  # (after an oracle failure the connection may be broken: report the failure, not the close)
                raise

    _run(world, box, amain)


# ===================================================================================================== server layer
class _Handler(AsyncStreamRequestHandler):
    """``request = yield timeout``; on TimeoutError note it and continue"""

    def __init__(self, world: World):
        self.world = world
        self.led: Any = None  # set once the peer is connected, before the server accepts
        self.gone: Any = None
        self.restart = world.choose("srv.restart", 3)  # 0 one generator; 1 new generator after every timeout; 2 after every request

    async def handle(self, client):  # type: ignore[override]
        led = self.led
        plan = led.plan
        while True:
            if led.violation is not None:
                await client.aclose()
                return
            e = led.next_cancel()
            try:
                request = yield (None if e is None else plan.delay(e[1]))
            except TimeoutError:
                led.note_cancel("yield-timeout")
                if self.restart == 1:
                    return
                continue
            except StreamProtocolParseError as exc:
                led.record_error(exc)
                await client.aclose()
                return
            if not led.record(plan.codec.encode(request)):
                await client.aclose()
                return
            p = led.pause_ticks()
            if p:
                await asyncio.sleep(p * TICK)
            if self.restart == 2:
                return

    async def on_disconnection(self, client) -> None:  # type: ignore[override]
        self.gone.set()


def _h_server(world: World, name: str, mode: str, buffered: bool) -> None:
    plan = _Plan(world, name, into=buffered, mode=mode, buffered=buffered, kinds=("yield",))
    net = SimNet(world)
    backend = SimAsyncIOBackend(net)
    handler = _Handler(world)
    box: dict[str, Any] = {"plan": plan}

    async def amain() -> None:
        loop = asyncio.get_running_loop()
        handler.gone = asyncio.Event()
        server: Any = AsyncTCPNetworkServer("127.0.0.1", 5000, plan.codec.protocol, handler, backend=backend, max_recv_size=plan.sizes[0], log_client_connection=False)
        async with server:
            await server.server_activate()
            peer = net.connect_to_listener(net.listeners[("127.0.0.1", 5000)], label="peer", delivery_ba=Delivery(frag=5))
            feed = box["feed"] = AlignedFeed(world, peer, align_den=plan.align_den)
            led = box["led"] = handler.led = _Ledger(world, plan, feed)
            loop.sim_selector.align = feed.on_wait  # type: ignore[attr-defined]
            if not plan.baseline:
                swarm_selector(world, loop.sim_selector)  # type: ignore[attr-defined]
            up = asyncio.Event()
            serve = loop.create_task(server.serve_forever(is_up_event=up), name="c10-serve")
            await up.wait()
            plan.start_feed(feed, world.now)
            await handler.gone.wait()
            if led.violation is None and not led.eof:
                led.record_eof()  # the server saw EOF (or dropped the connection): the receive side is over
            await server.shutdown()
            await serve

    with sim_sockets(net):
        _run(world, box, amain)


# ===================================================================================================== blocking layer
def _h_sync(world: World, name: str, mode: str, buffered: bool) -> None:
    plan = _Plan(world, name, into=False, mode=mode, buffered=buffered, kinds=("timeout",), sync=True)
    net = SimNet(world)
    lib, psock = net.socketpair(delivery_ba=Delivery(frag=5))
    feed = AlignedFeed(world, psock, align_den=plan.align_den, offsets=(0,))
    led = _Ledger(world, plan, feed)
    retry = (math.inf, 1.5 * TICK, 0.25 * TICK)[world.choose("retry_interval", 3)]
    try:
        with sync_engine(world, align=feed.on_wait) as make_selector:
            ep: Any = StreamEndpoint(SocketStreamTransport(lib, retry, selector_factory=make_selector), plan.codec.protocol, max_recv_size=led.next_size())
            plan.start_feed(feed, world.now)
            while not led.stopped:
                e = led.next_cancel()
                try:
                    p = ep.recv_packet(timeout=None if e is None else plan.delay(e[1]))
                except TimeoutError:
                    led.note_cancel("timeout")
                    continue
                except ConnectionAbortedError:
                    led.record_eof()
                    break
                except StreamProtocolParseError as exc:
                    led.record_error(exc)
                    break
                if not led.record(plan.codec.encode(p)):
                    break
                k = led.pause_ticks()
                if k:  # the caller is busy for k ticks: virtual time passes, data piles up in the socket
                    until = world.now + k * TICK
                    while world.now < until:
                        world.advance(until - world.now)
            ep.close()
    except Deadlock as exc:
        if led.violation is None and feed.idle():
            raise Violation("no-hang", f"layer={name}: everything was delivered (incl. FIN) but recv_packet never returned: {exc}; plan={world.notes}", key=f"C10/{name}/hang") from None
        raise
    if led.violation is not None:
        raise led.violation
    if not led.eof:
        raise HarnessError(f"C10 {name}: run ended without EOF and without violation")


# ===================================================================================================== registry
_KINDS = ("timeout", "move_on", "kill_timer", "kill_sibling")
_AB_KINDS = ("timeout", "move_on", "task.cancel")  # how a writer's send_all() is abandoned (tls-duplex-*, history mode)


def _mk_async(name: str, make_layer: Callable[[], Any], into: bool, kinds: tuple[str, ...] = _KINDS, weight: int = 1, big_den: int = 0) -> Harness:
    return Harness(name, lambda w: _h_async(w, name, make_layer, into=into, kinds=kinds, big_den=big_den), weight=weight)


HARNESSES = [
    _mk_async("adapter-recv", _AdapterRecv, False, weight=2),
    _mk_async("adapter-recv_into", _AdapterRecvInto, True, weight=3, big_den=4),
    _mk_async("endpoint-copy", lambda: _Endpoint("line", False), False),
    _mk_async("endpoint-copy-struct", lambda: _Endpoint("struct", False), False),
    _mk_async("endpoint-buffered", lambda: _Endpoint("line", True), True, weight=2),
    _mk_async("endpoint-buffered-struct", lambda: _Endpoint("struct", True), True),
    _mk_async("client-copy", lambda: _Client("line", False), False),
    _mk_async("client-buffered", lambda: _Client("struct", True), True),
    _mk_async("client-iter-copy", lambda: _Client("struct", False), False, kinds=("iter",)),
    _mk_async("client-iter-buffered", lambda: _Client("line", True), True, kinds=("iter",)),
    Harness("tls-recv", lambda w: _h_tls(w, "tls-recv", False)),
    Harness("tls-recv_into", lambda w: _h_tls(w, "tls-recv_into", True)),
    Harness("tls-duplex-recv", lambda w: _h_tls(w, "tls-duplex-recv", False, duplex=True), weight=2),
    Harness("tls-duplex-recv_into", lambda w: _h_tls(w, "tls-duplex-recv_into", True, duplex=True), weight=2),
    Harness("server-copy", lambda w: _h_server(w, "server-copy", "line", False)),
    Harness("server-buffered", lambda w: _h_server(w, "server-buffered", "line", True), weight=2),
    Harness("blocking-endpoint-copy", lambda w: _h_sync(w, "blocking-endpoint-copy", "line", False)),
    Harness("blocking-endpoint-into", lambda w: _h_sync(w, "blocking-endpoint-into", "struct", True)),
]
