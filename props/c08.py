"""C08 — TLS transport is a transparent, encrypted byte stream (DESIGN §4 C08)."""
from __future__ import annotations

import asyncio
import hashlib
import math
from typing import Any

from easynetwork.lowlevel.api_async.transports.tls import AsyncTLSStreamTransport

from vsim.backend import SimAsyncIOBackend
from vsim.harness import swarm_selector
from vsim.loop import run_async
from vsim.runner import Harness
from vsim.sock import Delivery, SimNet
from vsim.tls import RealTLSPeer, TLSPeer, make_context
from vsim.world import Deadlock, StepCap, Violation, World

PROPERTY = "C08"
LEVEL = "exploration"
RULE = (
    "one writer + one reader task on each side of a TLS connection (EasyNetwork AsyncTLSStreamTransport over the real asyncio socket adapter on SimSocket); "
    "peer = independent stdlib ssl engine in shape eager | write-then-read, or a second AsyncTLSStreamTransport (mirror); TLS 1.2/1.3, both roles; "
    "writes of 1 byte .. 3 records via send_all / send_all_from_iterable, each carrying a unique 16-byte marker; cipher-text fragmentation down to 1 byte, "
    "per-fragment delays, link capacity 2 KiB .. 1 MiB per direction, short writes, selector hold/reorder; aio-duplex-chatty: two library writer tasks with 30-120 small back-to-back writes each "
    "(continuous hand-over of the transport send lock) + a reader, against a write-then-read peer sending 3-8 bursts of 40-300 KB over 2-16 KiB links; aio-pha: TLS 1.3 post-handshake client authentication (cipher-text produced by a read) requested while a back-pressured writer owns the send lock / in a read-only phase after a queued writer was cancelled; non-trivial = a fault kind fired and >= 1 write completed"
)
COMPONENTS_REAL = [
    "easynetwork AsyncTLSStreamTransport",
    "easynetwork AsyncioTransportStreamSocketAdapter / StreamReaderBufferedProtocol / WriteFlowControl",
    "easynetwork SSLStreamTransport (sync-sequential harness, over a real in-process socketpair)",
    "CPython asyncio selector loop + _SelectorSocketTransport",
    "OpenSSL (ssl.SSLObject / SSLSocket) on both ends",
]
COMPONENTS_STUB = ["socket object (SimSocket)", "selector", "clock", "reference peer application (stdlib ssl driven by the simulator)"]
ASSUMPTIONS = [
    "cipher-text content is not reproducible (OpenSSL RNG); traces use lengths only",
    "the write-then-read peer is a legal TLS application (blocking-socket style); the EasyNetwork side always has a dedicated reader task, so a deadlock is the transport's",
]
BUDGET = {"quick": 60, "thorough": 600}

OPEN_D9_KEY = "C08/aio/*/deadlock"


def _marker(seed: int, side: str, i: int) -> bytes:
    return hashlib.sha256(f"{seed}:{side}:{i}".encode()).digest()[:16]


def _gen_writes(world: World, side: str, big_ok: bool) -> list[dict]:
    n = 1 + world.choose(f"{side}.nwrites", 4)
    out = []
    for i in range(n):
        cls = world.choose(f"{side}.sizeclass", 6 if big_ok else 4)
        if cls == 5 and world.choose(f"{side}.huge", 3) != 2:
            cls = 4  # "huge" (beyond the 256 KiB protocol buffer + link capacity) only in a third of the draws: it costs ms
        size = [1, 1 + world.choose("sz", 64), 200 + world.choose("sz", 3000), 16384 + world.choose("sz", 100) - 50, 20000 + world.choose("sz", 30000), 300000 + world.choose("sz", 200000)][cls]
        out.append({"size": size, "iter": world.choose(f"{side}.iter", 3), "gap": world.choose(f"{side}.gap", 3)})
    return out


def _gen_writes_chatty(world: World, side: str, peer: bool) -> list[dict]:
    """many writes in a row: the library's writers hand the transport send lock over again and again while the reader
    keeps coming back for more (reaches the hand-off window of the lock: released, next waiter not yet resumed); the peer
    writes bursts larger than the link so that a write-then-read peer stops reading until the library has read"""
    out = []
    if peer:
        for _ in range(3 + world.choose(f"{side}.chatty.n", 6)):
            size = [150000, 40000, 300000][world.choose(f"{side}.chatty.size", 3)] + world.choose("sz", 1000)
            out.append({"size": size, "iter": 0, "gap": world.choose(f"{side}.gap", 4)})
    else:
        for _ in range(30 + world.choose(f"{side}.chatty.n", 90)):
            size = [500, 100, 3000, 17][world.choose(f"{side}.chatty.size", 4)] + world.choose("sz", 200)
            out.append({"size": size, "iter": world.choose(f"{side}.iter", 3), "gap": [0, -1, 0, 1][world.choose(f"{side}.gap", 4)]})
    return out


def _payload(seed: int, side: str, i: int, size: int) -> bytes:
    m = _marker(seed, side, i)
    if size <= 16:
        # tiny writes cannot carry a whole marker; they carry a prefix (still checked for equality end-to-end)
        return m[:size]
    body = (bytes([65 + (i % 26)]) * (size - 16))
    return m + body


def _split(world_seed: int, data: bytes, mode: int) -> list[bytes]:
    if mode == 1:
        k = max(1, len(data) // 3)
        return [data[:k], b"", data[k : 2 * k], data[2 * k :]]
    return [data[: len(data) // 2], data[len(data) // 2 :]]


def _parse_records(wire: bytes) -> bool:
    pos = 0
    while pos < len(wire):
        if pos + 5 > len(wire):
            return False
        ct, major = wire[pos], wire[pos + 1]
        if ct not in (20, 21, 22, 23) or major != 3:
            return False
        ln = int.from_bytes(wire[pos + 3 : pos + 5], "big")
        if ln > 16384 + 2048:
            return False
        pos += 5 + ln
    return pos == len(wire)


def _h_aio(world: World, force_chatty: bool = False) -> None:
    seed16 = world.choose("markerseed", 1 << 16)
    version = world.pick("version", ["1.3", "1.2"])
    lib_server = bool(world.choose("lib_server", 2))
    shape = world.pick("shape", ["wtr", "wtr", "wtr", "mirror"] if force_chatty else ["eager", "wtr", "mirror"])
    caps = [1 << 20, 65536, 16384, 4096, 2048]
    big = 4 << 20
    # a third of the runs are "calm": no fragmentation, delay, back-pressure or selector perturbation (exact baseline)
    calm = (not force_chatty) and world.choose("swarm", 3) == 0
    cap_l2p = 1 << 20 if calm else caps[world.choose("cap_l2p", len(caps))]
    cap_p2l = 1 << 20 if calm else caps[world.choose("cap_p2l", len(caps))]
    big_ok = True
    a_writes = _gen_writes(world, "A", big_ok)
    b_writes = _gen_writes(world, "B", big_ok)
    # optional second writer task on the library side (its writes are whole messages >= 17 bytes so that the peer's
    # plaintext can be attributed: it must be a merge of the two writers' sequences of whole writes)
    two_writers = world.choose("two_writers", 3) == 2
    a2_writes = _gen_writes(world, "A2", big_ok) if two_writers else []
    chatty = force_chatty or ((not calm) and world.choose("chatty", 5) == 4)
    if chatty:
        two_writers = True
        a_writes = _gen_writes_chatty(world, "A", False)
        a2_writes = _gen_writes_chatty(world, "A2", False)
        b_writes = _gen_writes_chatty(world, "B", True)
        cap_l2p = [2048, 4096, 16384][world.choose("chatty.cap_l2p", 3)]
        cap_p2l = [4096, 2048, 16384][world.choose("chatty.cap_p2l", 3)]
        world.probe("chatty")
    if two_writers:
        for w in a_writes + a2_writes:
            w["size"] = max(w["size"], 17)
    net = SimNet(world)
    backend = SimAsyncIOBackend(net)
    d_l2p = Delivery() if calm else Delivery.draw(world, "l2p")
    d_p2l = Delivery() if calm else Delivery.draw(world, "p2l")
    for d, tot in ((d_l2p, sum(w["size"] for w in a_writes + a2_writes)), (d_p2l, sum(w["size"] for w in b_writes))):
        if d.frag in (1, 3) and len(d.delays) > 2:
            d.delays = (0, 1)  # tiny fragments with long per-fragment delays only cost simulation time
        # bound the number of link events per direction (~600 fragments): 1-byte fragments are for small transfers
        floor = max(1, (tot + 1500) // 600)
        if d.frag == 1 and floor > 1:
            d.frag, d.size = 2, floor
        elif d.frag in (2, 3) and d.size < floor:
            d.size = floor
        if tot > 100000:
            d.delays = (0,)
    lib, psock = net.socketpair(capacity_ab=cap_l2p, capacity_ba=cap_p2l, delivery_ab=d_l2p, delivery_ba=d_p2l)
    if cap_l2p < (1 << 20) or cap_p2l < (1 << 20):
        world.fault("capacity_small")
    net.short_write_den = 0 if calm else [0, 0, 6][world.choose("short", 3)]
    A = [_payload(seed16, "A", i, w["size"]) for i, w in enumerate(a_writes)]
    B = [_payload(seed16, "B", i, w["size"]) for i, w in enumerate(b_writes)]
    A2 = [_payload(seed16, "A2", i, w["size"]) for i, w in enumerate(a2_writes)]
    A_all, B_all = b"".join(A) + b"".join(A2), b"".join(B)
    world.notes.update(version=version, lib_server=lib_server, shape=shape, cap_l2p=cap_l2p, cap_p2l=cap_p2l, a_sizes=[len(x) for x in A], a2_sizes=[len(x) for x in A2], b_sizes=[len(x) for x in B], d_l2p=(d_l2p.frag, d_l2p.size, d_l2p.delays), d_p2l=(d_p2l.frag, d_p2l.size, d_p2l.delays))
    state: dict[str, Any] = {"lib_got": bytearray(), "peer_got": bytearray(), "phase": "handshake", "done": set()}
    peer: TLSPeer | None = None
    if shape != "mirror":
        peer = TLSPeer(world, psock, server_side=not lib_server, version=version, shape=shape)

        def after_hs() -> None:
            t = 0.0
            for i, w in enumerate(b_writes):
                t += max(w["gap"], 0) / 64.0
                world.after(t, lambda i=i: peer.write(B[i]))  # type: ignore[union-attr]

        peer.on_handshake_done = after_hs

    async def writer(tls: AsyncTLSStreamTransport, writes: list[dict], payloads: list[bytes], name: str) -> None:
        for w, p in zip(writes, payloads):
            if w["gap"]:
                await asyncio.sleep(max(w["gap"], 0) / 64.0)
            if w["iter"]:
                await tls.send_all_from_iterable(_split(seed16, p, w["iter"]))
            else:
                await tls.send_all(p)
            world.progress()
            world.log("wrote", name, len(p))
        state["done"].add(name + ".w")

    async def reader(tls: AsyncTLSStreamTransport, total: int, sink: bytearray, name: str, bufsize: int, into: bool) -> None:
        buf = bytearray(bufsize)
        while len(sink) < total:
            if into:
                n = await tls.recv_into(buf)
                data = bytes(buf[:n])
            else:
                data = await tls.recv(bufsize)
            if not data:
                raise Violation("premature-eof", f"{name}: clean EOF after {len(sink)} of {total} bytes", key=f"C08/aio/{shape}/premature-eof")
            sink += data
            world.log("read", name, len(data))
        state["done"].add(name + ".r")

    bufsize = world.pick("bufsize", [65536, 1, 100, 4096, 16384])
    into = bool(world.choose("into", 2))
    world.notes.update(bufsize=bufsize, into=into, chatty=chatty)

    async def side(sock, server_side: bool, writes, payloads, total_in: int, sink: bytearray, name: str) -> None:
        tr = await backend.wrap_stream_socket(sock)
        tls = await AsyncTLSStreamTransport.wrap(tr, make_context(server_side, version), server_side=server_side, server_hostname=None if server_side else "sim.host", handshake_timeout=200000.0)
        state["phase"] = "transfer"
        async with asyncio.TaskGroup() as tg:
            tg.create_task(writer(tls, writes, payloads, name), name=f"{name}-writer")
            if name == "lib" and two_writers:
                tg.create_task(writer(tls, a2_writes, A2, "lib2"), name="lib-writer2")
            tg.create_task(reader(tls, total_in, sink, name, bufsize, into), name=f"{name}-reader")
        state[name + ".tls"] = tls

    async def main() -> None:
        if not calm:
            swarm_selector(world, asyncio.get_running_loop().sim_selector)  # type: ignore[attr-defined]
        asyncio.get_running_loop().sim_selector.spurious_den = 0  # type: ignore[attr-defined]
        if shape == "mirror":
            async with asyncio.TaskGroup() as tg:
                tg.create_task(side(lib, lib_server, a_writes, A, len(B_all), state["lib_got"], "lib"), name="lib-side")
                tg.create_task(side(psock, not lib_server, b_writes, B, len(A_all), state["peer_got"], "peer"), name="peer-side")
        else:
            await side(lib, lib_server, a_writes, A, len(B_all), state["lib_got"], "lib")
            # let the reference peer drain what is still in flight
            while len(peer.plain_in) < len(A_all) and (lib.tx_pipe.flight or lib.tx_pipe.rx) and world.now < 400000.0:  # type: ignore[union-attr]
                await asyncio.sleep(1 / 64)
        state["phase"] = "closing"
        for name in ("lib", "peer"):
            tls = state.get(name + ".tls")
            if tls is not None:
                with backend.move_on_after(5.0):
                    await tls.aclose()

    try:
        run_async(world, main)
    except Deadlock as e:
        lib_n = len(state["lib_got"])
        peer_n = len(peer.plain_in) if peer is not None else len(state["peer_got"])
        site = "handshake" if state["phase"] == "handshake" else "transfer"
        raise Violation(
            "deadlock",
            f"no task can make progress ({site}): lib read {lib_n}/{len(B_all)} bytes, peer read {peer_n}/{len(A_all)}; done={sorted(state['done'])}; shape={shape} caps l2p={cap_l2p} p2l={cap_p2l} tls{version} lib_server={lib_server}; A={[len(x) for x in A]} B={[len(x) for x in B]}",
            key=f"C08/aio/{shape}/deadlock",
        ) from None
    except BaseExceptionGroup as eg:
        v = [e for e in _flatten(eg) if isinstance(e, Violation)]
        if v:
            raise v[0] from None
        d = [e for e in _flatten(eg) if isinstance(e, Deadlock)]
        if d:
            raise Violation("deadlock", f"deadlock inside task group; shape={shape}", key=f"C08/aio/{shape}/deadlock") from None
        first = _flatten(eg)[0]
        raise Violation("transfer-error", f"{type(first).__name__}: {first}; shape={shape} tls{version} lib_server={lib_server}", key=f"C08/aio/{shape}/transfer-error/{type(first).__name__}") from None
    peer_plain = peer.plain_in if peer is not None else bytes(state["peer_got"])
    if bytes(state["lib_got"]) != B_all:
        raise Violation("plaintext-equal", f"library side read {len(state['lib_got'])} bytes != peer wrote {len(B_all)} (first diff at {_first_diff(bytes(state['lib_got']), B_all)})", key=f"C08/aio/{shape}/plaintext-equal/lib-read")
    if two_writers:
        rest, qa, qb = bytes(peer_plain), list(A), list(A2)
        while rest:
            if qa and rest.startswith(qa[0]):
                rest = rest[len(qa.pop(0)) :]
            elif qb and rest.startswith(qb[0]):
                rest = rest[len(qb.pop(0)) :]
            else:
                raise Violation("plaintext-equal", f"peer plaintext is not a merge of whole writes of the two writer tasks: {len(peer_plain) - len(rest)} bytes attributed, {len(rest)} left; sizes A={[len(x) for x in A]} A2={[len(x) for x in A2]}", key=f"C08/aio/{shape}/plaintext-equal/two-writers")
        if qa or qb:
            raise Violation("plaintext-equal", f"peer plaintext misses {len(qa)}+{len(qb)} writes", key=f"C08/aio/{shape}/plaintext-equal/two-writers-missing")
    elif peer_plain != A_all:
        raise Violation("plaintext-equal", f"peer read {len(peer_plain)} bytes != library wrote {len(A_all)} (first diff at {_first_diff(peer_plain, A_all)}); peer error={peer.engine.error if peer else None}", key=f"C08/aio/{shape}/plaintext-equal/peer-read")
    # confidentiality: nothing the library handed to the wrapped transport contains a plaintext marker
    wire = b"".join(lib.sent_log)
    for i, p in enumerate(A + A2):
        if len(p) >= 16 and p[:16] in wire:
            raise Violation("confidentiality", f"plaintext marker of write {i} found on the wire", key=f"C08/aio/{shape}/confidentiality")
    if not _parse_records(wire):
        raise Violation("wire-is-tls-records", "bytes handed to the wrapped transport do not parse as a sequence of TLS records", key=f"C08/aio/{shape}/wire-is-tls-records")


def _flatten(eg: BaseException) -> list[BaseException]:
    if isinstance(eg, BaseExceptionGroup):
        out: list[BaseException] = []
        for e in eg.exceptions:
            out.extend(_flatten(e))
        return out
    return [eg]


def _first_diff(a: bytes, b: bytes) -> int:
    n = min(len(a), len(b))
    for i in range(n):
        if a[i] != b[i]:
            return i
    return n


def _h_sync(world: World) -> None:
    """blocking SSLStreamTransport over a real socketpair; one thread, so the directions alternate: the library
    sends a write, the reference peer echoes it transformed, the library reads it back."""
    from easynetwork.lowlevel.api_sync.transports.socket import SSLStreamTransport

    from vsim.harness import sync_engine

    seed16 = world.choose("markerseed", 1 << 16)
    version = world.pick("version", ["1.3", "1.2"])
    lib_server = bool(world.choose("lib_server", 2))
    sizes = [world.pick("fs", [1 << 30, 1, 5, 64, 1000, 3, 17]) for _ in range(1 + world.choose("nfs", 4))]
    delays = [world.choose("fd", 3) for _ in range(1 + world.choose("nfd", 3))]
    if sizes != [1 << 30]:
        world.fault("frag")
    if any(delays):
        world.fault("delay")
    writes = _gen_writes(world, "A", True)
    A = [_payload(seed16, "A", i, w["size"]) for i, w in enumerate(writes)]
    floor = max(1, (sum(len(x) for x in A) + 1500) // 600)
    sizes = [max(x, floor) for x in sizes]
    peer = RealTLSPeer(world, server_side=not lib_server, version=version, sizes=sizes, delays=delays)
    world.notes.update(version=version, lib_server=lib_server, sizes=[len(x) for x in A], frag=sizes, delays=delays)
    echoed = {"n": 0}

    def echo() -> None:
        # echo everything received so far, byte-wise complemented, as soon as a whole write arrived
        got = bytes(peer.engine.plain_in)
        while echoed["n"] < len(A) and len(got) >= sum(len(x) for x in A[: echoed["n"] + 1]):
            i = echoed["n"]
            echoed["n"] += 1
            peer.write(bytes(b ^ 0xFF for b in A[i]))

    orig_collect = peer._collect

    def collect_and_echo() -> None:
        orig_collect()
        if peer.engine.handshake_done:
            n = echoed["n"]
            echo()
            if echoed["n"] != n:
                orig_collect()

    peer._collect = collect_and_echo  # type: ignore[method-assign]
    tr = None
    try:
        with sync_engine(world) as make_selector:
            try:
                tr = SSLStreamTransport(peer.lib_sock, make_context(lib_server, version), retry_interval=math.inf, server_side=lib_server, server_hostname=None if lib_server else "sim.host", selector_factory=make_selector)
                bufsize = world.pick("bufsize", [65536, 1, 100, 4096])
                for i, (w, p) in enumerate(zip(writes, A)):
                    if w["iter"]:
                        tr.send_all_from_iterable(_split(seed16, p, w["iter"]), math.inf)
                    else:
                        tr.send_all(p, math.inf)
                    want = bytes(b ^ 0xFF for b in p)
                    got = bytearray()
                    while len(got) < len(want):
                        data = tr.recv(bufsize, math.inf)
                        if not data:
                            raise Violation("premature-eof", f"clean EOF after {len(got)} of {len(want)} echoed bytes", key="C08/sync/premature-eof")
                        got += data
                    if bytes(got) != want:
                        raise Violation("plaintext-equal", f"echo of write {i} differs at {_first_diff(bytes(got), want)}", key="C08/sync/plaintext-equal/lib-read")
                    world.progress()
                if bytes(peer.engine.plain_in) != b"".join(A):
                    raise Violation("plaintext-equal", "peer read differs from what the library wrote", key="C08/sync/plaintext-equal/peer-read")
                tr.close()
            except Deadlock:
                raise Violation("deadlock", f"blocking TLS transfer cannot make progress; tls{version} lib_server={lib_server} sizes={[len(x) for x in A]}", key="C08/sync/deadlock") from None
    finally:
        if tr is not None and not tr.is_closed():
            try:
                tr.close()
            except BaseException:
                pass
        peer.dispose()


def _h_cancelled_writer(world: World) -> None:
    """A writer task is cancelled while it WAITS for the transport's send lock behind another, back-pressured writer.
    The cancelled write may reach the peer wholly or not at all; everything the other writers wrote (before and after)
    must still arrive intact and in order, and the TLS stream must stay valid (found missing by a seeded change)."""
    seed16 = world.choose("markerseed", 1 << 16)
    version = world.pick("version", ["1.3", "1.2"])
    lib_server = bool(world.choose("lib_server", 2))
    cap = world.pick("cap", [4096, 2048, 16384])
    n1 = 300000 + world.choose("n1", 100000)  # beyond link capacity + the adapter's 256 KiB buffer is not needed: the peer is paused
    n1 = world.pick("w1size", [40000, 90000, 20000])
    n2 = world.pick("w2size", [17, 500, 20000])
    n3 = world.pick("w3size", [17, 3000])
    start2 = 2 + world.choose("start2", 6)  # /64 s after W1 started
    cancel_at = start2 + 1 + world.choose("cancel_gap", 8)
    resume_at = cancel_at + 1 + world.choose("resume_gap", 8)
    iterable2 = world.choose("iter2", 3)
    net = SimNet(world)
    backend = SimAsyncIOBackend(net)
    lib, psock = net.socketpair(capacity_ab=cap, capacity_ba=1 << 20)
    world.fault("capacity_small")
    peer = TLSPeer(world, psock, server_side=not lib_server, version=version)
    P1, P2, P3 = _payload(seed16, "A", 0, n1), _payload(seed16, "A2", 0, n2), _payload(seed16, "A", 1, n3)
    world.notes.update(version=version, lib_server=lib_server, cap=cap, sizes=[n1, n2, n3], start2=start2, cancel_at=cancel_at, resume_at=resume_at)
    state: dict[str, Any] = {}

    async def main() -> None:
        tr = await backend.wrap_stream_socket(lib)
        tls = await AsyncTLSStreamTransport.wrap(tr, make_context(lib_server, version), server_side=lib_server, server_hostname=None if lib_server else "sim.host", handshake_timeout=2000.0)
        await asyncio.sleep(1 / 64)
        peer.paused = True
        world.fault("peer_stops_reading")
        t0 = world.now

        async def w1() -> None:
            await tls.send_all(P1)
            await tls.send_all(P3)

        async def w2() -> None:
            await asyncio.sleep(start2 / 64)
            if iterable2:
                await tls.send_all_from_iterable(_split(seed16, P2, iterable2))
            else:
                await tls.send_all(P2)

        t1 = asyncio.get_running_loop().create_task(w1(), name="writer1")
        t2 = asyncio.get_running_loop().create_task(w2(), name="writer2")
        await asyncio.sleep(cancel_at / 64)
        if t1.done():
            raise Violation("harness/no-backpressure", "writer1 finished although the peer is not reading", key="C08/cancelled-writer/harness")
        t2.cancel()
        world.fault("cancel_at_time")
        world.log("cancel", "writer2")
        await asyncio.sleep((resume_at - cancel_at) / 64)
        peer.resume()
        await asyncio.wait([t1, t2], timeout=4000)
        if not t1.done():
            raise Deadlock("writer1 never finished")
        state["w1_exc"] = t1.exception() if not t1.cancelled() else "cancelled"
        while len(peer.plain_in) < len(P1) + len(P3) and (lib.tx_pipe.flight or lib.tx_pipe.rx) and world.now < 400000.0:  # type: ignore[union-attr]
            await asyncio.sleep(1 / 64)
        await asyncio.sleep(4 / 64)
        with backend.move_on_after(5.0):
            await tls.aclose()

    try:
        run_async(world, main)
    except Deadlock:
        raise Violation("deadlock", f"writer1 never finishes after the peer resumed reading; sizes={[n1, n2, n3]} cap={cap}", key="C08/cancelled-writer/deadlock") from None
    if state.get("w1_exc") is not None:
        raise Violation("writer-failed", f"the surviving writer failed with {state['w1_exc']!r} after another writer was cancelled while waiting for the send lock", key="C08/cancelled-writer/writer-failed")
    if peer.engine.error is not None and not peer.engine.saw_close_notify:
        raise Violation("tls-stream-corrupted", f"the reference peer could not decrypt the stream: {type(peer.engine.error).__name__}: {peer.engine.error}; it had read {len(peer.plain_in)} bytes; sizes={[n1, n2, n3]}", key="C08/cancelled-writer/tls-stream-corrupted")
    got = peer.plain_in
    ok = got in (P1 + P3, P1 + P2 + P3, P1 + P3 + P2)
    if not ok:
        raise Violation("plaintext-equal", f"peer read {len(got)} bytes; expected writer1's {n1}+{n3} bytes with writer2's cancelled {n2}-byte write wholly present or absent (first diff vs P1+P3 at {_first_diff(got, P1 + P3)})", key="C08/cancelled-writer/plaintext-equal")
    world.progress(2)


def _h_pha(world: World) -> None:
    """Cipher-text produced by a READ must leave the library (TLS 1.3 post-handshake client authentication is the one way the
    stdlib offers to provoke that: the server asks for the client's certificate after the handshake, the client's answer is
    produced while it *reads* the request).  The library is the client; a reader task keeps reading; the reference peer asks
    for the certificate
      * while a writer, suspended by back-pressure, owns the transport send lock (the reader must leave the flush to the
        owner, and the owner must flush what was added meanwhile before it releases the lock), or
      * in a read-only phase after the writers are done, one of them having been cancelled while it was queued on the lock
        (nobody is flushing any more: the reader has to flush by itself).
    Oracle: once the peer reads again, it obtains the client's certificate within 30 virtual seconds, without the harness
    issuing any further write or close; the bytes both sides read are exactly the bytes written."""
    seed16 = world.choose("markerseed", 1 << 16)
    lib_server = False
    version = "1.3"
    mode = world.pick("pha.mode", ["owner-blocked", "read-only-phase"])
    cap = world.pick("cap", [4096, 2048, 16384])
    n1 = world.pick("w1size", [40000, 90000, 20000])
    n2 = world.pick("w2size", [17, 500, 20000])
    with_w2 = bool(world.choose("w2", 2)) or mode == "read-only-phase"
    cancel_w2 = with_w2 and (bool(world.choose("cancel_w2", 2)) or mode == "read-only-phase")
    start2 = 2 + world.choose("start2", 6)
    cancel_at = start2 + 1 + world.choose("cancel_gap", 8)
    req_at = cancel_at + 1 + world.choose("req_gap", 8)  # owner-blocked: the request arrives while writer1 still owns the lock
    resume_at = req_at + 1 + world.choose("resume_gap", 8)
    nb = 1 + world.choose("pha.nb", 3000)  # application bytes that carry the request
    bufsize = world.pick("bufsize", [65536, 100, 4096])
    net = SimNet(world)
    backend = SimAsyncIOBackend(net)
    lib, psock = net.socketpair(capacity_ab=cap, capacity_ba=1 << 20)
    world.fault("capacity_small")
    peer = TLSPeer(world, psock, server_side=True, version=version, pha=True)
    P1, P2 = _payload(seed16, "A", 0, n1), _payload(seed16, "A2", 0, n2)
    B1, B2 = _payload(seed16, "B", 0, nb), _payload(seed16, "B", 1, 17)
    world.notes.update(mode=mode, cap=cap, sizes=[n1, n2, nb], with_w2=with_w2, cancel_w2=cancel_w2, start2=start2, cancel_at=cancel_at, req_at=req_at, resume_at=resume_at, bufsize=bufsize)
    state: dict[str, Any] = {"got": bytearray()}

    def ask() -> None:
        peer.engine.request_client_cert()
        peer.write(B1)  # the CertificateRequest leaves with this write
        world.log("pha_request", "peer")
        world.fault("tls_post_handshake_auth")

    async def main() -> None:
        tr = await backend.wrap_stream_socket(lib)
        tls = await AsyncTLSStreamTransport.wrap(tr, make_context(False, version, True), server_side=False, server_hostname="sim.host", handshake_timeout=2000.0)
        await asyncio.sleep(1 / 64)
        loop = asyncio.get_running_loop()

        async def reader() -> None:
            while True:
                data = await tls.recv(bufsize)
                if not data:
                    return
                state["got"] += data

        rt = loop.create_task(reader(), name="reader")
        peer.paused = True
        world.fault("peer_stops_reading")

        async def w1() -> None:
            await tls.send_all(P1)

        async def w2() -> None:
            await asyncio.sleep(start2 / 64)
            await tls.send_all(P2)

        t1 = loop.create_task(w1(), name="writer1")
        t2 = loop.create_task(w2(), name="writer2") if with_w2 else None
        await asyncio.sleep(cancel_at / 64)
        if t1.done():
            raise Violation("harness/no-backpressure", "writer1 finished although the peer is not reading", key="C08/pha/harness")
        if t2 is not None and cancel_w2:
            t2.cancel()
            world.fault("cancel_at_time")
        if mode == "owner-blocked":
            await asyncio.sleep((req_at - cancel_at) / 64)
            ask()
            await asyncio.sleep((resume_at - req_at) / 64)
            peer.resume()
        else:
            await asyncio.sleep((resume_at - cancel_at) / 64)
            peer.resume()
            await asyncio.wait([t for t in (t1, t2) if t is not None], timeout=4000)
            if not t1.done():
                raise Deadlock("writer1 never finished")
            await asyncio.sleep(req_at / 64)  # everything looks healthy: nobody is writing any more
            ask()
        t_ref = world.now
        while not peer.engine.client_cert_received and world.now < t_ref + 30.0:
            await asyncio.sleep(1 / 64)
        state["cert"] = peer.engine.client_cert_received
        state["cert_after"] = world.now - t_ref
        await asyncio.wait([t for t in (t1, t2) if t is not None], timeout=4000)
        state["w1_done"] = t1.done() and not t1.cancelled() and t1.exception() is None
        peer.write(B2)
        await asyncio.sleep(1.0)
        rt.cancel()
        await asyncio.wait([rt])
        with backend.move_on_after(5.0):
            await tls.aclose()

    try:
        run_async(world, main)
    except Deadlock:
        raise Violation("deadlock", f"writer1 never finishes after the peer resumed reading; notes={world.notes}", key="C08/pha/deadlock") from None
    if peer.engine.error is not None:
        raise Violation("tls-stream-corrupted", f"the reference peer could not decrypt the stream: {type(peer.engine.error).__name__}: {peer.engine.error}", key="C08/pha/tls-stream-corrupted")
    if not state.get("cert"):
        raise Violation(
            "read-produced-ciphertext-is-sent",
            f"the peer asked for the client certificate (TLS 1.3 post-handshake authentication, mode {mode}); 30 virtual seconds after it started reading again "
            f"it still has not received the answer which the library's reader produced: the cipher-text never left the transport; notes={world.notes}",
            key=f"C08/pha/{mode}/answer-never-sent",
        )
    world.progress()
    if not state.get("w1_done"):
        raise Violation("writer-failed", f"writer1 did not complete normally; notes={world.notes}", key="C08/pha/writer-failed")
    if peer.engine.error is not None:
        raise Violation("tls-stream-corrupted", f"the reference peer could not decrypt the stream: {type(peer.engine.error).__name__}: {peer.engine.error}", key="C08/pha/tls-stream-corrupted")
    if bytes(state["got"]) != B1 + B2:
        raise Violation("plaintext-equal", f"the library read {len(state['got'])} bytes, the peer wrote {len(B1) + len(B2)}", key="C08/pha/plaintext-equal/lib")
    got = bytes(peer.plain_in)
    if got not in ((P1, P1 + P2) if (with_w2 and cancel_w2) else ((P1 + P2, P2 + P1) if with_w2 else (P1,))):
        raise Violation("plaintext-equal", f"the peer read {len(got)} bytes; writer sizes {n1}, {n2} (writer2 {'cancelled while queued' if cancel_w2 else 'present' if with_w2 else 'absent'})", key="C08/pha/plaintext-equal/peer")


HARNESSES = [
    Harness("aio-cancelled-writer", _h_cancelled_writer, weight=1, wall_limit=180.0),
    Harness("aio-duplex", _h_aio, weight=3, wall_limit=180.0),
    Harness("aio-duplex-chatty", lambda w: _h_aio(w, True), weight=3, wall_limit=180.0),
    Harness("sync-sequential", _h_sync, weight=1, wall_limit=180.0),
    Harness("aio-pha", _h_pha, weight=1, wall_limit=180.0),
]
